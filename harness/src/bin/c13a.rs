//! C13 (level L1, table) — A subscriber eventually learns every change it subscribed to.
//!
//! The crate-private subscription table of `rs-matter/src/im/subscriptions.rs` (`Subscriptions`,
//! the 16-entry pending-change table, per-subscription watermarks, the subscription that is
//! moved out of the table while its priming / report runs, `purge_reported_changes`, coalescing,
//! `next_report_at`, retry back-off, expiry) is driven through generated histories in which the
//! harness plays the two callers of the table exactly as `rs-matter/src/im.rs` does:
//!
//! * the **subscribe handler** (`InteractionModel::subscribe`): `[remove(fabric, peer) unless
//!   keep_subs]`, `add(now, .., events.watermark())`, then — several round trips later — either
//!   `set_keep` + drop + notify (primed) or a plain drop (priming failed). Any number of
//!   primings may be in progress at once, overlapping everything else;
//! * the **reporter task** (`InteractionModel::process_subscriptions`), which is strictly
//!   sequential: wake (`now` and the event watermark are sampled once per iteration),
//!   `remove(expired | fabric gone)` until nothing is removed, then
//!   `while let Some(rctx) = report(now, wm)` { Ok(true) → `set_keep`; Ok(false) → drop;
//!   Err → `set_keep_retry` }, and — only when `report()` returned `None`, i.e. never while a
//!   report is in flight — `purge_reported_changes()`. The reporter sleeps until
//!   `next_report_at()` or a notification; the harness never lets virtual time pass an armed
//!   deadline or a pending notification while the reporter is idle;
//! * the **application**: `notify_attr_changed / notify_cluster_changed /
//!   notify_endpoint_changed / notify_all_changed`, and emitted events (the table only sees the
//!   event-number watermark).
//!
//! Reference model (from the property statement): per subscription the set of concrete attribute
//! paths (and the smallest event number) that changed **after the data of its priming report was
//! read** and have not been delivered to it by a report that succeeded. Oracles:
//!
//! * **discoverable** (after every step): every such undelivered change is still found by the
//!   subscription — the real report filter `ReportContext::should_report_attr` says yes while a
//!   report is in flight, and the pending-change table holds a covering entry above the
//!   watermark the subscription has / is going to commit otherwise — i.e. the change was neither
//!   purged nor coalesced away; a failed report leaves watermarks and last-success time
//!   untouched. Signatures `lost:<where the subscription was>:<what the step did>`.
//! * **eventually** (end of every history): all round trips complete successfully, then the
//!   reporter runs on its own timer until nothing is owed; every owed change must have passed the
//!   real filter of a report of that subscription, or the subscription must have ended.
//! * **membership**: a subscription ends only by expiry, fabric removal, replacement by a new
//!   SubscribeRequest of the same peer, rejection of a report by the peer, or failed priming; an
//!   established subscription that vanishes otherwise is `established-subscription-dropped`.
//! * **timing**: `report()` never hands out a subscription earlier than its last successful
//!   report + min interval; the reporter's deadline is not later than last success + max interval
//!   for every healthy subscription (strictly earlier when min < max); in a quiet run every
//!   healthy subscription gets its liveness report before it expires; `is_expired` flips exactly
//!   at last success + max interval whatever failed in between, the reporter removes such a
//!   subscription on its next iteration and never reports on it.
//!
//! Findings on the unchanged tree (each with a stable signature; listed as `open` in
//! `known_findings.json` the search continues behind them — for `lost:*` even inside the same
//! history, by dropping the lost obligation from the model):
//!
//! * `lost:priming:purge` — `purge_reported_changes` only looks at subscriptions *in* the table;
//!   a change made while a subscription is priming is purged (or the whole table cleared) before
//!   that subscription saw it. Minimal: Subscribe; PrimingRead; Change; reporter wake.
//!   Fix: `fixes/01-purge-ignores-priming-subscription.patch`.
//! * `established-subscription-dropped` — `report_complete` of a *priming* context clears the
//!   `reporting` slot and consumes the cancellation meant for the report in flight, so the new
//!   subscription is dropped in place of the one it replaces. Minimal: Subscribe; PrimingDone;
//!   Change; wake (report in flight); Subscribe(same peer, keep_subs=false); PrimingDone.
//!   Fix: `fixes/02-priming-completion-clobbers-reporting-slot.patch`.
//!
//! `C13_TRACE=1 c13a --replay FILE` prints the interpreted steps.

use std::collections::{BTreeMap, BTreeSet, HashSet};
use std::num::NonZeroU8;
use std::sync::OnceLock;

use embassy_time::Instant;
use proptest::prelude::*;
use serde::{Deserialize, Serialize};

use rs_matter::im::subscriptions::verif::SubSnapshot;
use rs_matter::im::subscriptions::{ReportContext, Subscriptions, SubscriptionsBuffers};
use rs_matter::im::IMBuffer;
use rs_matter::utils::storage::pooled::{Buffers, PooledBuffers};

use vh::util::pick;
use vh::{Case, Run};

// ---------------------------------------------------------------------------------------------
// Universe
// ---------------------------------------------------------------------------------------------

/// Capacity of the subscription table under test.
const N_SUBS: usize = 4;
const POOL: usize = 8;
type Pool = PooledBuffers<IMBuffer, POOL>;
type Rctx<'a, 's> = ReportContext<'a, 's, Pool, N_SUBS>;

const N_EP: usize = 18;
const N_CL: usize = 2;
const N_AT: usize = 3;
const N_PATHS: usize = N_EP * N_CL * N_AT;
const CLUSTER_BASE: u32 = 0x30;

type Path = (u16, u32, u32);

fn path(i: usize) -> Path {
    let i = i % N_PATHS;
    let e = i / (N_CL * N_AT);
    let c = (i % (N_CL * N_AT)) / N_AT;
    let a = i % N_AT;
    (e as u16, CLUSTER_BASE + c as u32, a as u32)
}

const T0_US: u64 = 1_000_000_000;
const SEC: u64 = 1_000_000;

fn inst(us: u64) -> Instant {
    Instant::from_micros(us)
}

// ---------------------------------------------------------------------------------------------
// Histories
// ---------------------------------------------------------------------------------------------

/// One attribute path pattern of a subscription (`None` = wildcard); indices into the universe.
#[derive(Debug, Clone, Copy, PartialEq, Eq, Serialize, Deserialize)]
struct Pat {
    e: Option<u8>,
    c: Option<u8>,
    a: Option<u8>,
}

impl Pat {
    fn matches(&self, p: Path) -> bool {
        self.e.map(|e| e as u16 == p.0).unwrap_or(true)
            && self.c.map(|c| CLUSTER_BASE + c as u32 == p.1).unwrap_or(true)
            && self.a.map(|a| a as u32 == p.2).unwrap_or(true)
    }
}

#[derive(Debug, Clone, Copy, PartialEq, Eq, Serialize, Deserialize)]
enum Chg {
    /// `notify_attr_changed` of the path with this index
    Attr(u8),
    /// `notify_cluster_changed`
    Cluster { e: u8, c: u8 },
    /// `notify_endpoint_changed`
    Endpoint { e: u8 },
    /// `notify_all_changed`
    All,
}

#[derive(Debug, Clone, Copy, PartialEq, Eq, Serialize, Deserialize)]
enum Outcome {
    /// the subscriber answered the report with success
    Ok,
    /// the report did not get through (`Err` in the reporter loop → `set_keep_retry`)
    Fail,
    /// the subscriber answered with a non-success status (`Ok(false)` → dropped)
    Rejected,
}

#[derive(Debug, Clone, PartialEq, Eq, Serialize, Deserialize)]
enum Op {
    /// A SubscribeRequest arrives on a session of (fabric, peer).
    Subscribe {
        fab: u8,
        peer: u8,
        keep_subs: bool,
        min: u16,
        max: u16,
        pats: Vec<Pat>,
        events: bool,
    },
    /// The data of the priming report of one of the primings in progress is read now.
    PrimingRead { sel: u16 },
    /// One of the primings in progress completes (SubscribeResponse sent / exchange failed).
    PrimingDone { sel: u16, ok: bool },
    Change(Chg),
    /// `count` distinct attribute changes `start, start+stride, ...` in one go.
    Burst { start: u8, stride: u8, count: u8 },
    /// `count` events are emitted.
    Event { count: u8 },
    /// The reporter task is polled (notification, session removal, spurious).
    Wake,
    /// The data of the report in flight is read now.
    ReportRead,
    /// The report in flight completes.
    ReportEnd(Outcome),
    /// A fabric is removed (seen by the reporter's next removal pass).
    RemoveFabric { fab: u8 },
    /// Virtual time passes.
    Advance { ms: u32 },
}

impl Op {
    fn name(&self) -> &'static str {
        match self {
            Op::Subscribe { .. } => "subscribe",
            Op::PrimingRead { .. } => "priming-read",
            Op::PrimingDone { ok: true, .. } => "priming-done",
            Op::PrimingDone { ok: false, .. } => "priming-failed",
            Op::Change(_) => "change",
            Op::Burst { .. } => "burst",
            Op::Event { .. } => "event",
            Op::Wake => "wake",
            Op::ReportRead => "report-read",
            Op::ReportEnd(Outcome::Ok) => "report-ok",
            Op::ReportEnd(Outcome::Fail) => "report-fail",
            Op::ReportEnd(Outcome::Rejected) => "report-rejected",
            Op::RemoveFabric { .. } => "remove-fabric",
            Op::Advance { .. } => "advance",
        }
    }
}

#[derive(Debug, Clone, Serialize, Deserialize)]
struct History {
    ops: Vec<Op>,
}

fn ep_idx() -> impl Strategy<Value = u8> {
    prop_oneof![4 => 0u8..3, 1 => 0u8..N_EP as u8]
}

fn pat() -> impl Strategy<Value = Pat> {
    prop_oneof![
        3 => Just(Pat { e: None, c: None, a: None }),
        3 => ep_idx().prop_map(|e| Pat { e: Some(e), c: None, a: None }),
        3 => (ep_idx(), 0u8..N_CL as u8).prop_map(|(e, c)| Pat { e: Some(e), c: Some(c), a: None }),
        3 => (ep_idx(), 0u8..N_CL as u8, 0u8..N_AT as u8)
            .prop_map(|(e, c, a)| Pat { e: Some(e), c: Some(c), a: Some(a) }),
        1 => (0u8..N_CL as u8, 0u8..N_AT as u8).prop_map(|(c, a)| Pat { e: None, c: Some(c), a: Some(a) }),
    ]
}

fn chg() -> impl Strategy<Value = Chg> {
    prop_oneof![
        12 => (ep_idx(), 0u8..(N_CL * N_AT) as u8)
            .prop_map(|(e, r)| Chg::Attr(e * (N_CL * N_AT) as u8 + r)),
        2 => (ep_idx(), 0u8..N_CL as u8).prop_map(|(e, c)| Chg::Cluster { e, c }),
        1 => ep_idx().prop_map(|e| Chg::Endpoint { e }),
        1 => Just(Chg::All),
    ]
}

fn subscribe() -> impl Strategy<Value = Op> {
    (
        0u8..3,
        0u8..2,
        prop::bool::weighted(0.5),
        prop::sample::select(vec![0u16, 0, 0, 1, 2, 5, 10, 20, 30, 39, 40, 60, 300]),
        prop::sample::select(vec![40u16, 40, 41, 60, 60, 120, 600, 3600, u16::MAX]),
        prop::collection::vec(pat(), 1..4),
        prop::bool::weighted(0.5),
    )
        .prop_map(|(fab, peer, keep_subs, min, max, pats, events)| Op::Subscribe {
            fab,
            peer,
            keep_subs,
            // a subscriber sends MinIntervalFloor <= MaxIntervalCeiling, and im.rs raises the
            // maximum to at least 40 s
            min: min.min(max),
            max,
            pats,
            events,
        })
}

fn advance() -> impl Strategy<Value = Op> {
    prop_oneof![
        6 => prop::sample::select(vec![0u32, 1, 10, 500, 999, 1000, 1001, 2000, 4000, 5000]),
        3 => prop::sample::select(vec![8_000u32, 16_000, 19_999, 20_000, 30_000, 39_999, 40_000, 60_000]),
        1 => prop::sample::select(vec![300_000u32, 3_600_000]),
        1 => 0u32..100_000,
    ]
    .prop_map(|ms| Op::Advance { ms })
}

/// Relative weights of the op kinds: `[subscribe, priming-read, priming-done, change, burst,
/// event, wake, report-read, report-end, remove-fabric, advance]`.
type Weights = [u32; 11];

fn op(w: Weights) -> impl Strategy<Value = Op> {
    prop_oneof![
        w[0] => subscribe(),
        w[1] => any::<u16>().prop_map(|sel| Op::PrimingRead { sel }),
        w[2] => (any::<u16>(), prop::bool::weighted(0.85)).prop_map(|(sel, ok)| Op::PrimingDone { sel, ok }),
        w[3] => chg().prop_map(Op::Change),
        w[4] => (0u8..N_PATHS as u8, prop::sample::select(vec![1u8, 1, 3, 6, 6, 7]), 2u8..24)
            .prop_map(|(start, stride, count)| Op::Burst { start, stride, count }),
        w[5] => (1u8..4).prop_map(|count| Op::Event { count }),
        w[6] => Just(Op::Wake),
        w[7] => Just(Op::ReportRead),
        w[8] => prop_oneof![6 => Just(Outcome::Ok), 3 => Just(Outcome::Fail), 1 => Just(Outcome::Rejected)]
            .prop_map(Op::ReportEnd),
        w[9] => (0u8..3).prop_map(|fab| Op::RemoveFabric { fab }),
        w[10] => advance(),
    ]
}

fn history(w: Weights, len: std::ops::Range<usize>) -> impl Strategy<Value = History> {
    prop::collection::vec(op(w), len).prop_map(|ops| History { ops })
}

// ---------------------------------------------------------------------------------------------
// Known findings (to continue the search behind them inside one history)
// ---------------------------------------------------------------------------------------------

static KNOWN: OnceLock<HashSet<String>> = OnceLock::new();

fn is_known(sig: &str) -> bool {
    KNOWN.get().map(|k| k.contains(sig)).unwrap_or(false)
}

fn load_known() {
    #[derive(Deserialize)]
    struct K {
        property: String,
        signature: String,
        #[serde(default)]
        status: String,
    }
    let set = std::fs::read_to_string(format!("{}/known_findings.json", vh::run::verif_dir()))
        .ok()
        .and_then(|s| serde_json::from_str::<Vec<K>>(&s).ok())
        .unwrap_or_default()
        .into_iter()
        .filter(|k| k.property == "C13" && k.status == "open")
        .map(|k| k.signature)
        .collect();
    let _ = KNOWN.set(set);
}

// ---------------------------------------------------------------------------------------------
// Reference model
// ---------------------------------------------------------------------------------------------

#[derive(Debug, Clone, Copy, PartialEq, Eq)]
enum Place {
    /// moved out of the table by `add`, priming in progress
    Priming,
    Table,
    /// moved out of the table by `report`, report in flight
    InFlight,
}

impl Place {
    fn name(self) -> &'static str {
        match self {
            Place::Priming => "priming",
            Place::Table => "table",
            Place::InFlight => "inflight",
        }
    }
}

#[derive(Debug, Clone)]
struct MSub {
    fab: u8,
    peer: u8,
    min: u16,
    max: u16,
    /// the subscribed concrete paths of the universe
    paths: Vec<Path>,
    events: bool,
    place: Place,
    /// the data of the priming report was read: changes from now on are owed
    active: bool,
    /// owed: changed after the priming data was read, not delivered by a successful report
    pending: BTreeSet<Path>,
    /// subset of `pending` that changed (again) after the data of the report in flight was read
    fresh: BTreeSet<Path>,
    read_done: bool,
    /// smallest owed event number
    ev_pending: Option<u64>,
    add_time: u64,
    /// `now` of the last report that succeeded (the priming counts, stamped with the `add` time)
    last_success: Option<u64>,
    /// the last report attempt failed
    failing: bool,
    /// a removal matched it while its report was in flight
    cancelled: bool,
    /// it sat in the table during the removal pass of a reporter iteration
    seen_by_remove: bool,
    reports_in_drain: u32,
}

impl MSub {
    fn max_us(&self) -> u64 {
        self.max as u64 * SEC
    }
    fn min_us(&self) -> u64 {
        self.min as u64 * SEC
    }
    fn owes(&self) -> bool {
        self.active && (!self.pending.is_empty() || self.ev_pending.is_some())
    }
}

struct Fail {
    sig: String,
    detail: String,
    inconclusive: bool,
}

impl Fail {
    fn new(sig: impl Into<String>, detail: impl Into<String>) -> Self {
        Self {
            sig: sig.into(),
            detail: detail.into(),
            inconclusive: false,
        }
    }
    fn inconclusive(detail: impl Into<String>) -> Self {
        Self {
            sig: String::new(),
            detail: detail.into(),
            inconclusive: true,
        }
    }
}

#[derive(Clone, Copy)]
struct Iter {
    now: u64,
    wm: u64,
}

struct World<'a, 's> {
    subs: &'s Subscriptions<N_SUBS>,
    bufs: &'s SubscriptionsBuffers<'a, Pool, N_SUBS>,
    pool: &'a Pool,
    /// virtual time, µs
    t: u64,
    /// event-number watermark (`Events::watermark`)
    wm: u64,
    /// the reporter's notification flag
    notified: bool,
    fabrics_gone: [bool; 4],
    primings: Vec<(u32, Rctx<'a, 's>)>,
    inflight: Option<(u32, Rctx<'a, 's>)>,
    /// the reporter is inside an iteration (blocked on the report in flight)
    iter: Option<Iter>,
    model: BTreeMap<u32, MSub>,

    step: usize,
    op_name: &'static str,
    purged: bool,
    change_while_busy: bool,
    /// drain: all round trips succeed and time follows the reporter's timer
    quiet: bool,
    quiet_since: u64,
    known_hits: Vec<(String, String)>,
    labels: BTreeSet<&'static str>,
    nontrivial: bool,
    trace: Vec<String>,
    tracing: bool,
}

impl<'a, 's> World<'a, 's> {
    fn ctx(&self) -> String {
        let mut changes = Vec::new();
        self.subs.verif_for_each_change(|c| {
            changes.push(format!(
                "({},{},{})#{}",
                c.endpoint.map(|v| v.to_string()).unwrap_or("*".into()),
                c.cluster.map(|v| format!("{v:#x}")).unwrap_or("*".into()),
                c.attr.map(|v| v.to_string()).unwrap_or("*".into()),
                c.change_id
            ));
        });
        let mut table = Vec::new();
        self.subs.verif_for_each(self.bufs, |s, _| {
            table.push(format!(
                "sub{}[seen-change-id {}, seen-event {}, fails {}]",
                s.id, s.max_seen_attr_change_id, s.max_seen_event_number, s.fail_count
            ));
        });
        format!(
            "step {} ({}), t={:.3}s; table: {}; priming: {:?}; in flight: {:?}; pending-change table (watermark {}): [{}]; last steps: {}",
            self.step,
            self.op_name,
            (self.t - T0_US) as f64 / 1e6,
            table.join(" "),
            self.primings.iter().map(|(id, _)| *id).collect::<Vec<_>>(),
            self.inflight.as_ref().map(|(id, _)| *id),
            self.subs.verif_change_watermark(),
            changes.join(" "),
            self.trace.iter().rev().take(14).rev().cloned().collect::<Vec<_>>().join(" | "),
        )
    }

    fn note(&self, msg: impl FnOnce() -> String) {
        if self.tracing {
            eprintln!("        -> {}", msg());
        }
    }

    /// A violation that needs no re-synchronisation of the model: when it is a known finding the
    /// history continues behind it.
    fn soft(&mut self, sig: String, detail: String) -> Result<(), Fail> {
        if is_known(&sig) {
            if self.known_hits.len() < 8 {
                self.known_hits.push((sig, detail));
            }
            Ok(())
        } else {
            Err(Fail::new(sig, detail))
        }
    }

    fn table_snapshot(&self) -> BTreeMap<u32, SubSnapshot> {
        let mut table = BTreeMap::new();
        self.subs.verif_for_each(self.bufs, |s, _| {
            table.insert(s.id, s.clone());
        });
        table
    }

    fn change_keys(&self) -> Vec<(Option<u16>, Option<u32>, Option<u32>)> {
        let mut v = Vec::new();
        self.subs
            .verif_for_each_change(|c| v.push((c.endpoint, c.cluster, c.attr)));
        v.sort();
        v
    }

    // ----- application ---------------------------------------------------------------------

    fn record_changed(&mut self, paths: &[Path]) {
        let reporter_busy = self.iter.is_some();
        for m in self.model.values_mut() {
            if !m.active {
                continue;
            }
            let mut hit = false;
            for p in paths {
                if m.paths.binary_search(p).is_ok() {
                    hit = true;
                    m.pending.insert(*p);
                    if m.place == Place::InFlight && m.read_done {
                        m.fresh.insert(*p);
                    }
                }
            }
            if hit {
                match m.place {
                    Place::Priming => {
                        self.labels.insert("change-during-own-priming");
                        self.nontrivial = true;
                    }
                    Place::InFlight => {
                        self.labels.insert("change-during-own-report");
                        self.nontrivial = true;
                    }
                    Place::Table => {
                        if reporter_busy {
                            self.change_while_busy = true;
                        }
                    }
                }
            }
        }
        self.notified = true;
    }

    fn sut_change(&mut self, c: Chg) -> Vec<Path> {
        match c {
            Chg::Attr(i) => {
                let p = path(i as usize);
                self.subs.verif_notify_attr_changed(p.0, p.1, p.2);
                vec![p]
            }
            Chg::Cluster { e, c } => {
                let cl = CLUSTER_BASE + c as u32;
                self.subs.verif_notify_cluster_changed(e as u16, cl);
                (0..N_AT).map(|a| (e as u16, cl, a as u32)).collect()
            }
            Chg::Endpoint { e } => {
                self.subs.verif_notify_endpoint_changed(e as u16);
                (0..N_PATHS).map(path).filter(|p| p.0 == e as u16).collect()
            }
            Chg::All => {
                self.subs.verif_notify_all_changed();
                (0..N_PATHS).map(path).collect()
            }
        }
    }

    fn change(&mut self, cs: &[Chg]) {
        let mut overflow = false;
        let mut all = Vec::new();
        for c in cs {
            let before = self.change_keys();
            let paths = self.sut_change(*c);
            if before.len() == rs_matter::im::subscriptions::MAX_CHANGED_ATTRS {
                let after = self.change_keys();
                if after != before {
                    overflow = true;
                }
            }
            all.extend(paths);
        }
        self.record_changed(&all);
        if overflow {
            self.labels.insert("table-overflow");
            if self.model.values().any(|m| m.active && !m.pending.is_empty()) {
                self.labels.insert("table-overflow-with-owed-changes");
                self.nontrivial = true;
            }
        }
    }

    fn event(&mut self, count: u8) {
        let first = self.wm + 1;
        self.wm += count as u64;
        for m in self.model.values_mut() {
            if m.events && m.active && m.ev_pending.is_none() {
                m.ev_pending = Some(first);
                if m.place != Place::Table {
                    self.labels.insert("event-during-own-flight");
                }
            }
        }
        self.notified = true;
    }

    // ----- subscribe handler -----------------------------------------------------------------

    #[allow(clippy::too_many_arguments)]
    fn subscribe(
        &mut self,
        fab: u8,
        peer: u8,
        keep_subs: bool,
        min: u16,
        max: u16,
        pats: &[Pat],
        events: bool,
    ) -> Result<(), Fail> {
        let fab = fab + 1;
        if self.fabrics_gone[fab as usize] {
            return Ok(());
        }
        let node = 0x1000 + peer as u64;
        if !keep_subs {
            let removed = self.subs.verif_remove(self.bufs, |s| {
                (s.ids().fab_idx.get() == fab && s.ids().peer_node_id == node)
                    .then_some("new subscription request")
            });
            let ids: Vec<u32> = self.model.keys().copied().collect();
            for id in ids {
                let m = self.model.get_mut(&id).unwrap();
                if m.fab == fab && m.peer == peer {
                    match m.place {
                        Place::Table => {
                            self.model.remove(&id);
                        }
                        Place::InFlight => {
                            m.cancelled = true;
                            self.labels.insert("removal-matches-report-in-flight");
                        }
                        // `remove` is documented to see the table and the report in flight only
                        Place::Priming => {}
                    }
                }
            }
            if removed {
                self.notified = true;
            }
        }
        let Some(mut buffer) = self.pool.get_immediate() else {
            return Err(Fail::inconclusive("harness pool exhausted"));
        };
        buffer.clear();
        let _ = buffer.extend_from_slice(&[fab, peer]);
        let Some(rctx) = self.subs.verif_add(
            inst(self.t),
            NonZeroU8::new(fab).unwrap(),
            node,
            min,
            max,
            self.wm,
            buffer,
            self.bufs,
        ) else {
            self.labels.insert("table-full");
            return Ok(());
        };
        let id = rctx.verif_sub().id;
        let mut paths: Vec<Path> = (0..N_PATHS)
            .map(path)
            .filter(|p| pats.iter().any(|pat| pat.matches(*p)))
            .collect();
        paths.sort();
        self.model.insert(
            id,
            MSub {
                fab,
                peer,
                min,
                max,
                paths,
                events,
                place: Place::Priming,
                active: false,
                pending: BTreeSet::new(),
                fresh: BTreeSet::new(),
                read_done: false,
                ev_pending: None,
                add_time: self.t,
                last_success: None,
                failing: false,
                cancelled: false,
                seen_by_remove: false,
                reports_in_drain: 0,
            },
        );
        if self.iter.is_some() {
            self.labels.insert("priming-overlaps-report");
        }
        self.primings.push((id, rctx));
        Ok(())
    }

    fn priming_read(&mut self, k: usize) -> Result<(), Fail> {
        let (id, rctx) = &self.primings[k];
        let m = self.model.get_mut(id).unwrap();
        if m.active {
            return Ok(());
        }
        for p in &m.paths {
            if !rctx.should_report_attr(p.0, p.1, p.2) {
                let d = format!("priming report of sub{id} filters out subscribed path {p:?}");
                return Err(Fail::new("priming:attribute-filtered-out", d));
            }
        }
        if !rctx.should_send_if_empty() {
            return Err(Fail::new(
                "priming:not-sent-if-empty",
                format!("priming report of sub{id} would be skipped when empty"),
            ));
        }
        m.active = true;
        Ok(())
    }

    fn priming_done(&mut self, k: usize, ok: bool) -> Result<(), Fail> {
        if ok {
            self.priming_read(k)?;
        }
        let (id, mut rctx) = self.primings.remove(k);
        if ok {
            // im.rs: send SubscribeResponse; set_keep; drop; persist; notify
            rctx.set_keep();
            drop(rctx);
            self.notified = true;
            let m = self.model.get_mut(&id).unwrap();
            m.place = Place::Table;
            m.last_success = Some(m.add_time);
            m.seen_by_remove = false;
            if self.iter.is_some() {
                self.labels.insert("priming-completes-during-report");
            }
            self.probe_expiry(id)?;
        } else {
            drop(rctx);
            self.model.remove(&id);
        }
        Ok(())
    }

    // ----- reporter --------------------------------------------------------------------------

    fn wake(&mut self) -> Result<(), Fail> {
        if self.iter.is_some() {
            return Ok(());
        }
        self.notified = false;
        let now = self.t;

        let mut predicted: BTreeMap<u32, bool> = BTreeMap::new(); // id -> by expiry
        let mut starved = None;
        for (id, m) in &self.model {
            if m.place != Place::Table {
                continue;
            }
            let expired = m.last_success.map(|l| l + m.max_us() <= now).unwrap_or(false);
            if expired || self.fabrics_gone[m.fab as usize] {
                predicted.insert(*id, expired);
            }
            // only for subscriptions whose last success lies inside the quiet run: since then
            // time has followed the reporter's own deadline and nothing failed
            if expired
                && self.quiet
                && !m.failing
                && m.min < m.max
                && m.last_success.unwrap() >= self.quiet_since
                && starved.is_none()
            {
                starved = Some(format!(
                    "sub{id} (min {} s, max {} s, last successful report at t={:.3}s) reached its maximum interval in a quiet run (every report succeeds, time follows the reporter's own deadline) without getting a liveness report; {}",
                    m.min, m.max, (m.last_success.unwrap() - T0_US) as f64 / 1e6, self.ctx()
                ));
            }
        }
        if let Some(d) = starved {
            self.soft("liveness:no-report-within-max-interval".into(), d)?;
        }

        let gone = self.fabrics_gone;
        let now_i = inst(now);
        let mut removed_any = false;
        loop {
            let removed = self.subs.verif_remove(self.bufs, |s| {
                if s.is_expired(now_i) {
                    return Some("expired");
                }
                if gone[s.ids().fab_idx.get() as usize] {
                    return Some("fabric removed");
                }
                None
            });
            removed_any |= removed;
            if !removed {
                break;
            }
        }
        let present = self.table_snapshot();
        for (id, by_expiry) in &predicted {
            if present.contains_key(id) {
                if *by_expiry {
                    let m = &self.model[id];
                    let d = format!(
                        "sub{id} (max {} s) had its last successful report at t={:.3}s, the reporter's removal pass at t={:.3}s kept it; {}",
                        m.max, (m.last_success.unwrap() - T0_US) as f64 / 1e6, (now - T0_US) as f64 / 1e6, self.ctx()
                    );
                    return Err(Fail::new("expiry:not-removed-after-max-interval", d));
                }
                return Err(Fail::inconclusive(format!(
                    "sub{id} of a removed fabric survived the removal pass; {}",
                    self.ctx()
                )));
            }
            self.labels.insert(if *by_expiry { "expired" } else { "fabric-removed" });
            self.note(|| format!("sub{id} removed ({})", if *by_expiry { "expired" } else { "fabric removed" }));
            self.model.remove(id);
        }
        for (id, m) in &self.model {
            if m.place == Place::Table && !present.contains_key(id) {
                let d = format!(
                    "sub{id} (max {} s, last successful report at {:?}) was removed by the reporter's removal pass at t={:.3}s; {}",
                    m.max, m.last_success.map(|l| (l - T0_US) as f64 / 1e6), (now - T0_US) as f64 / 1e6, self.ctx()
                );
                return Err(Fail::new("expiry:removed-before-max-interval", d));
            }
        }
        if removed_any {
            self.notified = true;
        }
        for m in self.model.values_mut() {
            if m.place == Place::Table {
                m.seen_by_remove = true;
            }
        }
        self.iter = Some(Iter { now, wm: self.wm });
        self.next_report()
    }

    fn next_report(&mut self) -> Result<(), Fail> {
        let it = self.iter.unwrap();
        match self.subs.verif_report(inst(it.now), it.wm, self.bufs) {
            Some(rctx) => {
                let snap = rctx.verif_sub();
                let id = snap.id;
                let lo = rctx.max_seen_event_number();
                self.note(|| format!("report() at t={:.3}s hands out sub{id}", (it.now - T0_US) as f64 / 1e6));
                self.inflight = Some((id, rctx));
                let Some(m) = self.model.get(&id) else {
                    return Err(Fail::inconclusive(format!(
                        "report() handed out sub{id} which the model considers ended; {}",
                        self.ctx()
                    )));
                };
                if m.place != Place::Table {
                    return Err(Fail::inconclusive(format!("sub{id} reported from {:?}", m.place)));
                }
                let (min, max, min_us, max_us, last, seen) =
                    (m.min, m.max, m.min_us(), m.max_us(), m.last_success, m.seen_by_remove);
                if let Some(l) = last {
                    if it.now < l + min_us {
                        let d = format!(
                            "report() at t={:.3}s handed out sub{id} (min interval {min} s) whose last successful report was at t={:.3}s; {}",
                            (it.now - T0_US) as f64 / 1e6, (l - T0_US) as f64 / 1e6, self.ctx()
                        );
                        self.soft("timing:report-before-min-interval".into(), d)?;
                    }
                    if seen && it.now >= l + max_us {
                        let d = format!(
                            "report() at t={:.3}s handed out sub{id} (max interval {max} s) whose last successful report was at t={:.3}s: it should have ended; {}",
                            (it.now - T0_US) as f64 / 1e6, (l - T0_US) as f64 / 1e6, self.ctx()
                        );
                        self.soft("expiry:report-after-max-interval".into(), d)?;
                    }
                }
                let m = self.model.get_mut(&id).unwrap();
                if let Some(n) = m.ev_pending {
                    if lo >= n {
                        let d = format!("report of sub{id} starts after event {lo} but event {n} is still owed");
                        m.ev_pending = None;
                        let d = format!("{d}; {}", self.ctx());
                        self.soft(format!("event-lost:table:{}", self.op_name), d)?;
                    }
                }
                let m = self.model.get_mut(&id).unwrap();
                m.place = Place::InFlight;
                m.read_done = false;
                m.fresh.clear();
                if self.quiet {
                    m.reports_in_drain += 1;
                }
                Ok(())
            }
            None => {
                // im.rs: end of the iteration. Whatever the reports of this iteration lost is
                // attributed to them, what is lost from here on to the purge.
                self.check_discoverable()?;
                self.note(|| "nothing (more) to report: purge_reported_changes()".into());
                self.subs.verif_purge_reported_changes();
                self.purged = true;
                self.iter = None;
                if self.change_while_busy {
                    self.labels.insert("change-during-other-report-then-purge");
                    self.nontrivial = true;
                }
                self.change_while_busy = false;
                if !self.primings.is_empty() {
                    self.labels.insert("purge-while-priming");
                }
                Ok(())
            }
        }
    }

    fn report_read(&mut self) -> Result<(), Fail> {
        let Some((id, rctx)) = &self.inflight else {
            return Ok(());
        };
        let id = *id;
        let m = self.model.get_mut(&id).unwrap();
        if m.read_done {
            return Ok(());
        }
        let mut lost = Vec::new();
        if m.active {
            for p in &m.pending {
                if !rctx.should_report_attr(p.0, p.1, p.2) {
                    lost.push(*p);
                }
            }
        }
        m.read_done = true;
        m.fresh.clear();
        if !lost.is_empty() {
            for p in &lost {
                m.pending.remove(p);
            }
            let d = format!(
                "the report of sub{id} does not contain {} owed change(s), e.g. {:?}; {}",
                lost.len(),
                &lost[..lost.len().min(4)],
                self.ctx()
            );
            self.soft("filter:owed-change-not-in-report".into(), d)?;
        }
        Ok(())
    }

    fn report_end(&mut self, outcome: Outcome) -> Result<(), Fail> {
        if self.inflight.is_none() {
            return Ok(());
        }
        self.report_read()?;
        let (id, mut rctx) = self.inflight.take().unwrap();
        let it = self.iter.unwrap();
        let before = rctx.verif_sub();
        let hi = rctx.next_max_seen_event_number();
        match outcome {
            Outcome::Ok => rctx.set_keep(),
            Outcome::Fail => rctx.set_keep_retry(),
            Outcome::Rejected => {}
        }
        drop(rctx);
        let after = self.table_snapshot().remove(&id);

        let cancelled = self.model[&id].cancelled;
        if cancelled {
            if after.is_none() {
                self.model.remove(&id);
                return self.next_report();
            }
            // the statement does not say what becomes of it: follow the table
            self.labels.insert("cancelled-subscription-survived");
            self.model.get_mut(&id).unwrap().cancelled = false;
        }
        match outcome {
            Outcome::Ok | Outcome::Fail => {
                if after.is_none() {
                    // reported by the membership check of this step
                    self.model.get_mut(&id).unwrap().place = Place::Table;
                    return self.next_report();
                }
                let after = after.unwrap();
                let wm_now = self.wm;
                let m = self.model.get_mut(&id).unwrap();
                m.place = Place::Table;
                if outcome == Outcome::Ok {
                    m.pending = std::mem::take(&mut m.fresh);
                    if let Some(n) = m.ev_pending {
                        if n <= hi {
                            m.ev_pending = (wm_now > hi).then_some(hi + 1);
                        }
                    }
                    m.last_success = Some(it.now);
                    m.failing = false;
                } else {
                    m.fresh.clear();
                    m.failing = true;
                    self.labels.insert("report-failed");
                    if after.max_seen_attr_change_id != before.max_seen_attr_change_id
                        || after.max_seen_event_number != before.max_seen_event_number
                        || after.reported_at != before.reported_at
                    {
                        let d = format!(
                            "failed report of sub{id}: before {before:?}, after {after:?}; {}",
                            self.ctx()
                        );
                        self.soft("retry:failed-report-advanced-watermarks".into(), d)?;
                    }
                }
                self.probe_expiry(id)?;
            }
            Outcome::Rejected => {
                self.labels.insert("report-rejected");
                if after.is_some() {
                    return Err(Fail::inconclusive(format!(
                        "sub{id} survived a rejected report; {}",
                        self.ctx()
                    )));
                }
                self.model.remove(&id);
            }
        }
        self.next_report()
    }

    /// `Subscription::is_expired` must flip exactly at last success + max interval.
    fn probe_expiry(&mut self, id: u32) -> Result<(), Fail> {
        let Some(m) = self.model.get(&id) else {
            return Ok(());
        };
        let Some(l) = m.last_success else {
            return Ok(());
        };
        let at = l + m.max_us();
        let mut res = None;
        self.subs.verif_remove(self.bufs, |s| {
            if s.ids().id == id {
                res = Some((s.is_expired(inst(at - 1)), s.is_expired(inst(at))));
            }
            None
        });
        match res {
            Some((true, _)) => {
                let d = format!(
                    "sub{id} (max {} s, last successful report at t={:.3}s, last attempt failed: {}) is_expired() one microsecond before the maximum interval elapsed; {}",
                    m.max, (l - T0_US) as f64 / 1e6, m.failing, self.ctx()
                );
                self.soft("expiry:expired-before-max-interval".into(), d)
            }
            Some((_, false)) => {
                let d = format!(
                    "sub{id} (max {} s, last successful report at t={:.3}s, last attempt failed: {}) is not is_expired() one maximum interval after its last success; {}",
                    m.max, (l - T0_US) as f64 / 1e6, m.failing, self.ctx()
                );
                self.soft("expiry:not-expired-at-max-interval".into(), d)
            }
            _ => Ok(()),
        }
    }

    // ----- time ------------------------------------------------------------------------------

    fn advance(&mut self, us: u64) -> Result<(), Fail> {
        if self.iter.is_some() {
            // the reporter is blocked on a round trip; only other tasks and time move
            self.t += us;
            return Ok(());
        }
        if self.notified {
            self.wake()?;
            if self.iter.is_some() {
                self.t += us;
                return Ok(());
            }
            if self.notified {
                // removed something: the loop runs once more right away
                self.wake()?;
                if self.iter.is_some() {
                    self.t += us;
                    return Ok(());
                }
            }
        }
        let d = self.subs.verif_next_report_at(self.wm, self.bufs).as_micros();
        let target = self.t + us;
        if d <= target {
            self.t = self.t.max(d);
            self.labels.insert("timer-wake");
            self.wake()
        } else {
            self.t = target;
            Ok(())
        }
    }

    // ----- oracles after every step -----------------------------------------------------------

    fn check_membership(&mut self) -> Result<(), Fail> {
        let present = self.table_snapshot();
        for (id, m) in &self.model {
            if m.place == Place::Table && !present.contains_key(id) {
                let d = format!(
                    "sub{id} (fabric {}, peer {}) is established (primed successfully, not expired, fabric alive, not replaced, not rejected) but is gone from the table; {}",
                    m.fab, m.peer, self.ctx()
                );
                return Err(Fail::new("established-subscription-dropped", d));
            }
        }
        for id in present.keys() {
            match self.model.get(id) {
                Some(m) if m.place == Place::Table => {}
                other => {
                    return Err(Fail::inconclusive(format!(
                        "sub{id} is in the table but the model has {:?}; {}",
                        other.map(|m| m.place),
                        self.ctx()
                    )))
                }
            }
        }
        Ok(())
    }

    fn check_discoverable(&mut self) -> Result<(), Fail> {
        let table = self.table_snapshot();
        let ids: Vec<u32> = self.model.keys().copied().collect();
        for id in ids {
            let m = &self.model[&id];
            if !m.active || (m.pending.is_empty() && m.ev_pending.is_none()) {
                continue;
            }
            let mut lost: Vec<Path> = Vec::new();
            let mut ev_lost: Option<(u64, u64)> = None;
            let watermark;
            match m.place {
                Place::Table => {
                    let Some(s) = table.get(&id) else { continue };
                    watermark = s.max_seen_attr_change_id;
                    for p in &m.pending {
                        if !self.subs.verif_contains_since(p.0, p.1, p.2, watermark) {
                            lost.push(*p);
                        }
                    }
                    if let Some(n) = m.ev_pending {
                        if s.max_seen_event_number >= n {
                            ev_lost = Some((s.max_seen_event_number, n));
                        }
                    }
                }
                Place::Priming => {
                    let Some((_, rctx)) = self.primings.iter().find(|(i, _)| *i == id) else { continue };
                    watermark = rctx.verif_next_max_seen_attr_change_id();
                    for p in &m.pending {
                        if !self.subs.verif_contains_since(p.0, p.1, p.2, watermark) {
                            lost.push(*p);
                        }
                    }
                    if let Some(n) = m.ev_pending {
                        if rctx.next_max_seen_event_number() >= n {
                            ev_lost = Some((rctx.next_max_seen_event_number(), n));
                        }
                    }
                }
                Place::InFlight => {
                    let Some((_, rctx)) = self.inflight.as_ref().filter(|(i, _)| *i == id) else { continue };
                    if !m.read_done {
                        watermark = rctx.verif_sub().max_seen_attr_change_id;
                        for p in &m.pending {
                            if !rctx.should_report_attr(p.0, p.1, p.2) {
                                lost.push(*p);
                            }
                        }
                    } else {
                        // after a success the captured watermark is committed, after a failure
                        // the old one stays: either way the change must be found again
                        watermark = rctx.verif_next_max_seen_attr_change_id();
                        for p in &m.fresh {
                            if !self.subs.verif_contains_since(p.0, p.1, p.2, watermark) {
                                lost.push(*p);
                            }
                        }
                        let old = rctx.verif_sub().max_seen_attr_change_id;
                        for p in &m.pending {
                            if !self.subs.verif_contains_since(p.0, p.1, p.2, old) && !lost.contains(p) {
                                lost.push(*p);
                            }
                        }
                    }
                    if let Some(n) = m.ev_pending {
                        if rctx.max_seen_event_number() >= n {
                            ev_lost = Some((rctx.max_seen_event_number(), n));
                        }
                    }
                }
            }
            let cause = if self.purged { "purge" } else { self.op_name };
            let place = m.place.name();
            if !lost.is_empty() {
                let d = format!(
                    "sub{id} ({place}; watermark it has / will commit: change id {watermark}) is owed {} change(s) made after the data of its priming report was read and not delivered since, but {} of them can no longer be found in the pending-change table, e.g. {:?}; {}",
                    m.pending.len(), lost.len(), &lost[..lost.len().min(4)], self.ctx()
                );
                let m = self.model.get_mut(&id).unwrap();
                for p in &lost {
                    m.pending.remove(p);
                    m.fresh.remove(p);
                }
                self.soft(format!("lost:{place}:{cause}"), d)?;
            }
            if let Some((seen, n)) = ev_lost {
                let d = format!(
                    "sub{id} ({place}) is owed event {n} but its event watermark is / will be {seen}; {}",
                    self.ctx()
                );
                self.model.get_mut(&id).unwrap().ev_pending = None;
                self.soft(format!("event-lost:{place}:{cause}"), d)?;
            }
        }
        Ok(())
    }

    /// While the reporter sleeps its deadline must not lie behind the maximum interval of any
    /// healthy subscription.
    fn check_idle_timer(&mut self) -> Result<(), Fail> {
        if self.iter.is_some() {
            return Ok(());
        }
        let d = self.subs.verif_next_report_at(self.wm, self.bufs).as_micros();
        let mut bad = None;
        for (id, m) in &self.model {
            if m.place != Place::Table || m.failing {
                continue;
            }
            let Some(l) = m.last_success else { continue };
            let deadline = l + m.max_us();
            let ok = if m.min < m.max { d < deadline } else { d <= deadline };
            if !ok {
                bad = Some((*id, l, m.min, m.max));
                break;
            }
        }
        if let Some((id, l, min, max)) = bad {
            let det = format!(
                "the reporter would sleep until t={:.3}s, but sub{id} (min {min} s, max {max} s; last successful report at t={:.3}s) needs a liveness report before t={:.3}s; {}",
                (d.saturating_sub(T0_US)) as f64 / 1e6, (l - T0_US) as f64 / 1e6, (l + max as u64 * SEC - T0_US) as f64 / 1e6, self.ctx()
            );
            self.soft("timing:deadline-after-max-interval".into(), det)?;
        }
        Ok(())
    }

    fn after_step(&mut self) -> Result<(), Fail> {
        self.check_membership()?;
        self.check_discoverable()?;
        self.check_idle_timer()
    }

    // ----- interpreter -----------------------------------------------------------------------

    fn apply(&mut self, op: &Op) -> Result<(), Fail> {
        match op {
            Op::Subscribe {
                fab,
                peer,
                keep_subs,
                min,
                max,
                pats,
                events,
            } => self.subscribe(*fab, *peer, *keep_subs, *min, *max, pats, *events),
            Op::PrimingRead { sel } => {
                if self.primings.is_empty() {
                    return Ok(());
                }
                let k = pick(*sel, self.primings.len());
                self.priming_read(k)
            }
            Op::PrimingDone { sel, ok } => {
                if self.primings.is_empty() {
                    return Ok(());
                }
                let k = pick(*sel, self.primings.len());
                self.priming_done(k, *ok)
            }
            Op::Change(c) => {
                self.change(&[*c]);
                Ok(())
            }
            Op::Burst { start, stride, count } => {
                let cs: Vec<Chg> = (0..*count as usize)
                    .map(|i| Chg::Attr(((*start as usize + i * *stride as usize) % N_PATHS) as u8))
                    .collect();
                self.change(&cs);
                Ok(())
            }
            Op::Event { count } => {
                self.event(*count);
                Ok(())
            }
            Op::Wake => self.wake(),
            Op::ReportRead => self.report_read(),
            Op::ReportEnd(o) => {
                if *o == Outcome::Rejected && self.inflight.is_none() {
                    return Ok(());
                }
                self.report_end(*o)
            }
            Op::RemoveFabric { fab } => {
                self.fabrics_gone[*fab as usize + 1] = true;
                self.notified = true;
                Ok(())
            }
            Op::Advance { ms } => self.advance(*ms as u64 * 1000),
        }
    }

    fn step(&mut self, name: &'static str, descr: impl FnOnce() -> String) {
        self.step += 1;
        self.op_name = name;
        self.purged = false;
        let d = descr();
        if self.tracing {
            eprintln!("  [{}] t={:.3}s {}", self.step, (self.t - T0_US) as f64 / 1e6, d);
        }
        self.trace.push(d);
        if self.trace.len() > 64 {
            self.trace.drain(..32);
        }
    }

    fn wake_all_ok(&mut self) -> Result<(), Fail> {
        self.step("wake", || "drain: wake, every report succeeds".into());
        self.wake()?;
        self.after_step()?;
        let mut guard = 0;
        while self.inflight.is_some() {
            self.step("report-ok", || "drain: report-ok".into());
            self.report_end(Outcome::Ok)?;
            self.after_step()?;
            guard += 1;
            if guard > 64 {
                return Err(Fail::inconclusive("drain: the report loop does not end"));
            }
        }
        Ok(())
    }

    /// End of the history: everything in progress completes successfully, nothing is changed any
    /// more, the reporter runs on its own timer. Every owed change must reach a report.
    fn drain(&mut self) -> Result<(), Fail> {
        while !self.primings.is_empty() {
            self.step("priming-done", || "drain: priming-done".into());
            self.priming_done(0, true)?;
            self.after_step()?;
        }
        let mut guard = 0;
        while self.inflight.is_some() {
            self.step("report-ok", || "drain: report-ok".into());
            self.report_end(Outcome::Ok)?;
            self.after_step()?;
            guard += 1;
            if guard > 64 {
                return Err(Fail::inconclusive("drain: the report loop does not end"));
            }
        }
        self.quiet = true;
        self.quiet_since = self.t;
        for m in self.model.values_mut() {
            m.reports_in_drain = 0;
        }
        // Phase 1: owed changes; phase 2: one further (liveness) report for everybody.
        let mut rounds = 0;
        let mut liveness_rounds = 0;
        loop {
            if self.notified {
                self.wake_all_ok()?;
                continue_guard(&mut rounds)?;
                continue;
            }
            let owing = self.model.values().any(|m| m.owes());
            let all_reported = self.model.values().all(|m| m.reports_in_drain > 1);
            if !owing && (all_reported || liveness_rounds >= 48) {
                return Ok(());
            }
            let d = self.subs.verif_next_report_at(self.wm, self.bufs);
            if d == Instant::MAX {
                if owing {
                    let (id, m) = self.model.iter().find(|(_, m)| m.owes()).unwrap();
                    let det = format!(
                        "sub{id} is owed {} change(s) (e.g. {:?}) / event {:?}, nothing is in progress, but the reporter has no deadline: it sleeps until somebody notifies it; {}",
                        m.pending.len(), m.pending.iter().next(), m.ev_pending, self.ctx()
                    );
                    return Err(Fail::new("eventually:reporter-never-wakes", det));
                }
                if self.model.is_empty() {
                    return Ok(());
                }
                let det = format!("subscriptions exist but the reporter has no deadline; {}", self.ctx());
                return Err(Fail::new("liveness:reporter-never-wakes", det));
            }
            let d = d.as_micros();
            if d <= self.t {
                // already due: the loop iterates again at once; a little time passes anyway
                self.t += SEC / 4;
            } else {
                self.t = d;
            }
            if !owing {
                liveness_rounds += 1;
            }
            self.wake_all_ok()?;
            rounds += 1;
            if rounds > 600 {
                if let Some((id, m)) = self.model.iter().find(|(_, m)| m.owes()) {
                    let det = format!(
                        "after {rounds} further reporter iterations on its own timer (no changes, every report succeeds) sub{id} is still owed {} change(s) (e.g. {:?}) / event {:?}; {}",
                        m.pending.len(), m.pending.iter().next(), m.ev_pending, self.ctx()
                    );
                    return Err(Fail::new("eventually:change-never-reported", det));
                }
                return Ok(());
            }
        }
    }
}

fn continue_guard(rounds: &mut u32) -> Result<(), Fail> {
    *rounds += 1;
    if *rounds > 600 {
        return Err(Fail::inconclusive("drain: notifications never cease"));
    }
    Ok(())
}

fn interpret(h: &History) -> Case {
    let tracing = std::env::var("C13_TRACE").is_ok();
    let pool = Pool::new();
    let bufs: SubscriptionsBuffers<Pool, N_SUBS> = SubscriptionsBuffers::new();
    let subs: Subscriptions<N_SUBS> = Subscriptions::new();
    // im.rs: `InteractionModel::new*` clears the table before anything runs
    subs.verif_clear();

    let mut w = World {
        subs: &subs,
        bufs: &bufs,
        pool: &pool,
        t: T0_US,
        wm: 0,
        notified: false,
        fabrics_gone: [false; 4],
        primings: Vec::new(),
        inflight: None,
        iter: None,
        model: BTreeMap::new(),
        step: 0,
        op_name: "",
        purged: false,
        change_while_busy: false,
        quiet: false,
        quiet_since: 0,
        known_hits: Vec::new(),
        labels: BTreeSet::new(),
        nontrivial: false,
        trace: Vec::new(),
        tracing,
    };

    let mut res = Ok(());
    for op in &h.ops {
        w.step(op.name(), || match op {
            Op::Subscribe { fab, peer, keep_subs, min, max, .. } => {
                format!("subscribe(fab {}, peer {peer}, keep_subs {keep_subs}, {min}..{max} s)", fab + 1)
            }
            other => format!("{other:?}"),
        });
        res = w.apply(op).and_then(|_| w.after_step());
        if res.is_err() {
            break;
        }
    }
    if res.is_ok() {
        res = w.drain();
    }
    let labels: Vec<&'static str> = w.labels.iter().copied().collect();
    match res {
        Err(f) if f.inconclusive => Case::inconclusive(f.detail),
        Err(f) => Case::fail(f.sig, f.detail),
        Ok(()) => {
            if let Some((sig, detail)) = w.known_hits.first() {
                Case::fail(sig.clone(), detail.clone())
            } else {
                Case::pass(w.nontrivial).labels(labels)
            }
        }
    }
}

fn main() {
    let mut run = Run::new(
        "C13",
        "exploration",
        "L1 (table level): histories of 8-90 operations over the crate-private subscription table, interpreted exactly in the call order of im.rs (subscribe handler: [remove same peer] add .. set_keep|drop; sequential reporter: wake, remove expired/fabric-less, report..set_keep|set_keep_retry|drop until none is reportable, purge; application: attribute/cluster/endpoint/global change notifications over 108 paths on 18 endpoints incl. bursts of up to 23 distinct paths, events; virtual time that never passes an armed reporter deadline), followed by a quiet drain. Up to 4 subscriptions (min 0-300 s, max 40-65535 s, 1-3 path patterns with wildcards) from 3 fabrics x 2 peers. Non-trivial: a subscribed change lands while that subscription is out of the table (priming after its data was read, or report in flight), or while another subscription's report is in flight and a purge follows, or the 16-entry change table overflows while some subscription is still owed a change; distinct = distinct serialized history",
    );
    run.assume("the hooks (pub mod verif in im/subscriptions.rs) are thin wrappers / read-only snapshots of the crate-private table API");
    run.assume("the harness issues the table calls in the order im.rs does: purge only at the end of a reporter iteration (never while a report is in flight), one report in flight at most, any number of primings in progress; `now` and the event watermark are sampled once per reporter iteration");
    run.assume("a report counts as sent at the `now` handed to report()/add(); a report that im.rs skips because it turned out empty counts as a report (message-level timing is level L2, bin c13b)");
    run.assume("obligations start when the data of the priming report was read (one instant per priming); changes between add() and that instant may or may not be reported again");
    run.assume("a subscription whose removal was requested while its report was in flight may end or survive (statement silent)");
    load_known();

    //                 sub pr  pd  chg bur ev  wake rr  re  rf  adv
    let mixed: Weights = [4, 2, 4, 10, 1, 2, 5, 2, 6, 1, 6];
    let overflow: Weights = [3, 2, 3, 6, 6, 1, 2, 1, 3, 1, 3];
    let timing: Weights = [3, 1, 4, 5, 1, 2, 4, 1, 8, 1, 12];

    let n = run.cases(100_000, 3_000_000);
    run.prop("history", n, || history(mixed, 8..90), interpret);
    let n = run.cases(40_000, 1_000_000);
    run.prop("history-overflow", n, || history(overflow, 8..70), interpret);
    let n = run.cases(40_000, 1_000_000);
    run.prop("history-timing", n, || history(timing, 8..90), interpret);

    run.finish();
}
