//! C16 — The TLV codec round-trips every value and rejects every malformed input safely.
//!
//! Oracles (all written from the property statement, the Matter TLV appendix and the rustdoc
//! of the public `rs_matter::tlv` API — never from the implementation):
//!
//! * a *reference encoder* (`ref_encode`) for generated TLV trees: the bytes produced by every
//!   writer API of rs-matter (`TLVWrite`, `TLV::bytes_iter`, `ToTLV` of primitives) must equal
//!   it; the tree decoded with `TLVElement` must equal the generated tree; every typed accessor
//!   must agree with the tree; re-encoding each decoded element (`TLVElement::to_tlv`,
//!   `TLVElement::tlv_iter`, `TLV::bytes_iter`) must reproduce exactly the element's bytes;
//! * value -> bytes -> value -> bytes round trips (plus `to_tlv` vs `tlv_iter` differential)
//!   for the public wire structures with generated field values;
//! * for hostile bytes (truncations, boundary length fields up to 2^64-1, retyped control
//!   bytes, random/dictionary bytes): every public accessor / iterator / `Display` / `FromTLV`
//!   returns without panic, iteration is bounded by the input length, every returned slice
//!   lies inside the input, typed getters agree with `value()`, successful re-encoding
//!   reproduces the input prefix and decoded structures re-encode idempotently.

use std::collections::{HashMap, HashSet};
use std::fmt::Write as _;
use std::num::NonZeroU8;
use std::sync::{Mutex, OnceLock};
use std::time::{Duration, Instant};

use proptest::prelude::*;
use serde::{Deserialize, Serialize};

use rs_matter::error::Error;
use rs_matter::tlv::{
    FromTLV, Nullable, Octets, TLVArray, TLVContainer, TLVElement, TLVSequence, TLVTag, TLVValue,
    TLVValueType, TLVWrite, ToTLV, TLV,
};
use rs_matter::utils::storage::WriteBuf;

use vh::run::guarded;
use vh::util::{hex, pick, within};
use vh::{Case, Run, Verdict};

// ---------------------------------------------------------------------------------------------
// Model of a TLV tree
// ---------------------------------------------------------------------------------------------

#[derive(Debug, Clone, PartialEq, Eq, Serialize, Deserialize)]
enum MTag {
    Anon,
    Ctx(u8),
    Com16(u16),
    Com32(u32),
    Imp16(u16),
    Imp32(u32),
    Fq48 { v: u16, p: u16, t: u16 },
    Fq64 { v: u16, p: u16, t: u32 },
}

/// String payloads: literal, or a compact description of a long generated fill.
#[derive(Debug, Clone, PartialEq, Eq, Serialize, Deserialize)]
enum Payload {
    Lit(Vec<u8>),
    /// `len` bytes `base, base+7, base+14, ...`
    Fill { len: u32, base: u8 },
}

#[derive(Debug, Clone, PartialEq, Eq, Serialize, Deserialize)]
enum Text {
    Lit(String),
    /// `len` ASCII letters starting at `'a' + base % 26`
    Fill { len: u32, base: u8 },
}

#[derive(Debug, Clone, PartialEq, Eq, Serialize, Deserialize)]
enum MVal {
    /// signed integer stored in `width` bytes (1/2/4/8); the value fits the width
    I(u8, i64),
    /// unsigned integer stored in `width` bytes
    U(u8, u64),
    Bool(bool),
    /// bit pattern
    F32(u32),
    F64(u64),
    /// UTF-8 string with a length field of `width` bytes (1/2/4/8)
    Utf8(u8, Text),
    /// octet string with a length field of `width` bytes
    Bytes(u8, Payload),
    Null,
    Struct(Vec<MNode>),
    Array(Vec<MNode>),
    List(Vec<MNode>),
}

#[derive(Debug, Clone, PartialEq, Eq, Serialize, Deserialize)]
struct MNode {
    tag: MTag,
    val: MVal,
    /// which writer API of rs-matter is used for this node (see `sut_write`)
    via: u8,
}

impl MNode {
    fn children(&self) -> Option<&Vec<MNode>> {
        match &self.val {
            MVal::Struct(c) | MVal::Array(c) | MVal::List(c) => Some(c),
            _ => None,
        }
    }

    fn depth(&self) -> usize {
        1 + self
            .children()
            .map(|c| c.iter().map(|n| n.depth()).max().unwrap_or(0))
            .unwrap_or(0)
    }

    /// widest string length field in the tree (0 when there is no string)
    fn max_len_width(&self) -> u8 {
        match &self.val {
            MVal::Utf8(w, _) | MVal::Bytes(w, _) => *w,
            MVal::Struct(c) | MVal::Array(c) | MVal::List(c) => {
                c.iter().map(|n| n.max_len_width()).max().unwrap_or(0)
            }
            _ => 0,
        }
    }
}

fn payload_len(p: &Payload) -> usize {
    match p {
        Payload::Lit(v) => v.len(),
        Payload::Fill { len, .. } => *len as usize,
    }
}

fn text_len(t: &Text) -> usize {
    match t {
        Text::Lit(s) => s.len(),
        Text::Fill { len, .. } => *len as usize,
    }
}

fn payload_bytes(p: &Payload) -> Vec<u8> {
    match p {
        Payload::Lit(v) => v.clone(),
        Payload::Fill { len, base } => (0..*len)
            .map(|i| base.wrapping_add((i as u8).wrapping_mul(7)))
            .collect(),
    }
}

fn text_string(t: &Text) -> String {
    match t {
        Text::Lit(s) => s.clone(),
        Text::Fill { len, base } => (0..*len)
            .map(|i| (b'a' + ((*base as u32 + i) % 26) as u8) as char)
            .collect(),
    }
}

/// Replace every `Fill` by its literal bytes (so that borrowed `TLVValue`s can point into the
/// tree) — the serialized case keeps the compact form.
fn materialise(n: &MNode) -> MNode {
    let val = match &n.val {
        MVal::Utf8(w, t) => MVal::Utf8(*w, Text::Lit(text_string(t))),
        MVal::Bytes(w, p) => MVal::Bytes(*w, Payload::Lit(payload_bytes(p))),
        MVal::Struct(c) => MVal::Struct(c.iter().map(materialise).collect()),
        MVal::Array(c) => MVal::Array(c.iter().map(materialise).collect()),
        MVal::List(c) => MVal::List(c.iter().map(materialise).collect()),
        other => other.clone(),
    };
    MNode {
        tag: n.tag.clone(),
        val,
        via: n.via,
    }
}

fn lit_bytes(p: &Payload) -> &[u8] {
    match p {
        Payload::Lit(v) => v,
        Payload::Fill { .. } => &[],
    }
}

fn lit_str(t: &Text) -> &str {
    match t {
        Text::Lit(s) => s,
        Text::Fill { .. } => "",
    }
}

fn min_int_width(v: i64) -> u8 {
    if v >= i8::MIN as i64 && v <= i8::MAX as i64 {
        1
    } else if v >= i16::MIN as i64 && v <= i16::MAX as i64 {
        2
    } else if v >= i32::MIN as i64 && v <= i32::MAX as i64 {
        4
    } else {
        8
    }
}

fn min_uint_width(v: u64) -> u8 {
    if v <= u8::MAX as u64 {
        1
    } else if v <= u16::MAX as u64 {
        2
    } else if v <= u32::MAX as u64 {
        4
    } else {
        8
    }
}

fn min_len_width(len: usize) -> u8 {
    min_uint_width(len as u64)
}

/// The writer API actually used for a node (resolves `via` against what is applicable).
#[derive(Debug, Clone, Copy, PartialEq, Eq)]
enum Via {
    /// `TLVWrite::tlv(tag, &TLVValue)` — exact element type
    Exact,
    /// typed `TLVWrite` method (`i16`, `u64`, `str`, `utf8`, `start_struct`, ...): documented
    /// to pick the smallest element type that holds the value
    Typed,
    /// `ToTLV::to_tlv` of the Rust primitive / `&str` / `Octets` (minimal as well);
    /// containers: `start_container`
    ToTlv,
    /// `WriteBuf::str_cb` / `utf8_cb` (strings up to 65535 bytes)
    Callback,
    /// `TLVWrite::stri` / `utf8i`
    IterLen,
}

fn via_of(n: &MNode) -> Via {
    let is_str = matches!(n.val, MVal::Utf8(..) | MVal::Bytes(..));
    let len = match &n.val {
        MVal::Utf8(_, t) => text_len(t),
        MVal::Bytes(_, p) => payload_len(p),
        _ => 0,
    };
    match n.via % 5 {
        0 => Via::Exact,
        1 => Via::Typed,
        2 => Via::ToTlv,
        3 if is_str && len <= u16::MAX as usize => Via::Callback,
        3 => Via::Exact,
        _ if is_str => Via::IterLen,
        _ => Via::Typed,
    }
}

/// The tree the reader must see: integer and length-field widths are minimal for every node
/// that is written through a "smallest type" API; `via` is cleared.
fn normalise(n: &MNode) -> MNode {
    let minimal = via_of(n) != Via::Exact;
    let val = match &n.val {
        MVal::I(w, v) => MVal::I(if minimal { min_int_width(*v) } else { *w }, *v),
        MVal::U(w, v) => MVal::U(if minimal { min_uint_width(*v) } else { *w }, *v),
        MVal::Utf8(w, t) => MVal::Utf8(
            if minimal {
                min_len_width(text_len(t))
            } else {
                *w
            },
            t.clone(),
        ),
        MVal::Bytes(w, p) => MVal::Bytes(
            if minimal {
                min_len_width(payload_len(p))
            } else {
                *w
            },
            p.clone(),
        ),
        MVal::Struct(c) => MVal::Struct(c.iter().map(normalise).collect()),
        MVal::Array(c) => MVal::Array(c.iter().map(normalise).collect()),
        MVal::List(c) => MVal::List(c.iter().map(normalise).collect()),
        other => other.clone(),
    };
    MNode {
        tag: n.tag.clone(),
        val,
        via: 0,
    }
}

// ---------------------------------------------------------------------------------------------
// Reference encoder and scanner (Matter Core specification, Appendix A "Tag-length-value
// (TLV) Encoding Format")
// ---------------------------------------------------------------------------------------------

#[derive(Debug, Clone, Default)]
struct Span {
    /// offset of the control byte
    start: usize,
    /// one past the last byte of the element (containers: including the end-of-container byte)
    end: usize,
    /// offset of the length field (strings), else == val_start
    len_off: usize,
    /// width of the length field (0 for non-strings)
    len_w: usize,
    /// offset of the value (strings: the payload; containers: the first member)
    val_start: usize,
    container: bool,
}

fn width_code(w: u8) -> u8 {
    match w {
        1 => 0,
        2 => 1,
        4 => 2,
        _ => 3,
    }
}

fn tag_control(t: &MTag) -> u8 {
    match t {
        MTag::Anon => 0x00,
        MTag::Ctx(_) => 0x20,
        MTag::Com16(_) => 0x40,
        MTag::Com32(_) => 0x60,
        MTag::Imp16(_) => 0x80,
        MTag::Imp32(_) => 0xa0,
        MTag::Fq48 { .. } => 0xc0,
        MTag::Fq64 { .. } => 0xe0,
    }
}

fn put_tag(t: &MTag, out: &mut Vec<u8>) {
    match t {
        MTag::Anon => {}
        MTag::Ctx(v) => out.push(*v),
        MTag::Com16(v) | MTag::Imp16(v) => out.extend_from_slice(&v.to_le_bytes()),
        MTag::Com32(v) | MTag::Imp32(v) => out.extend_from_slice(&v.to_le_bytes()),
        MTag::Fq48 { v, p, t } => {
            out.extend_from_slice(&v.to_le_bytes());
            out.extend_from_slice(&p.to_le_bytes());
            out.extend_from_slice(&t.to_le_bytes());
        }
        MTag::Fq64 { v, p, t } => {
            out.extend_from_slice(&v.to_le_bytes());
            out.extend_from_slice(&p.to_le_bytes());
            out.extend_from_slice(&t.to_le_bytes());
        }
    }
}

fn type_code(v: &MVal) -> u8 {
    match v {
        MVal::I(w, _) => width_code(*w),
        MVal::U(w, _) => 0x04 + width_code(*w),
        MVal::Bool(false) => 0x08,
        MVal::Bool(true) => 0x09,
        MVal::F32(_) => 0x0a,
        MVal::F64(_) => 0x0b,
        MVal::Utf8(w, _) => 0x0c + width_code(*w),
        MVal::Bytes(w, _) => 0x10 + width_code(*w),
        MVal::Null => 0x14,
        MVal::Struct(_) => 0x15,
        MVal::Array(_) => 0x16,
        MVal::List(_) => 0x17,
    }
}

/// Encode a (materialised, normalised) tree; `spans` receives one entry per node in pre-order.
fn ref_encode(n: &MNode, out: &mut Vec<u8>, spans: &mut Vec<Span>) {
    let idx = spans.len();
    spans.push(Span::default());
    let start = out.len();
    out.push(tag_control(&n.tag) | type_code(&n.val));
    put_tag(&n.tag, out);
    let len_off = out.len();
    let mut len_w = 0usize;
    let mut container = false;
    let val_start;
    match &n.val {
        MVal::I(w, v) => {
            val_start = out.len();
            out.extend_from_slice(&v.to_le_bytes()[..*w as usize]);
        }
        MVal::U(w, v) => {
            val_start = out.len();
            out.extend_from_slice(&v.to_le_bytes()[..*w as usize]);
        }
        MVal::Bool(_) | MVal::Null => val_start = out.len(),
        MVal::F32(b) => {
            val_start = out.len();
            out.extend_from_slice(&b.to_le_bytes());
        }
        MVal::F64(b) => {
            val_start = out.len();
            out.extend_from_slice(&b.to_le_bytes());
        }
        MVal::Utf8(w, t) => {
            len_w = *w as usize;
            let s = lit_str(t);
            out.extend_from_slice(&(s.len() as u64).to_le_bytes()[..len_w]);
            val_start = out.len();
            out.extend_from_slice(s.as_bytes());
        }
        MVal::Bytes(w, p) => {
            len_w = *w as usize;
            let b = lit_bytes(p);
            out.extend_from_slice(&(b.len() as u64).to_le_bytes()[..len_w]);
            val_start = out.len();
            out.extend_from_slice(b);
        }
        MVal::Struct(c) | MVal::Array(c) | MVal::List(c) => {
            container = true;
            val_start = out.len();
            for m in c {
                ref_encode(m, out, spans);
            }
            out.push(0x18);
        }
    }
    spans[idx] = Span {
        start,
        end: out.len(),
        len_off,
        len_w,
        val_start,
        container,
    };
}

fn tag_size(ctl: u8) -> usize {
    match ctl >> 5 {
        0 => 0,
        1 => 1,
        2 | 4 => 2,
        3 | 5 => 4,
        6 => 6,
        _ => 8,
    }
}

/// Scan a byte string as far as it is well-formed TLV and return the spans of all elements in
/// pre-order (used to aim mutations at control bytes and length fields).
fn scan_elements(data: &[u8]) -> Vec<Span> {
    fn one(data: &[u8], pos: usize, spans: &mut Vec<Span>, depth: usize) -> Option<usize> {
        let ctl = *data.get(pos)?;
        let ty = ctl & 0x1f;
        if ty > 0x17 || depth > 512 {
            return None;
        }
        let len_off = pos + 1 + tag_size(ctl);
        if len_off > data.len() {
            return None;
        }
        let idx = spans.len();
        spans.push(Span::default());
        let (len_w, fixed) = match ty {
            0x00 | 0x04 => (0, 1),
            0x01 | 0x05 => (0, 2),
            0x02 | 0x06 | 0x0a => (0, 4),
            0x03 | 0x07 | 0x0b => (0, 8),
            0x0c..=0x13 => (1usize << ((ty - 0x0c) & 3), 0),
            _ => (0, 0),
        };
        let val_start = len_off + len_w;
        if val_start > data.len() {
            spans.pop();
            return None;
        }
        let mut end;
        let container = (0x15..=0x17).contains(&ty);
        if len_w > 0 {
            let mut b = [0u8; 8];
            b[..len_w].copy_from_slice(&data[len_off..val_start]);
            let l = u64::from_le_bytes(b);
            end = (val_start as u64).checked_add(l)?;
            if end > data.len() as u64 {
                spans.pop();
                return None;
            }
        } else if container {
            let mut p = val_start;
            loop {
                match data.get(p) {
                    Some(0x18) => {
                        p += 1;
                        break;
                    }
                    Some(_) => match one(data, p, spans, depth + 1) {
                        Some(np) => p = np,
                        None => {
                            spans.truncate(idx);
                            return None;
                        }
                    },
                    None => {
                        spans.truncate(idx);
                        return None;
                    }
                }
            }
            end = p as u64;
        } else {
            end = (val_start + fixed) as u64;
            if end > data.len() as u64 {
                spans.pop();
                return None;
            }
        }
        end = end.min(data.len() as u64);
        spans[idx] = Span {
            start: pos,
            end: end as usize,
            len_off,
            len_w,
            val_start,
            container,
        };
        Some(end as usize)
    }
    let mut spans = Vec::new();
    let _ = one(data, 0, &mut spans, 0);
    spans
}

// ---------------------------------------------------------------------------------------------
// Strategies for trees
// ---------------------------------------------------------------------------------------------

fn tag_strategy() -> impl Strategy<Value = MTag> {
    prop_oneof![
        4 => Just(MTag::Anon),
        6 => prop_oneof![Just(0u8), Just(1), Just(2), Just(0x7f), Just(0x80), Just(0xfe), Just(0xff), any::<u8>()]
            .prop_map(MTag::Ctx),
        1 => edge_u16().prop_map(MTag::Com16),
        1 => edge_u32().prop_map(MTag::Com32),
        1 => edge_u16().prop_map(MTag::Imp16),
        1 => edge_u32().prop_map(MTag::Imp32),
        1 => (edge_u16(), edge_u16(), edge_u16()).prop_map(|(v, p, t)| MTag::Fq48 { v, p, t }),
        1 => (edge_u16(), edge_u16(), edge_u32()).prop_map(|(v, p, t)| MTag::Fq64 { v, p, t }),
    ]
}

fn edge_u16() -> impl Strategy<Value = u16> {
    prop_oneof![
        2 => prop::sample::select(vec![0u16, 1, 0xff, 0x100, 0x7fff, 0x8000, 0xfffe, 0xffff]),
        1 => any::<u16>(),
    ]
}

fn edge_u32() -> impl Strategy<Value = u32> {
    prop_oneof![
        2 => prop::sample::select(vec![0u32, 1, 0xff, 0x100, 0xffff, 0x1_0000, 0x7fff_ffff, 0x8000_0000, 0xffff_fffe, 0xffff_ffff]),
        1 => any::<u32>(),
    ]
}

fn edge_u64() -> impl Strategy<Value = u64> {
    prop_oneof![
        2 => prop::sample::select(vec![
            0u64, 1, 0xff, 0x100, 0xffff, 0x1_0000, 0xffff_ffff, 0x1_0000_0000,
            i64::MAX as u64, 1u64 << 63, u64::MAX - 1, u64::MAX,
        ]),
        1 => any::<u64>(),
        1 => any::<u32>().prop_map(|v| v as u64),
    ]
}

/// signed value that fits `width` bytes, weighted to the extremes of every width up to it
fn signed_in(width: u8) -> BoxedStrategy<i64> {
    let (lo, hi) = match width {
        1 => (i8::MIN as i64, i8::MAX as i64),
        2 => (i16::MIN as i64, i16::MAX as i64),
        4 => (i32::MIN as i64, i32::MAX as i64),
        _ => (i64::MIN, i64::MAX),
    };
    let mut edges = vec![0i64, 1, -1, lo, hi, lo.saturating_add(1), hi.saturating_sub(1)];
    for (l, h) in [
        (i8::MIN as i64, i8::MAX as i64),
        (i16::MIN as i64, i16::MAX as i64),
        (i32::MIN as i64, i32::MAX as i64),
    ] {
        for v in [l, l - 1, l + 1, h, h + 1, h - 1] {
            if v >= lo && v <= hi {
                edges.push(v);
            }
        }
    }
    prop_oneof![
        3 => prop::sample::select(edges),
        1 => lo..=hi,
    ]
    .boxed()
}

fn unsigned_in(width: u8) -> BoxedStrategy<u64> {
    let hi = match width {
        1 => u8::MAX as u64,
        2 => u16::MAX as u64,
        4 => u32::MAX as u64,
        _ => u64::MAX,
    };
    let mut edges = vec![0u64, 1, hi, hi - 1];
    for h in [u8::MAX as u64, u16::MAX as u64, u32::MAX as u64] {
        for v in [h - 1, h, h + 1] {
            if v <= hi {
                edges.push(v);
            }
        }
    }
    prop_oneof![
        3 => prop::sample::select(edges),
        1 => 0..=hi,
    ]
    .boxed()
}

fn width_strategy() -> impl Strategy<Value = u8> {
    prop::sample::select(vec![1u8, 2, 4, 8])
}

fn char_strategy() -> impl Strategy<Value = char> {
    prop_oneof![
        6 => (0x20u8..0x7f).prop_map(|b| b as char),
        2 => prop::sample::select(vec![
            '\0', '\u{7f}', '\u{80}', '\u{7ff}', '\u{800}', '\u{ffff}', '\u{10000}', '\u{10ffff}',
            '"', '\\', '\n', '{', '}',
        ]),
        2 => any::<char>(),
    ]
}

/// strings whose byte length is <= `max`
fn small_text(max: usize) -> impl Strategy<Value = Text> {
    prop::collection::vec(char_strategy(), 0..=(max / 4).max(1).min(24)).prop_map(move |cs| {
        let mut s = String::new();
        for c in cs {
            if s.len() + c.len_utf8() <= max {
                s.push(c);
            }
        }
        Text::Lit(s)
    })
}

fn small_payload() -> impl Strategy<Value = Payload> {
    prop::collection::vec(any::<u8>(), 0..24).prop_map(Payload::Lit)
}

fn f32_bits() -> impl Strategy<Value = u32> {
    prop_oneof![
        2 => prop::sample::select(vec![
            0u32, 0x8000_0000, 0x7f80_0000, 0xff80_0000, 0x7fc0_0000, 0x7fa0_0000, 0xffff_ffff,
            0x0000_0001, 0x3f80_0000, 0x7f7f_ffff,
        ]),
        1 => any::<u32>(),
    ]
}

fn f64_bits() -> impl Strategy<Value = u64> {
    prop_oneof![
        2 => prop::sample::select(vec![
            0u64, 1u64 << 63, 0x7ff0_0000_0000_0000, 0xfff0_0000_0000_0000, 0x7ff8_0000_0000_0000,
            0x7ff4_0000_0000_0000, u64::MAX, 1, 0x3ff0_0000_0000_0000,
        ]),
        1 => any::<u64>(),
    ]
}

/// Leaf values. `big`: 0 = only small strings, 1 = strings of 256..700 bytes possible,
/// 2 = strings above 65535 bytes possible.
fn leaf_val(big: u8) -> BoxedStrategy<MVal> {
    let ints = prop_oneof![
        width_strategy().prop_flat_map(|w| signed_in(w).prop_map(move |v| MVal::I(w, v))),
        width_strategy().prop_flat_map(|w| unsigned_in(w).prop_map(move |v| MVal::U(w, v))),
    ];
    let small_str = prop_oneof![
        (width_strategy(), small_text(60)).prop_map(|(w, t)| MVal::Utf8(w, t)),
        (width_strategy(), small_payload()).prop_map(|(w, p)| MVal::Bytes(w, p)),
        // exactly at the one-byte limit
        (width_strategy(), prop::sample::select(vec![254u32, 255]), any::<u8>())
            .prop_map(|(w, len, base)| MVal::Bytes(w, Payload::Fill { len, base })),
    ];
    let mid_str = prop_oneof![
        (prop::sample::select(vec![2u8, 4, 8]), 256u32..700, any::<u8>())
            .prop_map(|(w, len, base)| MVal::Utf8(w, Text::Fill { len, base })),
        (prop::sample::select(vec![2u8, 4, 8]), 256u32..700, any::<u8>())
            .prop_map(|(w, len, base)| MVal::Bytes(w, Payload::Fill { len, base })),
    ];
    let huge_str = prop_oneof![
        (prop::sample::select(vec![4u8, 8]), prop::sample::select(vec![65_536u32, 65_537, 70_001]), any::<u8>())
            .prop_map(|(w, len, base)| MVal::Utf8(w, Text::Fill { len, base })),
        (prop::sample::select(vec![4u8, 8]), prop::sample::select(vec![65_536u32, 65_537, 70_001]), any::<u8>())
            .prop_map(|(w, len, base)| MVal::Bytes(w, Payload::Fill { len, base })),
        // just below the two-byte limit
        (prop::sample::select(vec![2u8, 4, 8]), prop::sample::select(vec![65_534u32, 65_535]), any::<u8>())
            .prop_map(|(w, len, base)| MVal::Bytes(w, Payload::Fill { len, base })),
    ];
    let scalars = prop_oneof![
        any::<bool>().prop_map(MVal::Bool),
        f32_bits().prop_map(MVal::F32),
        f64_bits().prop_map(MVal::F64),
        Just(MVal::Null),
    ];
    match big {
        0 => prop_oneof![5 => ints, 5 => small_str, 3 => scalars].boxed(),
        1 => prop_oneof![4 => ints, 4 => small_str, 3 => mid_str, 3 => scalars].boxed(),
        _ => prop_oneof![2 => ints, 2 => small_str, 1 => mid_str, 4 => huge_str, 2 => scalars].boxed(),
    }
}

fn node_from(tag: MTag, val: MVal, via: u8) -> MNode {
    MNode { tag, val, via }
}

fn tree_strategy(big: u8, depth: u32, size: u32) -> BoxedStrategy<MNode> {
    let leaf = (tag_strategy(), leaf_val(big), 0u8..5).prop_map(|(t, v, via)| node_from(t, v, via));
    leaf.prop_recursive(depth, size, 5, |inner| {
        (
            tag_strategy(),
            0u8..3,
            prop::collection::vec(inner, 0..6),
            0u8..5,
        )
            .prop_map(|(t, kind, c, via)| {
                let val = match kind {
                    0 => MVal::Struct(c),
                    1 => MVal::Array(c),
                    _ => MVal::List(c),
                };
                node_from(t, val, via)
            })
    })
    .boxed()
}

/// A chain of `depth` nested containers with a few siblings on the way down.
fn chain_strategy() -> BoxedStrategy<MNode> {
    (
        1usize..=64,
        prop::collection::vec((tag_strategy(), 0u8..3, 0u8..5, prop::option::of(leaf_val(0))), 64),
        (tag_strategy(), leaf_val(1), 0u8..5),
    )
        .prop_map(|(depth, levels, (lt, lv, lvia))| {
            let mut cur = node_from(lt, lv, lvia);
            for (t, kind, via, sib) in levels.into_iter().take(depth) {
                let mut c = vec![cur];
                if let Some(s) = sib {
                    c.push(node_from(MTag::Ctx(via), s, via));
                }
                let val = match kind {
                    0 => MVal::Struct(c),
                    1 => MVal::Array(c),
                    _ => MVal::List(c),
                };
                cur = node_from(t, val, via);
            }
            cur
        })
        .boxed()
}

/// Make the tags follow the Matter rules (array members anonymous, structure members tagged).
fn conform_tags(n: &mut MNode) {
    match &mut n.val {
        MVal::Struct(c) => {
            for (i, m) in c.iter_mut().enumerate() {
                if m.tag == MTag::Anon {
                    m.tag = MTag::Ctx(i as u8);
                }
                conform_tags(m);
            }
        }
        MVal::Array(c) => {
            for m in c.iter_mut() {
                m.tag = MTag::Anon;
                conform_tags(m);
            }
        }
        MVal::List(c) => {
            for m in c.iter_mut() {
                conform_tags(m);
            }
        }
        _ => {}
    }
}

#[derive(Debug, Clone, Serialize, Deserialize)]
struct TreeCase {
    root: MNode,
}

fn tree_case() -> impl Strategy<Value = TreeCase> {
    (
        prop_oneof![
            60 => tree_strategy(0, 6, 48),
            25 => tree_strategy(1, 4, 24),
            3 => tree_strategy(2, 2, 6),
            12 => chain_strategy(),
        ],
        // 85% of the trees follow the tagging rules of the specification, the rest is free-form
        0u8..100,
    )
        .prop_map(|(mut root, conform)| {
            if conform < 85 {
                conform_tags(&mut root);
            }
            TreeCase { root }
        })
}

// ---------------------------------------------------------------------------------------------
// Driving the writers of rs-matter
// ---------------------------------------------------------------------------------------------

fn sut_tag(t: &MTag) -> TLVTag {
    match t {
        MTag::Anon => TLVTag::Anonymous,
        MTag::Ctx(v) => TLVTag::Context(*v),
        MTag::Com16(v) => TLVTag::CommonPrf16(*v),
        MTag::Com32(v) => TLVTag::CommonPrf32(*v),
        MTag::Imp16(v) => TLVTag::ImplPrf16(*v),
        MTag::Imp32(v) => TLVTag::ImplPrf32(*v),
        MTag::Fq48 { v, p, t } => TLVTag::FullQual48 {
            vendor_id: *v,
            profile: *p,
            tag: *t,
        },
        MTag::Fq64 { v, p, t } => TLVTag::FullQual64 {
            vendor_id: *v,
            profile: *p,
            tag: *t,
        },
    }
}

fn model_tag(t: &TLVTag) -> MTag {
    match t {
        TLVTag::Anonymous => MTag::Anon,
        TLVTag::Context(v) => MTag::Ctx(*v),
        TLVTag::CommonPrf16(v) => MTag::Com16(*v),
        TLVTag::CommonPrf32(v) => MTag::Com32(*v),
        TLVTag::ImplPrf16(v) => MTag::Imp16(*v),
        TLVTag::ImplPrf32(v) => MTag::Imp32(*v),
        TLVTag::FullQual48 {
            vendor_id,
            profile,
            tag,
        } => MTag::Fq48 {
            v: *vendor_id,
            p: *profile,
            t: *tag,
        },
        TLVTag::FullQual64 {
            vendor_id,
            profile,
            tag,
        } => MTag::Fq64 {
            v: *vendor_id,
            p: *profile,
            t: *tag,
        },
    }
}

/// The exact `TLVValue` of a (materialised) leaf or container start.
fn sut_value(v: &MVal) -> TLVValue<'_> {
    match v {
        MVal::I(1, x) => TLVValue::S8(*x as i8),
        MVal::I(2, x) => TLVValue::S16(*x as i16),
        MVal::I(4, x) => TLVValue::S32(*x as i32),
        MVal::I(_, x) => TLVValue::S64(*x),
        MVal::U(1, x) => TLVValue::U8(*x as u8),
        MVal::U(2, x) => TLVValue::U16(*x as u16),
        MVal::U(4, x) => TLVValue::U32(*x as u32),
        MVal::U(_, x) => TLVValue::U64(*x),
        MVal::Bool(false) => TLVValue::False,
        MVal::Bool(true) => TLVValue::True,
        MVal::F32(b) => TLVValue::F32(f32::from_bits(*b)),
        MVal::F64(b) => TLVValue::F64(f64::from_bits(*b)),
        MVal::Utf8(1, t) => TLVValue::Utf8l(lit_str(t)),
        MVal::Utf8(2, t) => TLVValue::Utf16l(lit_str(t)),
        MVal::Utf8(4, t) => TLVValue::Utf32l(lit_str(t)),
        MVal::Utf8(_, t) => TLVValue::Utf64l(lit_str(t)),
        MVal::Bytes(1, p) => TLVValue::Str8l(lit_bytes(p)),
        MVal::Bytes(2, p) => TLVValue::Str16l(lit_bytes(p)),
        MVal::Bytes(4, p) => TLVValue::Str32l(lit_bytes(p)),
        MVal::Bytes(_, p) => TLVValue::Str64l(lit_bytes(p)),
        MVal::Null => TLVValue::Null,
        MVal::Struct(_) => TLVValue::Struct,
        MVal::Array(_) => TLVValue::Array,
        MVal::List(_) => TLVValue::List,
    }
}

fn copy_cb<'b>(src: &'b [u8]) -> impl FnOnce(&mut [u8]) -> Result<usize, Error> + 'b {
    move |buf: &mut [u8]| {
        if buf.len() < src.len() {
            Err(rs_matter::error::ErrorCode::NoSpace.into())
        } else {
            buf[..src.len()].copy_from_slice(src);
            Ok(src.len())
        }
    }
}

/// Write a (materialised) tree with the `TLVWrite` API of rs-matter into a `WriteBuf`.
fn sut_write(n: &MNode, tw: &mut WriteBuf<'_>) -> Result<(), Error> {
    let tag = sut_tag(&n.tag);
    let via = via_of(n);
    match &n.val {
        MVal::Struct(c) | MVal::Array(c) | MVal::List(c) => {
            match via {
                Via::Exact | Via::Callback => tw.tlv(&tag, &sut_value(&n.val))?,
                Via::ToTlv => {
                    let ty = match &n.val {
                        MVal::Struct(_) => TLVValueType::Struct,
                        MVal::Array(_) => TLVValueType::Array,
                        _ => TLVValueType::List,
                    };
                    tw.start_container(&tag, ty)?
                }
                _ => match &n.val {
                    MVal::Struct(_) => tw.start_struct(&tag)?,
                    MVal::Array(_) => tw.start_array(&tag)?,
                    _ => tw.start_list(&tag)?,
                },
            }
            for m in c {
                sut_write(m, tw)?;
            }
            if via == Via::Exact {
                tw.tlv(&TLVTag::Anonymous, &TLVValue::EndCnt)
            } else {
                tw.end_container()
            }
        }
        _ if via == Via::Exact => tw.tlv(&tag, &sut_value(&n.val)),
        MVal::I(w, v) => match (via, w) {
            (Via::ToTlv, 1) => (*v as i8).to_tlv(&tag, &mut *tw),
            (Via::ToTlv, 2) => (*v as i16).to_tlv(&tag, &mut *tw),
            (Via::ToTlv, 4) => (*v as i32).to_tlv(&tag, &mut *tw),
            (Via::ToTlv, _) => v.to_tlv(&tag, &mut *tw),
            (_, 1) => tw.i8(&tag, *v as i8),
            (_, 2) => tw.i16(&tag, *v as i16),
            (_, 4) => tw.i32(&tag, *v as i32),
            _ => tw.i64(&tag, *v),
        },
        MVal::U(w, v) => match (via, w) {
            (Via::ToTlv, 1) => (*v as u8).to_tlv(&tag, &mut *tw),
            (Via::ToTlv, 2) => (*v as u16).to_tlv(&tag, &mut *tw),
            (Via::ToTlv, 4) => (*v as u32).to_tlv(&tag, &mut *tw),
            (Via::ToTlv, _) => v.to_tlv(&tag, &mut *tw),
            (_, 1) => tw.u8(&tag, *v as u8),
            (_, 2) => tw.u16(&tag, *v as u16),
            (_, 4) => tw.u32(&tag, *v as u32),
            _ => tw.u64(&tag, *v),
        },
        MVal::Bool(b) => {
            if via == Via::ToTlv {
                b.to_tlv(&tag, &mut *tw)
            } else {
                tw.bool(&tag, *b)
            }
        }
        MVal::F32(b) => {
            if via == Via::ToTlv {
                f32::from_bits(*b).to_tlv(&tag, &mut *tw)
            } else {
                tw.f32(&tag, f32::from_bits(*b))
            }
        }
        MVal::F64(b) => {
            if via == Via::ToTlv {
                f64::from_bits(*b).to_tlv(&tag, &mut *tw)
            } else {
                tw.f64(&tag, f64::from_bits(*b))
            }
        }
        MVal::Null => {
            if via == Via::ToTlv {
                Nullable::<u8>::none().to_tlv(&tag, &mut *tw)
            } else {
                tw.null(&tag)
            }
        }
        MVal::Utf8(_, t) => {
            let s = lit_str(t);
            match via {
                Via::ToTlv => s.to_tlv(&tag, &mut *tw),
                Via::Callback => tw.utf8_cb(&tag, copy_cb(s.as_bytes())),
                Via::IterLen => tw.utf8i(&tag, s.len(), s.as_bytes().iter().copied()),
                _ => tw.utf8(&tag, s),
            }
        }
        MVal::Bytes(_, p) => {
            let b = lit_bytes(p);
            match via {
                Via::ToTlv => Octets::new(b).to_tlv(&tag, &mut *tw),
                Via::Callback => tw.str_cb(&tag, copy_cb(b)),
                Via::IterLen => tw.stri(&tag, b.len(), b.iter().copied()),
                _ => tw.str(&tag, b),
            }
        }
    }
}

/// The same tree as a flat list of `TLV`s, built with the `TLV` constructors (`Exact` nodes
/// with `TLV::new`, the others with the smallest-type constructors `TLV::i16`, `TLV::str`...).
fn sut_tlvs<'a>(n: &'a MNode, out: &mut Vec<TLV<'a>>) {
    let tag = sut_tag(&n.tag);
    let exact = via_of(n) == Via::Exact;
    match &n.val {
        MVal::Struct(c) | MVal::Array(c) | MVal::List(c) => {
            out.push(if exact {
                TLV::new(tag, sut_value(&n.val))
            } else {
                match &n.val {
                    MVal::Struct(_) => TLV::structure(tag),
                    MVal::Array(_) => TLV::array(tag),
                    _ => TLV::list(tag),
                }
            });
            for m in c {
                sut_tlvs(m, out);
            }
            out.push(TLV::end_container());
        }
        _ if exact => out.push(TLV::new(tag, sut_value(&n.val))),
        MVal::I(1, v) => out.push(TLV::i8(tag, *v as i8)),
        MVal::I(2, v) => out.push(TLV::i16(tag, *v as i16)),
        MVal::I(4, v) => out.push(TLV::i32(tag, *v as i32)),
        MVal::I(_, v) => out.push(TLV::i64(tag, *v)),
        MVal::U(1, v) => out.push(TLV::u8(tag, *v as u8)),
        MVal::U(2, v) => out.push(TLV::u16(tag, *v as u16)),
        MVal::U(4, v) => out.push(TLV::u32(tag, *v as u32)),
        MVal::U(_, v) => out.push(TLV::u64(tag, *v)),
        MVal::Bool(b) => out.push(TLV::bool(tag, *b)),
        MVal::F32(b) => out.push(TLV::f32(tag, f32::from_bits(*b))),
        MVal::F64(b) => out.push(TLV::f64(tag, f64::from_bits(*b))),
        MVal::Null => out.push(TLV::null(tag)),
        MVal::Utf8(_, t) => out.push(TLV::utf8(tag, lit_str(t))),
        MVal::Bytes(_, p) => out.push(TLV::str(tag, lit_bytes(p))),
    }
}

/// A `TLVWrite` implementation of the harness (`write` and the two position methods; every
/// encoding method is the default implementation of rs-matter).
struct VecWriter(Vec<u8>);

impl TLVWrite for VecWriter {
    type Position = usize;

    fn write(&mut self, byte: u8) -> Result<(), Error> {
        self.0.push(byte);
        Ok(())
    }

    // used by the derived encoders to undo a partially written structure
    fn get_tail(&self) -> Self::Position {
        self.0.len()
    }

    fn rewind_to(&mut self, pos: Self::Position) {
        self.0.truncate(pos);
    }
}

fn to_tlv_vec<T: ToTLV>(v: &T, tag: &TLVTag) -> Result<Vec<u8>, Error> {
    let mut w = VecWriter(Vec::new());
    v.to_tlv(tag, &mut w)?;
    Ok(w.0)
}

fn tlv_iter_vec<T: ToTLV>(v: &T, tag: TLVTag) -> Result<Vec<u8>, Error> {
    let mut out = Vec::new();
    for b in v.tlv_iter(tag).flat_map(TLV::result_into_bytes_iter) {
        out.push(b?);
    }
    Ok(out)
}

// ---------------------------------------------------------------------------------------------
// Reading back with TLVElement
// ---------------------------------------------------------------------------------------------

fn model_value(v: &TLVValue<'_>) -> Option<MVal> {
    Some(match v {
        TLVValue::S8(x) => MVal::I(1, *x as i64),
        TLVValue::S16(x) => MVal::I(2, *x as i64),
        TLVValue::S32(x) => MVal::I(4, *x as i64),
        TLVValue::S64(x) => MVal::I(8, *x),
        TLVValue::U8(x) => MVal::U(1, *x as u64),
        TLVValue::U16(x) => MVal::U(2, *x as u64),
        TLVValue::U32(x) => MVal::U(4, *x as u64),
        TLVValue::U64(x) => MVal::U(8, *x),
        TLVValue::False => MVal::Bool(false),
        TLVValue::True => MVal::Bool(true),
        TLVValue::F32(x) => MVal::F32(x.to_bits()),
        TLVValue::F64(x) => MVal::F64(x.to_bits()),
        TLVValue::Utf8l(s) => MVal::Utf8(1, Text::Lit(s.to_string())),
        TLVValue::Utf16l(s) => MVal::Utf8(2, Text::Lit(s.to_string())),
        TLVValue::Utf32l(s) => MVal::Utf8(4, Text::Lit(s.to_string())),
        TLVValue::Utf64l(s) => MVal::Utf8(8, Text::Lit(s.to_string())),
        TLVValue::Str8l(b) => MVal::Bytes(1, Payload::Lit(b.to_vec())),
        TLVValue::Str16l(b) => MVal::Bytes(2, Payload::Lit(b.to_vec())),
        TLVValue::Str32l(b) => MVal::Bytes(4, Payload::Lit(b.to_vec())),
        TLVValue::Str64l(b) => MVal::Bytes(8, Payload::Lit(b.to_vec())),
        TLVValue::Null => MVal::Null,
        TLVValue::Struct => MVal::Struct(Vec::new()),
        TLVValue::Array => MVal::Array(Vec::new()),
        TLVValue::List => MVal::List(Vec::new()),
        TLVValue::EndCnt => return None,
    })
}

/// Decode an element into the model with the public reader API (`tag`, `value`,
/// `container().iter()`).
fn decode(e: &TLVElement<'_>) -> Result<MNode, String> {
    let tag = e.tag().map_err(|err| format!("tag(): {err:?}"))?;
    let value = e.value().map_err(|err| format!("value(): {err:?}"))?;
    let mut val = model_value(&value).ok_or_else(|| "value() is EndCnt".to_string())?;
    if let MVal::Struct(c) | MVal::Array(c) | MVal::List(c) = &mut val {
        let seq = e.container().map_err(|err| format!("container(): {err:?}"))?;
        for m in seq.iter() {
            let m = m.map_err(|err| format!("iter(): {err:?}"))?;
            c.push(decode(&m)?);
        }
    }
    Ok(MNode {
        tag: model_tag(&tag),
        val,
        via: 0,
    })
}

// ---------------------------------------------------------------------------------------------
// Small helpers
// ---------------------------------------------------------------------------------------------

/// A `fmt::Write` sink that only counts, and refuses (`fmt::Error`) once more than `limit`
/// bytes were written: formatting `n` input bytes legitimately produces O(n * depth) output, so
/// an output beyond the limit means the formatter does not terminate.
struct Sink {
    n: usize,
    limit: usize,
    overflow: bool,
}

impl Sink {
    fn for_input(len: usize) -> Self {
        Sink {
            n: 0,
            limit: (1 << 16) + len.saturating_mul(len.max(64)).saturating_mul(4),
            overflow: false,
        }
    }

    fn check(&self, what: &str) -> Result<(), String> {
        if self.overflow {
            Err(format!(
                "unbounded-output:{what}: formatting produced more than {} bytes and was cut off",
                self.limit
            ))
        } else {
            Ok(())
        }
    }
}

impl std::fmt::Write for Sink {
    fn write_str(&mut self, s: &str) -> std::fmt::Result {
        self.n += s.len();
        if self.n > self.limit {
            self.overflow = true;
            return Err(std::fmt::Error);
        }
        Ok(())
    }
}

fn short_hex(b: &[u8]) -> String {
    if b.len() <= 96 {
        hex(b)
    } else {
        format!("{}..({} bytes)..{}", hex(&b[..48]), b.len(), hex(&b[b.len() - 16..]))
    }
}

fn short_dbg<T: std::fmt::Debug>(v: &T) -> String {
    let mut s = format!("{v:?}");
    if s.len() > 600 {
        let mut cut = 600;
        while !s.is_char_boundary(cut) {
            cut -= 1;
        }
        s.truncate(cut);
        s.push_str("...");
    }
    s
}

fn first_diff(a: &[u8], b: &[u8]) -> usize {
    a.iter()
        .zip(b.iter())
        .position(|(x, y)| x != y)
        .unwrap_or(a.len().min(b.len()))
}

static KNOWN: OnceLock<HashSet<String>> = OnceLock::new();

fn is_known(sig: &str) -> bool {
    KNOWN.get().map(|k| k.contains(sig)).unwrap_or(false)
}

fn load_known() {
    #[derive(Deserialize)]
    struct K {
        property: String,
        signature: String,
        #[serde(default)]
        status: String,
    }
    let set = std::fs::read_to_string(format!("{}/known_findings.json", vh::run::verif_dir()))
        .ok()
        .and_then(|s| serde_json::from_str::<Vec<K>>(&s).ok())
        .unwrap_or_default()
        .into_iter()
        .filter(|k| k.property == "C16" && k.status == "open")
        .map(|k| k.signature)
        .collect();
    let _ = KNOWN.set(set);
}

/// Run independent parts of an oracle, each under its own panic guard, so that a (known)
/// failure of one part does not hide the others. Returns the first failure that is not a
/// known finding, else the first known one, else the merged pass.
fn multi(parts: Vec<(&'static str, Box<dyn FnOnce() -> Case + '_>)>) -> Case {
    let mut labels = Vec::new();
    let mut nontrivial = false;
    let mut known_fail: Option<Case> = None;
    let mut inconclusive: Option<Case> = None;
    for (name, part) in parts {
        let mut c = guarded(part);
        match &mut c.verdict {
            Verdict::Pass => {
                nontrivial |= c.nontrivial;
                labels.extend(c.labels);
            }
            Verdict::Fail { signature, detail } => {
                *detail = format!("[{name}] {detail}");
                if is_known(signature) {
                    known_fail.get_or_insert(c);
                } else {
                    return c;
                }
            }
            Verdict::Inconclusive(_) => {
                inconclusive.get_or_insert(c);
            }
        }
    }
    if let Some(c) = known_fail {
        return c;
    }
    if let Some(c) = inconclusive {
        return c;
    }
    Case::pass(nontrivial).labels(labels)
}

/// `"sig: detail"` -> `Case::fail(sig, detail)`
fn fail_from(msg: String) -> Case {
    match msg.split_once(": ") {
        Some((sig, detail)) => Case::fail(sig.to_string(), detail.to_string()),
        None => Case::fail(msg.clone(), msg),
    }
}

// ---------------------------------------------------------------------------------------------
// Sub-checks on generated trees
// ---------------------------------------------------------------------------------------------

struct Prepared {
    /// materialised tree as generated (drives the writers)
    xs: MNode,
    /// what the reader must see
    exp: MNode,
    /// reference encoding of `exp`
    bytes: Vec<u8>,
    /// spans of the nodes of `exp` in pre-order
    spans: Vec<Span>,
}

fn prepare(root: &MNode) -> Prepared {
    let xs = materialise(root);
    let exp = normalise(&xs);
    let mut bytes = Vec::new();
    let mut spans = Vec::new();
    ref_encode(&exp, &mut bytes, &mut spans);
    Prepared {
        xs,
        exp,
        bytes,
        spans,
    }
}

fn vt_name(v: &MVal) -> &'static str {
    match v {
        MVal::I(1, _) => "S8",
        MVal::I(2, _) => "S16",
        MVal::I(4, _) => "S32",
        MVal::I(..) => "S64",
        MVal::U(1, _) => "U8",
        MVal::U(2, _) => "U16",
        MVal::U(4, _) => "U32",
        MVal::U(..) => "U64",
        MVal::Bool(_) => "Bool",
        MVal::F32(_) => "F32",
        MVal::F64(_) => "F64",
        MVal::Utf8(1, _) => "Utf8l",
        MVal::Utf8(2, _) => "Utf16l",
        MVal::Utf8(4, _) => "Utf32l",
        MVal::Utf8(..) => "Utf64l",
        MVal::Bytes(1, _) => "Str8l",
        MVal::Bytes(2, _) => "Str16l",
        MVal::Bytes(4, _) => "Str32l",
        MVal::Bytes(..) => "Str64l",
        MVal::Null => "Null",
        MVal::Struct(_) => "Struct",
        MVal::Array(_) => "Array",
        MVal::List(_) => "List",
    }
}

fn tree_labels(p: &Prepared) -> Vec<String> {
    let d = p.exp.depth();
    let mut l = vec![
        format!(
            "depth:{}",
            match d {
                1 => "1",
                2..=3 => "2-3",
                4..=8 => "4-8",
                9..=32 => "9-32",
                _ => "33+",
            }
        ),
        format!("len-width:{}", p.exp.max_len_width()),
    ];
    if p.bytes.len() > 65_535 {
        l.push("encoding>64K".into());
    } else if p.bytes.len() > 255 {
        l.push("encoding>255".into());
    }
    l
}

fn tree_nontrivial(p: &Prepared) -> bool {
    p.exp.depth() >= 2 && p.exp.max_len_width() > 1
}

/// All elements of the encoding in pre-order, obtained with the public iteration API.
fn collect_elements<'a>(e: TLVElement<'a>, out: &mut Vec<TLVElement<'a>>) -> Result<(), String> {
    out.push(e.clone());
    if e.is_container().map_err(|err| format!("is_container(): {err:?}"))? {
        let seq = e.container().map_err(|err| format!("container(): {err:?}"))?;
        for m in seq.iter() {
            collect_elements(m.map_err(|err| format!("iter(): {err:?}"))?, out)?;
        }
    }
    Ok(())
}

fn starts_at(bytes: &[u8], off: usize, s: &[u8]) -> bool {
    off <= bytes.len() && s.as_ptr() as usize == bytes.as_ptr() as usize + off
}

fn want_int<T: Into<i128> + Copy>(
    name: &str,
    got: Result<T, Error>,
    want: Option<i128>,
) -> Result<(), String> {
    match (got, want) {
        (Ok(g), Some(w)) if g.into() == w => Ok(()),
        (Err(_), None) => Ok(()),
        (Ok(g), w) => Err(format!(
            "accessor:{name}: returned Ok({}) but the element holds {w:?} (None = not readable as this type)",
            g.into()
        )),
        (Err(e), Some(w)) => Err(format!("accessor:{name}: returned {e:?}, expected Ok({w})")),
    }
}

fn want_ok<T>(name: &str, got: &Result<T, Error>, ok: bool) -> Result<(), String> {
    if got.is_ok() == ok {
        Ok(())
    } else {
        Err(format!(
            "accessor:{name}: returned {} but {} was expected for this element",
            if got.is_ok() { "Ok" } else { "Err" },
            if ok { "Ok" } else { "Err" }
        ))
    }
}

fn check_accessors_of(
    e: &TLVElement<'_>,
    n: &MNode,
    sp: &Span,
    bytes: &[u8],
) -> Result<(), String> {
    let loc = |what: &str| format!("{what} (element {} at offset {})", vt_name(&n.val), sp.start);
    if e.is_empty() || e.non_empty().is_none() {
        return Err(format!("accessor:is_empty: {}", loc("non-empty element reported empty")));
    }
    if !starts_at(bytes, sp.start, e.raw_data()) || !within(bytes, e.raw_data()) {
        return Err(format!("accessor:raw_data: {}", loc("does not start at the element")));
    }
    match e.control() {
        Ok(c) if c.as_raw() == bytes[sp.start] => {}
        other => {
            return Err(format!(
                "accessor:control: {} got {:?}",
                loc("control byte differs"),
                other.map(|c| c.as_raw())
            ))
        }
    }
    // raw_value: exactly the value bytes; for containers the statement does not say whether
    // the end-of-container byte belongs to the value: both are accepted
    match e.raw_value() {
        Ok(v) => {
            let exact = &bytes[sp.val_start..sp.end];
            let ok = starts_at(bytes, sp.val_start, v)
                && (v.len() == exact.len() || (sp.container && v.len() + 1 == exact.len()));
            if !ok || !within(bytes, v) {
                return Err(format!(
                    "accessor:raw_value: {} got {} bytes at +{}, expected {} bytes at {}",
                    loc("wrong value slice"),
                    v.len(),
                    (v.as_ptr() as usize).wrapping_sub(bytes.as_ptr() as usize),
                    exact.len(),
                    sp.val_start
                ));
            }
        }
        Err(err) => return Err(format!("accessor:raw_value: {} {err:?}", loc("failed"))),
    }
    match e.tlv() {
        Ok(t) => {
            let same = model_tag(&t.tag) == n.tag
                && model_value(&t.value)
                    .map(|v| match (&v, &n.val) {
                        (MVal::Struct(_), MVal::Struct(_))
                        | (MVal::Array(_), MVal::Array(_))
                        | (MVal::List(_), MVal::List(_)) => true,
                        (a, b) => a == b,
                    })
                    .unwrap_or(false);
            if !same {
                return Err(format!("accessor:tlv: {} got {}", loc("differs"), short_dbg(&t)));
            }
        }
        Err(err) => return Err(format!("accessor:tlv: {} {err:?}", loc("failed"))),
    }

    let (si, ui) = match &n.val {
        MVal::I(w, v) => (Some((*w, *v as i128)), None),
        MVal::U(w, v) => (None, Some((*w, *v as i128))),
        _ => (None, None),
    };
    let s = |max: u8| si.and_then(|(w, v)| (w <= max).then_some(v));
    let u = |max: u8| ui.and_then(|(w, v)| (w <= max).then_some(v));
    want_int("i8", e.i8(), s(1))?;
    want_int("i16", e.i16(), s(2))?;
    want_int("i32", e.i32(), s(4))?;
    want_int("i64", e.i64(), s(8))?;
    want_int("u8", e.u8(), u(1))?;
    want_int("u16", e.u16(), u(2))?;
    want_int("u32", e.u32(), u(4))?;
    want_int("u64", e.u64().map(|v| v as i128), u(8))?;

    match (e.f32(), &n.val) {
        (Ok(f), MVal::F32(b)) if f.to_bits() == *b => {}
        (Err(_), v) if !matches!(v, MVal::F32(_)) => {}
        (got, _) => return Err(format!("accessor:f32: {} got {got:?}", loc("wrong result"))),
    }
    match (e.f64(), &n.val) {
        (Ok(f), MVal::F64(b)) if f.to_bits() == *b => {}
        (Err(_), v) if !matches!(v, MVal::F64(_)) => {}
        (got, _) => return Err(format!("accessor:f64: {} got {got:?}", loc("wrong result"))),
    }
    match (e.bool(), &n.val) {
        (Ok(g), MVal::Bool(b)) if g == *b => {}
        (Err(_), v) if !matches!(v, MVal::Bool(_)) => {}
        (got, _) => return Err(format!("accessor:bool: {} got {got:?}", loc("wrong result"))),
    }
    want_ok("null", &e.null(), matches!(n.val, MVal::Null))?;
    match (e.str(), &n.val) {
        (Ok(g), MVal::Bytes(_, p)) if g == lit_bytes(p) && within(bytes, g) => {}
        (Err(_), v) if !matches!(v, MVal::Bytes(..)) => {}
        (got, _) => {
            return Err(format!(
                "accessor:str: {} got {:?}",
                loc("wrong result"),
                got.map(short_hex)
            ))
        }
    }
    match (e.utf8(), &n.val) {
        (Ok(g), MVal::Utf8(_, t)) if g == lit_str(t) && within(bytes, g.as_bytes()) => {}
        (Err(_), v) if !matches!(v, MVal::Utf8(..)) => {}
        (got, _) => {
            return Err(format!(
                "accessor:utf8: {} got {:?}",
                loc("wrong result"),
                got.map(|s| s.len())
            ))
        }
    }
    match (e.octets(), &n.val) {
        (Ok(g), MVal::Bytes(_, p)) if g == lit_bytes(p) => {}
        (Ok(g), MVal::Utf8(_, t)) if g == lit_str(t).as_bytes() => {}
        (Err(_), v) if !matches!(v, MVal::Bytes(..) | MVal::Utf8(..)) => {}
        (got, _) => {
            return Err(format!(
                "accessor:octets: {} got {:?}",
                loc("wrong result"),
                got.map(short_hex)
            ))
        }
    }
    let is_c = n.children().is_some();
    match e.is_container() {
        Ok(b) if b == is_c => {}
        got => return Err(format!("accessor:is_container: {} got {got:?}", loc("wrong result"))),
    }
    want_ok("structure", &e.structure(), matches!(n.val, MVal::Struct(_)))?;
    want_ok("struct", &e.r#struct(), matches!(n.val, MVal::Struct(_)))?;
    want_ok("array", &e.array(), matches!(n.val, MVal::Array(_)))?;
    want_ok("list", &e.list(), matches!(n.val, MVal::List(_)))?;
    want_ok("container", &e.container(), is_c)?;
    want_ok("confirm_anon", &e.confirm_anon(), n.tag == MTag::Anon)?;
    let ctx = match n.tag {
        MTag::Ctx(c) => Some(c),
        _ => None,
    };
    match e.try_ctx() {
        Ok(g) if g == ctx => {}
        got => return Err(format!("accessor:try_ctx: {} got {got:?}", loc("wrong result"))),
    }
    match (e.ctx(), ctx) {
        (Ok(g), Some(c)) if g == c => {}
        (Err(_), None) => {}
        (got, _) => return Err(format!("accessor:ctx: {} got {got:?}", loc("wrong result"))),
    }
    Ok(())
}

/// `find_ctx`/`ctx` on the members of a container.
fn check_find_ctx(
    e: &TLVElement<'_>,
    members: &[MNode],
    member_spans: &[usize],
    spans: &[Span],
    bytes: &[u8],
) -> Result<(), String> {
    let seq = match e.container() {
        Ok(s) => s,
        Err(err) => return Err(format!("accessor:container: failed on a container: {err:?}")),
    };
    let mut probes: Vec<u8> = members
        .iter()
        .filter_map(|m| match m.tag {
            MTag::Ctx(c) => Some(c),
            _ => None,
        })
        .collect();
    probes.truncate(3);
    // one context tag that is absent
    if let Some(absent) = (0u8..=255).find(|k| {
        !members
            .iter()
            .any(|m| matches!(m.tag, MTag::Ctx(c) if c == *k))
    }) {
        probes.push(absent);
    }
    for k in probes {
        let want = members
            .iter()
            .position(|m| matches!(m.tag, MTag::Ctx(c) if c == k))
            .map(|i| spans[member_spans[i]].start);
        match (seq.find_ctx(k), want) {
            (Ok(found), Some(off)) if !found.is_empty() && starts_at(bytes, off, found.raw_data()) => {}
            (Ok(found), None) if found.is_empty() => {}
            (got, _) => {
                return Err(format!(
                    "accessor:find_ctx: find_ctx({k}) returned {:?}, expected member at {want:?}",
                    got.map(|f| (f.raw_data().as_ptr() as usize).wrapping_sub(bytes.as_ptr() as usize))
                ))
            }
        }
        match (seq.ctx(k), want) {
            (Ok(found), Some(off)) if starts_at(bytes, off, found.raw_data()) => {}
            (Err(_), None) => {}
            (got, _) => {
                return Err(format!(
                    "accessor:seq.ctx: ctx({k}) returned {}, expected member at {want:?}",
                    if got.is_ok() { "Ok" } else { "Err" }
                ))
            }
        }
    }
    Ok(())
}

/// Pre-order list of `(node, span index)` of the expected tree, and for each container the span
/// indices of its members.
fn flatten<'a>(n: &'a MNode, out: &mut Vec<&'a MNode>, members: &mut Vec<Vec<usize>>) {
    let idx = out.len();
    out.push(n);
    members.push(Vec::new());
    if let Some(c) = n.children() {
        for m in c {
            let mi = out.len();
            members[idx].push(mi);
            flatten(m, out, members);
        }
    }
}

fn check_tree_write_read(case: &TreeCase) -> Case {
    let p = prepare(&case.root);
    let labels = tree_labels(&p);
    let nontrivial = tree_nontrivial(&p);
    let p = &p;
    let c = multi(vec![
        (
            "write",
            Box::new(move || {
                let mut buf = vec![0u8; p.bytes.len() + 16];
                let mut tw = WriteBuf::new(&mut buf);
                if let Err(err) = sut_write(&p.xs, &mut tw) {
                    return Case::fail(
                        "write:error",
                        format!("writing {} failed with {err:?}", short_dbg(&p.xs)),
                    );
                }
                let got = tw.as_slice();
                if got != p.bytes.as_slice() {
                    let d = first_diff(got, &p.bytes);
                    return Case::fail(
                        "write:bytes-differ-from-spec-encoding",
                        format!(
                            "tree {} : writer produced {} but the TLV encoding is {} (first difference at offset {d})",
                            short_dbg(&p.xs),
                            short_hex(got),
                            short_hex(&p.bytes)
                        ),
                    );
                }
                // a buffer that is one byte too short must give an error, not a panic
                if !p.bytes.is_empty() && p.bytes.len() <= 400 {
                    let mut small = vec![0u8; p.bytes.len() - 1];
                    let mut tw = WriteBuf::new(&mut small);
                    if sut_write(&p.xs, &mut tw).is_ok() {
                        return Case::fail(
                            "write:short-buffer-accepted",
                            format!(
                                "{} encoded bytes were accepted by a {}-byte buffer",
                                p.bytes.len(),
                                p.bytes.len() - 1
                            ),
                        );
                    }
                }
                Case::pass(false)
            }),
        ),
        (
            "read",
            Box::new(move || match decode(&TLVElement::new(&p.bytes)) {
                Ok(got) if got == p.exp => Case::pass(false),
                Ok(got) => Case::fail(
                    "read:tree-differs",
                    format!(
                        "bytes {} decode to {} but were written from {}",
                        short_hex(&p.bytes),
                        short_dbg(&got),
                        short_dbg(&p.exp)
                    ),
                ),
                Err(err) => Case::fail(
                    "read:error",
                    format!("decoding {} failed: {err}", short_hex(&p.bytes)),
                ),
            }),
        ),
        (
            "accessors",
            Box::new(move || {
                let mut elems = Vec::new();
                if let Err(err) = collect_elements(TLVElement::new(&p.bytes), &mut elems) {
                    return Case::fail("read:error", format!("walking {} failed: {err}", short_hex(&p.bytes)));
                }
                let mut nodes = Vec::new();
                let mut members = Vec::new();
                flatten(&p.exp, &mut nodes, &mut members);
                if elems.len() != nodes.len() {
                    return Case::fail(
                        "read:element-count",
                        format!("{} elements found, {} written", elems.len(), nodes.len()),
                    );
                }
                if nodes.len() != p.spans.len() {
                    return Case::inconclusive("harness: span table out of step");
                }
                // bound the quadratic part on big trees
                let limit = if p.bytes.len() > 4096 { 24 } else { 400 };
                for (i, (e, n)) in elems.iter().zip(nodes.iter()).enumerate().take(limit) {
                    if let Err(msg) = check_accessors_of(e, n, &p.spans[i], &p.bytes) {
                        return fail_from(format!("{msg}; encoding {}", short_hex(&p.bytes)));
                    }
                    if let Some(c) = n.children() {
                        if let Err(msg) = check_find_ctx(e, c, &members[i], &p.spans, &p.bytes) {
                            return fail_from(format!("{msg}; encoding {}", short_hex(&p.bytes)));
                        }
                    }
                }
                Case::pass(false)
            }),
        ),
        (
            "display",
            Box::new(move || {
                if p.bytes.len() <= 4096 {
                    let e = TLVElement::new(&p.bytes);
                    let mut sink = Sink::for_input(p.bytes.len());
                    let _ = write!(sink, "{e}");
                    let _ = write!(sink, "{e:?}");
                    if let Err(m) = sink.check("Display(TLVElement)") {
                        return fail_from(m);
                    }
                }
                Case::pass(false)
            }),
        ),
    ]);
    if c.is_fail() {
        c
    } else {
        c.nontrivial(nontrivial).labels(labels)
    }
}

/// The first `limit` elements with their expected node and span.
fn element_table<'a, 'b>(
    p: &'a Prepared,
    limit: usize,
) -> Result<Vec<(TLVElement<'a>, &'a MNode, &'a Span)>, Case> {
    let mut elems = Vec::new();
    if let Err(err) = collect_elements(TLVElement::new(&p.bytes), &mut elems) {
        return Err(Case::fail(
            "read:error",
            format!("walking {} failed: {err}", short_hex(&p.bytes)),
        ));
    }
    let mut nodes = Vec::new();
    let mut members = Vec::new();
    flatten(&p.exp, &mut nodes, &mut members);
    if elems.len() != nodes.len() || nodes.len() != p.spans.len() {
        return Err(Case::fail(
            "read:element-count",
            format!("{} elements found, {} written", elems.len(), nodes.len()),
        ));
    }
    Ok(elems
        .into_iter()
        .zip(nodes)
        .zip(p.spans.iter())
        .map(|((e, n), s)| (e, n, s))
        .take(limit)
        .collect())
}

fn check_tree_reencode_write(case: &TreeCase) -> Case {
    let p = prepare(&case.root);
    let labels = tree_labels(&p);
    let nontrivial = tree_nontrivial(&p);
    let limit = if p.bytes.len() > 4096 { 6 } else { 48 };
    let table = match element_table(&p, limit) {
        Ok(t) => t,
        Err(c) => return c,
    };
    for (e, n, sp) in &table {
        let exact = &p.bytes[sp.start..sp.end];
        // own tag: the bytes of the element
        match to_tlv_vec(e, &sut_tag(&n.tag)) {
            Ok(got) if got == exact => {}
            Ok(got) => {
                return Case::fail(
                    "reencode:to_tlv",
                    format!(
                        "{} element {} re-encoded with TLVElement::to_tlv as {}",
                        vt_name(&n.val),
                        short_hex(exact),
                        short_hex(&got)
                    ),
                )
            }
            Err(err) => {
                return Case::fail(
                    "reencode:to_tlv-error",
                    format!("{} element {}: {err:?}", vt_name(&n.val), short_hex(exact)),
                )
            }
        }
        // through a WriteBuf as well (the writer real callers use)
        let mut buf = vec![0u8; exact.len() + 4];
        let mut tw = WriteBuf::new(&mut buf);
        if e.to_tlv(&sut_tag(&n.tag), &mut tw).is_err() || tw.as_slice() != exact {
            return Case::fail(
                "reencode:to_tlv",
                format!("{} element {} (WriteBuf)", vt_name(&n.val), short_hex(exact)),
            );
        }
        // leaves: TLVWrite::tlv(tag(), value())
        if n.children().is_none() {
            let r = e.tlv().and_then(|t| {
                let mut w = VecWriter(Vec::new());
                w.tlv(&t.tag, &t.value)?;
                Ok(w.0)
            });
            match r {
                Ok(got) if got == exact => {}
                other => {
                    return Case::fail(
                        format!("reencode:write-tlv:{}", vt_name(&n.val)),
                        format!("element {} re-written as {:?}", short_hex(exact), other.map(|b| short_hex(&b))),
                    )
                }
            }
        }
    }
    // another tag: the element with its tag replaced
    if let Some((e, n, _)) = table.first() {
        let new_tag = MTag::Fq64 {
            v: 0xfff1,
            p: 0x8000,
            t: 0x2a,
        };
        let mut want = Vec::new();
        ref_encode(
            &MNode {
                tag: new_tag.clone(),
                val: n.val.clone(),
                via: 0,
            },
            &mut want,
            &mut Vec::new(),
        );
        match to_tlv_vec(e, &sut_tag(&new_tag)) {
            Ok(got) if got == want => {}
            other => {
                return Case::fail(
                    "reencode:to_tlv-retag",
                    format!(
                        "root {} re-tagged gives {:?}, expected {}",
                        short_hex(&p.bytes),
                        other.map(|b| short_hex(&b)),
                        short_hex(&want)
                    ),
                )
            }
        }
    }
    Case::pass(nontrivial).labels(labels)
}

fn check_tree_reencode_iter(case: &TreeCase) -> Case {
    let p = prepare(&case.root);
    let labels = tree_labels(&p);
    let nontrivial = tree_nontrivial(&p);
    let limit = if p.bytes.len() > 4096 { 6 } else { 48 };
    let table = match element_table(&p, limit) {
        Ok(t) => t,
        Err(c) => return c,
    };
    let table = &table;
    let p = &p;
    let c = multi(vec![
        (
            "element.tlv_iter",
            Box::new(move || {
                for (e, n, sp) in table {
                    let exact = &p.bytes[sp.start..sp.end];
                    match tlv_iter_vec(e, sut_tag(&n.tag)) {
                        Ok(got) if got == exact => {}
                        Ok(got) => {
                            return Case::fail(
                                format!(
                                    "reencode:tlv_iter:{}",
                                    if n.children().is_some() { "container" } else { vt_name(&n.val) }
                                ),
                                format!(
                                    "{} element {} re-encoded with ToTLV::tlv_iter as {}",
                                    vt_name(&n.val),
                                    short_hex(exact),
                                    short_hex(&got)
                                ),
                            )
                        }
                        Err(err) => {
                            return Case::fail(
                                "reencode:tlv_iter-error",
                                format!("{} element {}: {err:?}", vt_name(&n.val), short_hex(exact)),
                            )
                        }
                    }
                }
                Case::pass(false)
            }),
        ),
        (
            "tlv.bytes_iter",
            Box::new(move || {
                for (e, n, sp) in table {
                    if n.children().is_some() {
                        continue;
                    }
                    let exact = &p.bytes[sp.start..sp.end];
                    let t = match e.tlv() {
                        Ok(t) => t,
                        Err(err) => return Case::fail("read:error", format!("tlv(): {err:?}")),
                    };
                    let a: Vec<u8> = t.bytes_iter().collect();
                    let b: Vec<u8> = (&t).into_iter().collect();
                    let c: Vec<u8> = t.clone().into_bytes_iter().collect();
                    if a != exact || b != exact || c != exact {
                        return Case::fail(
                            format!("reencode:bytes_iter:{}", vt_name(&n.val)),
                            format!(
                                "element {} decoded as {} and re-encoded with TLV::bytes_iter as {}",
                                short_hex(exact),
                                short_dbg(&t),
                                short_hex(&a)
                            ),
                        );
                    }
                }
                Case::pass(false)
            }),
        ),
        (
            "tlv-constructors",
            Box::new(move || {
                let mut tlvs = Vec::new();
                sut_tlvs(&p.xs, &mut tlvs);
                let mut off = 0usize;
                for t in &tlvs {
                    let chunk: Vec<u8> = t.bytes_iter().collect();
                    let want = p.bytes.get(off..(off + chunk.len()).min(p.bytes.len())).unwrap_or(&[]);
                    // the element must be complete: the next control byte follows
                    let full_len = element_header_and_value_len(&p.bytes, off);
                    if chunk != want || full_len != Some(chunk.len()) {
                        return Case::fail(
                            format!("encode:bytes_iter:{}", t.value.value_type()),
                            format!(
                                "{} emitted {} at offset {off} of the encoding {}",
                                short_dbg(t),
                                short_hex(&chunk),
                                short_hex(&p.bytes)
                            ),
                        );
                    }
                    off += chunk.len();
                }
                if off != p.bytes.len() {
                    return Case::fail(
                        "encode:bytes_iter:length",
                        format!("{off} bytes emitted, {} expected", p.bytes.len()),
                    );
                }
                Case::pass(false)
            }),
        ),
    ]);
    if c.is_fail() {
        c
    } else {
        c.nontrivial(nontrivial).labels(labels)
    }
}

/// Length of control byte + tag + length field + (non-container) value of the element that
/// starts at `off` of a well-formed encoding; containers and end-of-container count their
/// header only.
fn element_header_and_value_len(bytes: &[u8], off: usize) -> Option<usize> {
    let ctl = *bytes.get(off)?;
    let ty = ctl & 0x1f;
    let hdr = 1 + tag_size(ctl);
    Some(match ty {
        0x00 | 0x04 => hdr + 1,
        0x01 | 0x05 => hdr + 2,
        0x02 | 0x06 | 0x0a => hdr + 4,
        0x03 | 0x07 | 0x0b => hdr + 8,
        0x0c..=0x13 => {
            let w = 1usize << ((ty - 0x0c) & 3);
            let mut b = [0u8; 8];
            b[..w].copy_from_slice(bytes.get(off + hdr..off + hdr + w)?);
            hdr + w + u64::from_le_bytes(b) as usize
        }
        _ => hdr,
    })
}

// ---------------------------------------------------------------------------------------------
// Wire structures: generated field values
// ---------------------------------------------------------------------------------------------

use rs_matter::acl::{AclEntry, AuthMode, Target};
use rs_matter::crypto::CryptoSensitive;
use rs_matter::dm::Privilege;
use rs_matter::fabric::{Fabric, GroupEndpointMapping, GroupKeyMapping};
use rs_matter::group_keys::{GroupEpochKeyEntry, GroupKeySet, KeySet};
use rs_matter::im::{
    AttrData, AttrPath, AttrResp, AttrStatus, ClusterPath, CmdData, CmdPath, CmdResp, CmdStatus,
    DataVersionFilter, EventData, EventDataTimestamp, EventFilter, EventPath, EventPriority,
    EventResp, EventStatus, IMStatusCode, InvReq, InvokeResp, ReadReq, ReportDataResp, Status,
    StatusResp, SubscribeReq, SubscribeResp, TimedReq, WriteReq, WriteResp,
};
use rs_matter::sc::case::ResumableSession;
use rs_matter::sc::verif as sc_verif;

const STATUS_CODES: &[IMStatusCode] = &[
    IMStatusCode::Success,
    IMStatusCode::Failure,
    IMStatusCode::InvalidSubscription,
    IMStatusCode::UnsupportedAccess,
    IMStatusCode::UnsupportedEndpoint,
    IMStatusCode::InvalidAction,
    IMStatusCode::UnsupportedCommand,
    IMStatusCode::InvalidCommand,
    IMStatusCode::UnsupportedAttribute,
    IMStatusCode::ConstraintError,
    IMStatusCode::UnsupportedWrite,
    IMStatusCode::ResourceExhausted,
    IMStatusCode::NotFound,
    IMStatusCode::UnreportableAttribute,
    IMStatusCode::InvalidDataType,
    IMStatusCode::UnsupportedRead,
    IMStatusCode::DataVersionMismatch,
    IMStatusCode::Timeout,
    IMStatusCode::UnsupportedNode,
    IMStatusCode::Busy,
    IMStatusCode::AccessRestricted,
    IMStatusCode::UnsupportedCluster,
    IMStatusCode::NoUpstreamSubscription,
    IMStatusCode::NeedsTimedInteraction,
    IMStatusCode::UnsupportedEvent,
    IMStatusCode::PathsExhausted,
    IMStatusCode::TimedRequestMisMatch,
    IMStatusCode::FailSafeRequired,
    IMStatusCode::InvalidInState,
    IMStatusCode::NoCommandResponse,
    IMStatusCode::TermsAndConditionsChanged,
    IMStatusCode::MaintenanceRequired,
    IMStatusCode::DynamicConstraintError,
    IMStatusCode::AlreadyExists,
    IMStatusCode::InvalidTransportType,
];

#[derive(Debug, Clone, Serialize, Deserialize)]
struct PAttrPath {
    tc: Option<bool>,
    node: Option<u64>,
    ep: Option<u16>,
    cl: Option<u32>,
    at: Option<u32>,
    /// `Some(None)` = present and null. The nullable u16 domain excludes 0xffff.
    li: Option<Option<u16>>,
}

#[derive(Debug, Clone, Serialize, Deserialize)]
struct PStatus {
    code: u16,
    cs: Option<u16>,
}

#[derive(Debug, Clone, Serialize, Deserialize)]
struct PCmdPath {
    ep: Option<u16>,
    cl: Option<u32>,
    cmd: Option<u32>,
}

#[derive(Debug, Clone, Serialize, Deserialize)]
struct PEventPath {
    node: Option<u64>,
    ep: Option<u16>,
    cl: Option<u32>,
    ev: Option<u32>,
    urgent: Option<bool>,
}

#[derive(Debug, Clone, Serialize, Deserialize)]
struct PTarget {
    cl: Option<u32>,
    ep: Option<u16>,
    dt: Option<u32>,
}

#[derive(Debug, Clone, Serialize, Deserialize)]
struct PAcl {
    privilege: u8,
    auth: u8,
    subjects: Option<Vec<u64>>,
    targets: Option<Vec<PTarget>>,
    fab: Option<u8>,
}

#[derive(Debug, Clone, Serialize, Deserialize)]
struct PEventData {
    path: PEventPath,
    num: u64,
    prio: u8,
    ts_kind: u8,
    ts: u64,
    data: MNode,
}

#[derive(Debug, Clone, Serialize, Deserialize)]
enum PAttrResp {
    Status(PAttrPath, PStatus),
    Data(Option<u32>, PAttrPath, MNode),
}

#[derive(Debug, Clone, Serialize, Deserialize)]
enum PCmdResp {
    Cmd(PCmdPath, MNode, Option<u16>),
    Status(PCmdPath, PStatus, Option<u16>),
}

#[derive(Debug, Clone, Serialize, Deserialize)]
enum PEventResp {
    Status(PEventPath, PStatus),
    Data(PEventData),
}

#[derive(Debug, Clone, Serialize, Deserialize)]
struct PKeySetEntry {
    key: Vec<u8>,
    start: u64,
}

#[derive(Debug, Clone, Serialize, Deserialize)]
struct PGroupKeySet {
    id: u16,
    policy: u8,
    keys: Vec<PKeySetEntry>,
}

#[derive(Debug, Clone, Serialize, Deserialize)]
struct PGroupEndpoints {
    gid: u16,
    eps: Vec<u16>,
    name: String,
    aux: Option<bool>,
    policy: Option<u8>,
}

#[derive(Debug, Clone, Serialize, Deserialize)]
struct PFabric {
    fab_idx: u8,
    node_id: u64,
    fabric_id: u64,
    vendor_id: u16,
    compressed: u64,
    secret: Vec<u8>,
    root_ca: Vec<u8>,
    icac: Vec<u8>,
    vvsc_set: bool,
    noc: Vec<u8>,
    ipk_epoch: Vec<u8>,
    ipk_op: Vec<u8>,
    label: String,
    acl: Vec<PAcl>,
    /// `None`: the blob was persisted before the `groups` field existed
    groups: Option<(Vec<PGroupKeySet>, Vec<(u16, u16)>, Vec<PGroupEndpoints>)>,
    vvs: Vec<u8>,
}

#[derive(Debug, Clone, Serialize, Deserialize)]
enum Wire {
    AttrPath(PAttrPath),
    ClusterPath(Option<u64>, u16, u32),
    DataVersionFilter(Option<u64>, u16, u32, u32),
    Status(PStatus),
    AttrResp(PAttrResp),
    CmdPath(PCmdPath),
    CmdResp(PCmdResp),
    EventFilter(Option<u64>, Option<u64>),
    EventPath(PEventPath),
    EventResp(PEventResp),
    StatusResp(u16, Option<u8>),
    TimedReq(u16, Option<u8>),
    SubscribeResp(u32, Option<u32>, u16, Option<u8>),
    ReportData {
        sub: Option<u32>,
        attrs: Option<Vec<PAttrResp>>,
        events: Option<Vec<PEventResp>>,
        more: Option<bool>,
        suppress: Option<bool>,
        imr: Option<u8>,
    },
    InvokeResp {
        suppress: Option<bool>,
        resps: Option<Vec<PCmdResp>>,
        more: Option<bool>,
        imr: Option<u8>,
    },
    WriteResp(Vec<(PAttrPath, PStatus)>, Option<u8>),
    Target(PTarget),
    Acl(PAcl),
    Resumable {
        fab: u8,
        node: u64,
        cats: Vec<u32>,
        rid: Vec<u8>,
        secret: Vec<u8>,
    },
    SessionParams(sc_verif::SessionParametersFields),
    KeySet(Vec<u8>, Vec<u8>),
    GroupKeySet(PGroupKeySet),
    GroupKeyMapping(u16, u16),
    GroupEndpoints(PGroupEndpoints),
    Fabric(Box<PFabric>),
}

fn opt<T: std::fmt::Debug + Clone + 'static>(s: impl Strategy<Value = T> + 'static) -> BoxedStrategy<Option<T>> {
    prop_oneof![1 => Just(None), 3 => s.prop_map(Some)].boxed()
}

fn bytes_n(n: usize) -> impl Strategy<Value = Vec<u8>> {
    prop::collection::vec(any::<u8>(), n)
}

fn p_attr_path() -> impl Strategy<Value = PAttrPath> {
    (
        opt(any::<bool>()),
        opt(edge_u64()),
        opt(edge_u16()),
        opt(edge_u32()),
        opt(edge_u32()),
        opt(opt(prop_oneof![Just(0u16), Just(0xfffe), 0u16..0xffff])),
    )
        .prop_map(|(tc, node, ep, cl, at, li)| PAttrPath {
            tc,
            node,
            ep,
            cl,
            at,
            li,
        })
}

fn p_status() -> impl Strategy<Value = PStatus> {
    (any::<u16>(), opt(edge_u16())).prop_map(|(code, cs)| PStatus { code, cs })
}

fn p_cmd_path() -> impl Strategy<Value = PCmdPath> {
    (opt(edge_u16()), opt(edge_u32()), opt(edge_u32())).prop_map(|(ep, cl, cmd)| PCmdPath { ep, cl, cmd })
}

fn p_event_path() -> impl Strategy<Value = PEventPath> {
    (
        opt(edge_u64()),
        opt(edge_u16()),
        opt(edge_u32()),
        opt(edge_u32()),
        opt(any::<bool>()),
    )
        .prop_map(|(node, ep, cl, ev, urgent)| PEventPath {
            node,
            ep,
            cl,
            ev,
            urgent,
        })
}

fn p_target() -> impl Strategy<Value = PTarget> {
    (opt(edge_u32()), opt(edge_u16()), opt(edge_u32())).prop_map(|(cl, ep, dt)| PTarget { cl, ep, dt })
}

fn p_acl() -> impl Strategy<Value = PAcl> {
    (
        0u8..5,
        0u8..3,
        opt(prop::collection::vec(edge_u64(), 0..=rs_matter::acl::MAX_SUBJECTS_PER_ACL_ENTRY)),
        opt(prop::collection::vec(p_target(), 0..=rs_matter::acl::MAX_TARGETS_PER_ACL_ENTRY)),
        opt(1u8..=255),
    )
        .prop_map(|(privilege, auth, subjects, targets, fab)| PAcl {
            privilege,
            auth,
            subjects,
            targets,
            fab,
        })
}

/// payload element of data IBs
fn data_tree() -> BoxedStrategy<MNode> {
    tree_strategy(0, 3, 10)
        .prop_map(|mut n| {
            conform_tags(&mut n);
            n
        })
        .boxed()
}

fn p_event_data() -> impl Strategy<Value = PEventData> {
    (p_event_path(), edge_u64(), 0u8..3, 0u8..4, edge_u64(), data_tree()).prop_map(
        |(path, num, prio, ts_kind, ts, data)| PEventData {
            path,
            num,
            prio,
            ts_kind,
            ts,
            data,
        },
    )
}

fn p_attr_resp() -> impl Strategy<Value = PAttrResp> {
    prop_oneof![
        (p_attr_path(), p_status()).prop_map(|(p, s)| PAttrResp::Status(p, s)),
        (opt(edge_u32()), p_attr_path(), data_tree()).prop_map(|(v, p, d)| PAttrResp::Data(v, p, d)),
    ]
}

fn p_cmd_resp() -> impl Strategy<Value = PCmdResp> {
    prop_oneof![
        (p_cmd_path(), data_tree(), opt(edge_u16())).prop_map(|(p, d, r)| PCmdResp::Cmd(p, d, r)),
        (p_cmd_path(), p_status(), opt(edge_u16())).prop_map(|(p, s, r)| PCmdResp::Status(p, s, r)),
    ]
}

fn p_event_resp() -> impl Strategy<Value = PEventResp> {
    prop_oneof![
        (p_event_path(), p_status()).prop_map(|(p, s)| PEventResp::Status(p, s)),
        p_event_data().prop_map(PEventResp::Data),
    ]
}

fn p_group_key_set() -> impl Strategy<Value = PGroupKeySet> {
    (
        edge_u16(),
        any::<u8>(),
        prop::collection::vec(
            (bytes_n(16), edge_u64()).prop_map(|(key, start)| PKeySetEntry { key, start }),
            0..=3,
        ),
    )
        .prop_map(|(id, policy, keys)| PGroupKeySet { id, policy, keys })
}

fn p_group_endpoints() -> impl Strategy<Value = PGroupEndpoints> {
    (
        edge_u16(),
        prop::collection::vec(edge_u16(), 0..=3),
        small_text(16),
        opt(any::<bool>()),
        opt(0u8..2),
    )
        .prop_map(|(gid, eps, name, aux, policy)| PGroupEndpoints {
            gid,
            eps,
            name: text_string(&name),
            aux,
            policy,
        })
}

fn p_fabric() -> impl Strategy<Value = PFabric> {
    (
        (1u8..=255, edge_u64(), edge_u64(), edge_u16(), edge_u64(), bytes_n(32)),
        (
            prop::collection::vec(any::<u8>(), 0..40),
            prop::collection::vec(any::<u8>(), 0..40),
            any::<bool>(),
            prop::collection::vec(any::<u8>(), 0..40),
            bytes_n(16),
            bytes_n(16),
            small_text(32),
        ),
        prop::collection::vec(p_acl(), 0..=rs_matter::acl::MAX_ACL_ENTRIES_PER_FABRIC),
        opt((
            prop::collection::vec(p_group_key_set(), 0..=2),
            prop::collection::vec((edge_u16(), edge_u16()), 0..=4),
            prop::collection::vec(p_group_endpoints(), 0..=4),
        )),
        prop_oneof![Just(Vec::new()), bytes_n(85)],
    )
        .prop_map(|(a, b, acl, groups, vvs)| PFabric {
            fab_idx: a.0,
            node_id: a.1,
            fabric_id: a.2,
            vendor_id: a.3,
            compressed: a.4,
            secret: a.5,
            root_ca: b.0,
            icac: b.1,
            vvsc_set: b.2,
            noc: b.3,
            ipk_epoch: b.4,
            ipk_op: b.5,
            label: text_string(&b.6),
            acl,
            groups,
            vvs,
        })
}

fn wire_strategy() -> impl Strategy<Value = Wire> {
    prop_oneof![
        1 => p_attr_path().prop_map(Wire::AttrPath),
        1 => (opt(edge_u64()), edge_u16(), edge_u32()).prop_map(|(n, e, c)| Wire::ClusterPath(n, e, c)),
        1 => (opt(edge_u64()), edge_u16(), edge_u32(), edge_u32())
            .prop_map(|(n, e, c, v)| Wire::DataVersionFilter(n, e, c, v)),
        1 => p_status().prop_map(Wire::Status),
        3 => p_attr_resp().prop_map(Wire::AttrResp),
        1 => p_cmd_path().prop_map(Wire::CmdPath),
        3 => p_cmd_resp().prop_map(Wire::CmdResp),
        1 => (opt(edge_u64()), opt(edge_u64())).prop_map(|(n, m)| Wire::EventFilter(n, m)),
        1 => p_event_path().prop_map(Wire::EventPath),
        3 => p_event_resp().prop_map(Wire::EventResp),
        1 => (any::<u16>(), opt(any::<u8>())).prop_map(|(c, r)| Wire::StatusResp(c, r)),
        1 => (edge_u16(), opt(any::<u8>())).prop_map(|(t, r)| Wire::TimedReq(t, r)),
        1 => (edge_u32(), opt(edge_u32()), edge_u16(), opt(any::<u8>()))
            .prop_map(|(i, d, m, r)| Wire::SubscribeResp(i, d, m, r)),
        3 => (
            opt(edge_u32()),
            opt(prop::collection::vec(p_attr_resp(), 0..4)),
            opt(prop::collection::vec(p_event_resp(), 0..3)),
            opt(any::<bool>()),
            opt(any::<bool>()),
            opt(any::<u8>())
        )
            .prop_map(|(sub, attrs, events, more, suppress, imr)| Wire::ReportData {
                sub,
                attrs,
                events,
                more,
                suppress,
                imr
            }),
        2 => (
            opt(any::<bool>()),
            opt(prop::collection::vec(p_cmd_resp(), 0..4)),
            opt(any::<bool>()),
            opt(any::<u8>())
        )
            .prop_map(|(suppress, resps, more, imr)| Wire::InvokeResp {
                suppress,
                resps,
                more,
                imr
            }),
        2 => (prop::collection::vec((p_attr_path(), p_status()), 0..4), opt(any::<u8>()))
            .prop_map(|(s, r)| Wire::WriteResp(s, r)),
        1 => p_target().prop_map(Wire::Target),
        3 => p_acl().prop_map(Wire::Acl),
        2 => (1u8..=255, edge_u64(), prop::collection::vec(edge_u32(), 3), bytes_n(16), bytes_n(32))
            .prop_map(|(fab, node, cats, rid, secret)| Wire::Resumable {
                fab,
                node,
                cats,
                rid,
                secret
            }),
        2 => (
            opt(edge_u32()),
            opt(edge_u32()),
            opt(edge_u16()),
            opt(edge_u16()),
            opt(edge_u16()),
            opt(edge_u32()),
            opt(edge_u16())
        )
            .prop_map(Wire::SessionParams),
        1 => (bytes_n(16), bytes_n(16)).prop_map(|(a, b)| Wire::KeySet(a, b)),
        2 => p_group_key_set().prop_map(Wire::GroupKeySet),
        1 => (edge_u16(), edge_u16()).prop_map(|(a, b)| Wire::GroupKeyMapping(a, b)),
        2 => p_group_endpoints().prop_map(Wire::GroupEndpoints),
        4 => p_fabric().prop_map(|f| Wire::Fabric(Box::new(f))),
    ]
}


// ---------------------------------------------------------------------------------------------
// Wire structures: building the rs-matter values and the round-trip oracle
// ---------------------------------------------------------------------------------------------

use rs_matter::dm::clusters::decl::groupcast::MulticastAddrPolicyEnum;

const PRIVILEGES: [Privilege; 5] = [
    Privilege::VIEW,
    Privilege::OPERATE,
    Privilege::MANAGE,
    Privilege::ADMIN,
    Privilege::PROXYVIEW,
];
/// `AccessControlEntryPrivilegeEnum` values (Matter Core, Access Control cluster) in the order
/// of `PRIVILEGES`
const PRIVILEGE_ENUM: [u64; 5] = [1, 3, 4, 5, 2];
const AUTH_MODES: [AuthMode; 3] = [AuthMode::Pase, AuthMode::Case, AuthMode::Group];

fn b_attr_path(p: &PAttrPath) -> AttrPath {
    AttrPath {
        tag_compression: p.tc,
        node: p.node,
        endpoint: p.ep,
        cluster: p.cl,
        attr: p.at,
        list_index: p.li.map(Nullable::new),
    }
}

fn b_status(p: &PStatus) -> Status {
    Status::new(STATUS_CODES[pick(p.code, STATUS_CODES.len())], p.cs)
}

fn b_cmd_path(p: &PCmdPath) -> CmdPath {
    CmdPath::new(p.ep, p.cl, p.cmd)
}

fn b_event_path(p: &PEventPath) -> EventPath {
    EventPath {
        node: p.node,
        endpoint: p.ep,
        cluster: p.cl,
        event: p.ev,
        is_urgent: p.urgent,
    }
}

fn b_target(p: &PTarget) -> Target {
    Target::new(p.ep, p.cl, p.dt)
}

fn b_acl(p: &PAcl) -> Result<AclEntry, Error> {
    let mut e = AclEntry::new(
        p.fab.and_then(NonZeroU8::new),
        PRIVILEGES[p.privilege as usize % 5],
        AUTH_MODES[p.auth as usize % 3],
    );
    for s in p.subjects.iter().flatten() {
        e.add_subject(*s)?;
    }
    for t in p.targets.iter().flatten() {
        e.add_target(b_target(t))?;
    }
    Ok(e)
}

/// Encoded data elements of a case, in the order the builders consume them.
struct Arena {
    bufs: Vec<Vec<u8>>,
    next: std::cell::Cell<usize>,
}

impl Arena {
    fn new(w: &Wire) -> Self {
        let mut trees: Vec<&MNode> = Vec::new();
        fn attr(r: &PAttrResp) -> Option<&MNode> {
            match r {
                PAttrResp::Data(_, _, d) => Some(d),
                _ => None,
            }
        }
        fn cmd(r: &PCmdResp) -> Option<&MNode> {
            match r {
                PCmdResp::Cmd(_, d, _) => Some(d),
                _ => None,
            }
        }
        fn event(r: &PEventResp) -> Option<&MNode> {
            match r {
                PEventResp::Data(d) => Some(&d.data),
                _ => None,
            }
        }
        match w {
            Wire::AttrResp(r) => trees.extend(attr(r)),
            Wire::CmdResp(r) => trees.extend(cmd(r)),
            Wire::EventResp(r) => trees.extend(event(r)),
            Wire::ReportData { attrs, events, .. } => {
                trees.extend(attrs.iter().flatten().filter_map(attr));
                trees.extend(events.iter().flatten().filter_map(event));
            }
            Wire::InvokeResp { resps, .. } => trees.extend(resps.iter().flatten().filter_map(cmd)),
            _ => {}
        }
        let bufs = trees
            .into_iter()
            .map(|t| {
                let mut b = Vec::new();
                ref_encode(&normalise(&materialise(t)), &mut b, &mut Vec::new());
                b
            })
            .collect();
        Arena {
            bufs,
            next: std::cell::Cell::new(0),
        }
    }

    fn take(&self) -> TLVElement<'_> {
        let i = self.next.get();
        self.next.set(i + 1);
        TLVElement::new(&self.bufs[i])
    }

    /// whether some data element is a container or a string with an 8-byte length field (the
    /// two classes `TLVElement::tlv_iter` is known to mis-encode)
    fn has_iter_hostile_data(&self) -> bool {
        self.bufs.iter().any(|b| {
            let ty = b.first().map(|c| c & 0x1f).unwrap_or(0);
            (0x15..=0x17).contains(&ty) || ty == 0x0f || ty == 0x13
        })
    }
}

fn b_attr_resp<'a>(p: &PAttrResp, arena: &'a Arena) -> AttrResp<'a> {
    match p {
        PAttrResp::Status(path, st) => AttrResp::Status(AttrStatus {
            path: b_attr_path(path),
            status: b_status(st),
        }),
        PAttrResp::Data(ver, path, _) => AttrResp::Data(AttrData::new(*ver, b_attr_path(path), arena.take())),
    }
}

fn b_cmd_resp<'a>(p: &PCmdResp, arena: &'a Arena) -> CmdResp<'a> {
    match p {
        PCmdResp::Cmd(path, _, r) => CmdResp::Cmd(CmdData::new(b_cmd_path(path), arena.take(), *r)),
        PCmdResp::Status(path, st, r) => CmdResp::Status(CmdStatus {
            path: b_cmd_path(path),
            status: b_status(st),
            command_ref: *r,
        }),
    }
}

fn b_event_resp<'a>(p: &PEventResp, arena: &'a Arena) -> EventResp<'a> {
    match p {
        PEventResp::Status(path, st) => EventResp::Status(EventStatus {
            path: b_event_path(path),
            status: b_status(st),
        }),
        PEventResp::Data(d) => {
            let ts = match d.ts_kind % 4 {
                0 => EventDataTimestamp::EpochTimestamp(d.ts),
                1 => EventDataTimestamp::SystemTimestamp(d.ts),
                2 => EventDataTimestamp::DeltaEpochTimestamp(d.ts),
                _ => EventDataTimestamp::DeltaSystemTimestamp(d.ts),
            };
            let prio = match d.prio % 3 {
                0 => EventPriority::Debug,
                1 => EventPriority::Info,
                _ => EventPriority::Critical,
            };
            EventResp::Data(EventData::new(b_event_path(&d.path), d.num, prio, ts, arena.take()))
        }
    }
}

/// Two elements denote the same value: same element type and same value bytes (the tag is
/// chosen by the enclosing structure, the slices may extend beyond the element).
fn elem_eq(a: &TLVElement<'_>, b: &TLVElement<'_>) -> bool {
    match (a.control(), b.control(), a.raw_value(), b.raw_value()) {
        (Ok(ca), Ok(cb), Ok(va), Ok(vb)) => ca.value_type == cb.value_type && va == vb,
        _ => false,
    }
}

fn attr_resp_eq(a: &AttrResp<'_>, b: &AttrResp<'_>) -> bool {
    match (a, b) {
        (AttrResp::Status(x), AttrResp::Status(y)) => x == y,
        (AttrResp::Data(x), AttrResp::Data(y)) => {
            x.data_ver == y.data_ver && x.path == y.path && elem_eq(&x.data, &y.data)
        }
        _ => false,
    }
}

fn cmd_resp_eq(a: &CmdResp<'_>, b: &CmdResp<'_>) -> bool {
    match (a, b) {
        (CmdResp::Status(x), CmdResp::Status(y)) => x == y,
        (CmdResp::Cmd(x), CmdResp::Cmd(y)) => {
            x.path == y.path && x.command_ref == y.command_ref && elem_eq(&x.data, &y.data)
        }
        _ => false,
    }
}

fn event_resp_eq(a: &EventResp<'_>, b: &EventResp<'_>) -> bool {
    match (a, b) {
        (EventResp::Status(x), EventResp::Status(y)) => x == y,
        (EventResp::Data(x), EventResp::Data(y)) => {
            x.path == y.path
                && x.event_number == y.event_number
                && x.priority == y.priority
                && x.timestamp == y.timestamp
                && elem_eq(&x.data, &y.data)
        }
        _ => false,
    }
}

fn opt_array_eq<'a, 'b, T, U>(
    a: &Option<TLVArray<'a, T>>,
    b: &Option<TLVArray<'b, U>>,
    eq: impl Fn(&T, &U) -> bool,
) -> bool
where
    T: FromTLV<'a>,
    U: FromTLV<'b>,
{
    match (a, b) {
        (None, None) => true,
        (Some(x), Some(y)) => array_eq(x, y, eq),
        _ => false,
    }
}

fn array_eq<'a, 'b, T, U>(a: &TLVArray<'a, T>, b: &TLVArray<'b, U>, eq: impl Fn(&T, &U) -> bool) -> bool
where
    T: FromTLV<'a>,
    U: FromTLV<'b>,
{
    let mut ia = a.iter();
    let mut ib = b.iter();
    loop {
        match (ia.next(), ib.next()) {
            (None, None) => return true,
            (Some(Ok(x)), Some(Ok(y))) if eq(&x, &y) => {}
            _ => return false,
        }
    }
}

/// value -> bytes (`to_tlv`) -> value (`from_tlv`) -> bytes, `to_tlv` into a `WriteBuf`, decoding
/// inside a larger buffer; and, as a separate part, `tlv_iter` against `to_tlv`.
macro_rules! roundtrip {
    ($name:expr, $ty:ty, $val:expr, $tag:expr, $eq:expr, $elem_data:expr) => {{
        let v: $ty = $val;
        let v = &v;
        let tag: TLVTag = $tag;
        let tag = &tag;
        let name: &'static str = $name;
        let elem_data: bool = $elem_data;
        multi(vec![
            (
                "to_tlv/from_tlv",
                Box::new(move || {
                    let b1 = match to_tlv_vec(v, tag) {
                        Ok(b) => b,
                        Err(e) => {
                            return Case::fail(
                                format!("struct:to_tlv-error:{name}"),
                                format!("{} cannot be encoded: {e:?}", short_dbg(v)),
                            )
                        }
                    };
                    let mut buf = vec![0u8; b1.len() + 8];
                    let mut tw = WriteBuf::new(&mut buf);
                    if v.to_tlv(tag, &mut tw).is_err() || tw.as_slice() != b1.as_slice() {
                        return Case::fail(
                            format!("struct:writebuf-differs:{name}"),
                            format!("{} encodes differently into a WriteBuf", short_dbg(v)),
                        );
                    }
                    let v2 = match <$ty>::from_tlv(&TLVElement::new(&b1)) {
                        Ok(v2) => v2,
                        Err(e) => {
                            return Case::fail(
                                format!("struct:from_tlv-error:{name}"),
                                format!("{} encoded as {} does not decode: {e:?}", short_dbg(v), short_hex(&b1)),
                            )
                        }
                    };
                    if !($eq)(v, &v2) {
                        return Case::fail(
                            format!("struct:decoded-differs:{name}"),
                            format!(
                                "{} encoded as {} decodes to {}",
                                short_dbg(v),
                                short_hex(&b1),
                                short_dbg(&v2)
                            ),
                        );
                    }
                    match to_tlv_vec(&v2, tag) {
                        Ok(b2) if b2 == b1 => {}
                        other => {
                            return Case::fail(
                                format!("struct:reencode-differs:{name}"),
                                format!(
                                    "{} re-encoded as {:?}",
                                    short_hex(&b1),
                                    other.map(|b| short_hex(&b))
                                ),
                            )
                        }
                    }
                    // elements are decoded in place inside larger messages: bytes behind the
                    // element must not matter
                    let mut b3 = b1.clone();
                    b3.extend_from_slice(&[0x18, 0xff, 0x15, 0x24]);
                    match <$ty>::from_tlv(&TLVElement::new(&b3)) {
                        Ok(v3) if ($eq)(v, &v3) => {}
                        _ => {
                            return Case::fail(
                                format!("struct:trailing-bytes-matter:{name}"),
                                format!("{} followed by 18 ff 15 24 decodes differently", short_hex(&b1)),
                            )
                        }
                    }
                    Case::pass(true)
                }),
            ),
            (
                "tlv_iter",
                Box::new(move || {
                    let b1 = match to_tlv_vec(v, tag) {
                        Ok(b) => b,
                        Err(_) => return Case::pass(false),
                    };
                    let suffix = if elem_data { ":element-data" } else { "" };
                    match tlv_iter_vec(v, tag.clone()) {
                        Ok(b) if b == b1 => Case::pass(false),
                        Ok(b) if list_as_struct(&b1, &b) => Case::fail(
                            "struct:tlv_iter-differs:list-as-struct",
                            format!(
                                "{}: to_tlv gives {} but tlv_iter gives {} (a structure where to_tlv writes a list)",
                                short_dbg(v),
                                short_hex(&b1),
                                short_hex(&b)
                            ),
                        ),
                        other => Case::fail(
                            format!("struct:tlv_iter-differs:{name}{suffix}"),
                            format!(
                                "{}: to_tlv gives {} but tlv_iter gives {:?}",
                                short_dbg(v),
                                short_hex(&b1),
                                other.map(|b| short_hex(&b))
                            ),
                        ),
                    }
                }),
            ),
        ])
        .label(name)
    }};
}

/// The two encodings differ only in control bytes that say "list" in `a` and "structure" in `b`.
fn list_as_struct(a: &[u8], b: &[u8]) -> bool {
    a.len() == b.len()
        && a.iter()
            .zip(b.iter())
            .all(|(x, y)| x == y || (x & 0xe0 == y & 0xe0 && x & 0x1f == 0x17 && y & 0x1f == 0x15))
}

fn any_tag(sel: u8) -> TLVTag {
    match sel % 4 {
        0 | 1 => TLVTag::Anonymous,
        2 => TLVTag::Context(sel),
        _ => TLVTag::FullQual48 {
            vendor_id: 0xfff1,
            profile: 7,
            tag: sel as u16,
        },
    }
}

#[derive(Debug, Clone, Serialize, Deserialize)]
struct WireCase {
    wire: Wire,
    tag: u8,
}

fn wire_case() -> impl Strategy<Value = WireCase> {
    (wire_strategy(), any::<u8>()).prop_map(|(wire, tag)| WireCase { wire, tag })
}

fn sens<const N: usize>(b: &[u8]) -> CryptoSensitive<N> {
    let mut a = [0u8; N];
    for (d, s) in a.iter_mut().zip(b.iter()) {
        *d = *s;
    }
    CryptoSensitive::from(a)
}

fn b_group_key_set(p: &PGroupKeySet) -> GroupKeySet {
    let mut ks = GroupKeySet {
        group_key_set_id: p.id,
        group_key_security_policy: p.policy,
        ..Default::default()
    };
    for k in p.keys.iter().take(3) {
        let _ = ks.epoch_keys.push(GroupEpochKeyEntry {
            epoch_key: sens(&k.key),
            epoch_start_time: k.start,
        });
    }
    ks
}

fn group_key_set_eq(a: &GroupKeySet, b: &GroupKeySet) -> bool {
    a.group_key_set_id == b.group_key_set_id
        && a.group_key_security_policy == b.group_key_security_policy
        && a.epoch_keys.len() == b.epoch_keys.len()
        && a.epoch_keys.iter().zip(b.epoch_keys.iter()).all(|(x, y)| {
            x.epoch_key.access() == y.epoch_key.access() && x.epoch_start_time == y.epoch_start_time
        })
}

fn b_group_endpoints(p: &PGroupEndpoints) -> Option<GroupEndpointMapping> {
    let mut endpoints = rs_matter::utils::storage::Vec::new();
    for e in p.eps.iter().take(rs_matter::fabric::GROUP_ENDPOINTS_PER_FABRIC) {
        let _ = endpoints.push(*e);
    }
    Some(GroupEndpointMapping {
        group_id: p.gid,
        endpoints,
        group_name: p.name.as_str().try_into().ok()?,
        has_aux_acl: p.aux,
        mcast_policy: p.policy.map(|v| {
            if v % 2 == 0 {
                MulticastAddrPolicyEnum::IanaAddr
            } else {
                MulticastAddrPolicyEnum::PerGroup
            }
        }),
    })
}

fn group_endpoints_eq(a: &GroupEndpointMapping, b: &GroupEndpointMapping) -> bool {
    a.group_id == b.group_id
        && a.endpoints.as_slice() == b.endpoints.as_slice()
        && a.group_name.as_str() == b.group_name.as_str()
        && a.has_aux_acl == b.has_aux_acl
        && a.mcast_policy == b.mcast_policy
}

fn check_wire(case: &WireCase) -> Case {
    let arena = Arena::new(&case.wire);
    let arena = &arena;
    let elem_data = arena.has_iter_hostile_data();
    let tag = any_tag(case.tag);
    match &case.wire {
        Wire::AttrPath(p) => roundtrip!("AttrPath", AttrPath, b_attr_path(p), tag, |a, b| a == b, false),
        Wire::ClusterPath(n, e, c) => roundtrip!(
            "ClusterPath",
            ClusterPath,
            ClusterPath {
                node: *n,
                endpoint: *e,
                cluster: *c
            },
            tag,
            |a, b| a == b,
            false
        ),
        Wire::DataVersionFilter(n, e, c, v) => roundtrip!(
            "DataVersionFilter",
            DataVersionFilter,
            DataVersionFilter {
                path: ClusterPath {
                    node: *n,
                    endpoint: *e,
                    cluster: *c
                },
                data_ver: *v
            },
            tag,
            |a, b| a == b,
            false
        ),
        Wire::Status(p) => roundtrip!("Status", Status, b_status(p), tag, |a, b| a == b, false),
        Wire::AttrResp(p) => roundtrip!(
            "AttrResp",
            AttrResp<'_>,
            b_attr_resp(p, arena),
            tag,
            attr_resp_eq,
            elem_data
        ),
        Wire::CmdPath(p) => roundtrip!("CmdPath", CmdPath, b_cmd_path(p), tag, |a, b| a == b, false),
        Wire::CmdResp(p) => roundtrip!(
            "CmdResp",
            CmdResp<'_>,
            b_cmd_resp(p, arena),
            tag,
            cmd_resp_eq,
            elem_data
        ),
        Wire::EventFilter(n, m) => roundtrip!(
            "EventFilter",
            EventFilter,
            EventFilter {
                node: *n,
                event_min: *m
            },
            tag,
            |a, b| a == b,
            false
        ),
        Wire::EventPath(p) => roundtrip!("EventPath", EventPath, b_event_path(p), tag, |a, b| a == b, false),
        Wire::EventResp(p) => roundtrip!(
            "EventResp",
            EventResp<'_>,
            b_event_resp(p, arena),
            tag,
            event_resp_eq,
            elem_data
        ),
        Wire::StatusResp(c, r) => roundtrip!(
            "StatusResp",
            StatusResp,
            StatusResp {
                status: STATUS_CODES[pick(*c, STATUS_CODES.len())],
                interaction_model_revision: *r
            },
            tag,
            |a, b| a == b,
            false
        ),
        Wire::TimedReq(t, r) => roundtrip!(
            "TimedReq",
            TimedReq,
            TimedReq {
                timeout: *t,
                interaction_model_revision: *r
            },
            tag,
            |a, b| a == b,
            false
        ),
        Wire::SubscribeResp(i, d, m, r) => roundtrip!(
            "SubscribeResp",
            SubscribeResp,
            SubscribeResp {
                subs_id: *i,
                _dummy: *d,
                max_int: *m,
                interaction_model_revision: *r
            },
            tag,
            |a: &SubscribeResp, b: &SubscribeResp| a.subs_id == b.subs_id
                && a._dummy == b._dummy
                && a.max_int == b.max_int
                && a.interaction_model_revision == b.interaction_model_revision,
            false
        ),
        Wire::ReportData {
            sub,
            attrs,
            events,
            more,
            suppress,
            imr,
        } => {
            let av: Option<Vec<AttrResp<'_>>> =
                attrs.as_ref().map(|v| v.iter().map(|r| b_attr_resp(r, arena)).collect());
            let ev: Option<Vec<EventResp<'_>>> =
                events.as_ref().map(|v| v.iter().map(|r| b_event_resp(r, arena)).collect());
            let ab = match av.as_ref().map(|v| to_tlv_vec(&v.as_slice(), &TLVTag::Anonymous)).transpose() {
                Ok(b) => b,
                Err(e) => return Case::fail("struct:to_tlv-error:[AttrResp]", format!("{e:?}")),
            };
            let eb = match ev.as_ref().map(|v| to_tlv_vec(&v.as_slice(), &TLVTag::Anonymous)).transpose() {
                Ok(b) => b,
                Err(e) => return Case::fail("struct:to_tlv-error:[EventResp]", format!("{e:?}")),
            };
            let arr_a = ab.as_ref().map(|b| TLVArray::new(TLVElement::new(b)));
            let arr_e = eb.as_ref().map(|b| TLVArray::new(TLVElement::new(b)));
            let (arr_a, arr_e) = match (arr_a.transpose(), arr_e.transpose()) {
                (Ok(a), Ok(e)) => (a, e),
                _ => return Case::fail("struct:array-new-error", "TLVArray::new rejected an encoded slice"),
            };
            roundtrip!(
                "ReportDataResp",
                ReportDataResp<'_>,
                ReportDataResp {
                    subscription_id: *sub,
                    attr_reports: arr_a,
                    event_reports: arr_e,
                    more_chunks: *more,
                    suppress_response: *suppress,
                    interaction_model_revision: *imr
                },
                tag,
                |a: &ReportDataResp<'_>, b: &ReportDataResp<'_>| a.subscription_id == b.subscription_id
                    && opt_array_eq(&a.attr_reports, &b.attr_reports, attr_resp_eq)
                    && opt_array_eq(&a.event_reports, &b.event_reports, event_resp_eq)
                    && a.more_chunks == b.more_chunks
                    && a.suppress_response == b.suppress_response
                    && a.interaction_model_revision == b.interaction_model_revision,
                true
            )
        }
        Wire::InvokeResp {
            suppress,
            resps,
            more,
            imr,
        } => {
            let rv: Option<Vec<CmdResp<'_>>> =
                resps.as_ref().map(|v| v.iter().map(|r| b_cmd_resp(r, arena)).collect());
            let rb = match rv.as_ref().map(|v| to_tlv_vec(&v.as_slice(), &TLVTag::Anonymous)).transpose() {
                Ok(b) => b,
                Err(e) => return Case::fail("struct:to_tlv-error:[CmdResp]", format!("{e:?}")),
            };
            let arr = match rb.as_ref().map(|b| TLVArray::new(TLVElement::new(b))).transpose() {
                Ok(a) => a,
                Err(_) => return Case::fail("struct:array-new-error", "TLVArray::new rejected an encoded slice"),
            };
            roundtrip!(
                "InvokeResp",
                InvokeResp<'_>,
                InvokeResp {
                    suppress_response: *suppress,
                    invoke_responses: arr,
                    more_chunks: *more,
                    interaction_model_revision: *imr
                },
                tag,
                |a: &InvokeResp<'_>, b: &InvokeResp<'_>| a.suppress_response == b.suppress_response
                    && opt_array_eq(&a.invoke_responses, &b.invoke_responses, cmd_resp_eq)
                    && a.more_chunks == b.more_chunks
                    && a.interaction_model_revision == b.interaction_model_revision,
                true
            )
        }
        Wire::WriteResp(statuses, imr) => {
            let sv: Vec<AttrStatus> = statuses
                .iter()
                .map(|(p, s)| AttrStatus {
                    path: b_attr_path(p),
                    status: b_status(s),
                })
                .collect();
            let sb = match to_tlv_vec(&sv.as_slice(), &TLVTag::Anonymous) {
                Ok(b) => b,
                Err(e) => return Case::fail("struct:to_tlv-error:[AttrStatus]", format!("{e:?}")),
            };
            let arr = match TLVArray::new(TLVElement::new(&sb)) {
                Ok(a) => a,
                Err(_) => return Case::fail("struct:array-new-error", "TLVArray::new rejected an encoded slice"),
            };
            roundtrip!(
                "WriteResp",
                WriteResp<'_>,
                WriteResp {
                    write_responses: arr,
                    interaction_model_revision: *imr
                },
                tag,
                |a: &WriteResp<'_>, b: &WriteResp<'_>| array_eq(
                    &a.write_responses,
                    &b.write_responses,
                    |x: &AttrStatus, y: &AttrStatus| x == y
                ) && a.interaction_model_revision == b.interaction_model_revision,
                true
            )
        }
        Wire::Target(p) => roundtrip!("Target", Target, b_target(p), tag, |a, b| a == b, false),
        Wire::Acl(p) => {
            let e = match b_acl(p) {
                Ok(e) => e,
                Err(err) => return Case::inconclusive(format!("harness: AclEntry builder refused: {err:?}")),
            };
            roundtrip!("AclEntry", AclEntry, e, tag, |a, b| a == b, false)
        }
        Wire::Resumable {
            fab,
            node,
            cats,
            rid,
            secret,
        } => roundtrip!(
            "ResumableSession",
            ResumableSession,
            ResumableSession {
                fab_idx: NonZeroU8::new((*fab).max(1)).unwrap(),
                peer_nodeid: *node,
                peer_cat_ids: [
                    cats.first().copied().unwrap_or(0),
                    cats.get(1).copied().unwrap_or(0),
                    cats.get(2).copied().unwrap_or(0)
                ],
                resumption_id: sens(rid),
                shared_secret: sens(secret)
            },
            tag,
            |a: &ResumableSession, b: &ResumableSession| a.fab_idx == b.fab_idx
                && a.peer_nodeid == b.peer_nodeid
                && a.peer_cat_ids == b.peer_cat_ids
                && a.resumption_id.access() == b.resumption_id.access()
                && a.shared_secret.access() == b.shared_secret.access(),
            false
        ),
        Wire::SessionParams(f) => check_session_params(f, &tag),
        Wire::KeySet(a, b) => roundtrip!(
            "KeySet",
            KeySet,
            KeySet {
                epoch_key: sens(a),
                op_key: sens(b)
            },
            tag,
            |a: &KeySet, b: &KeySet| a.epoch_key.access() == b.epoch_key.access()
                && a.op_key.access() == b.op_key.access(),
            false
        ),
        Wire::GroupKeySet(p) => roundtrip!(
            "GroupKeySet",
            GroupKeySet,
            b_group_key_set(p),
            tag,
            group_key_set_eq,
            false
        ),
        Wire::GroupKeyMapping(a, b) => roundtrip!(
            "GroupKeyMapping",
            GroupKeyMapping,
            GroupKeyMapping {
                group_id: *a,
                group_key_set_id: *b
            },
            tag,
            |a: &GroupKeyMapping, b: &GroupKeyMapping| a.group_id == b.group_id
                && a.group_key_set_id == b.group_key_set_id,
            false
        ),
        Wire::GroupEndpoints(p) => match b_group_endpoints(p) {
            Some(g) => roundtrip!(
                "GroupEndpointMapping",
                GroupEndpointMapping,
                g,
                tag,
                group_endpoints_eq,
                false
            ),
            None => Case::inconclusive("harness: group name too long"),
        },
        Wire::Fabric(p) => check_fabric_blob(p, &tag),
    }
}

fn check_session_params(f: &sc_verif::SessionParametersFields, tag: &TLVTag) -> Case {
    let mut w = VecWriter(Vec::new());
    if let Err(e) = sc_verif::session_parameters_to_tlv(f, tag, &mut w) {
        return Case::fail("struct:to_tlv-error:SessionParameters", format!("{f:?}: {e:?}"));
    }
    let b1 = w.0;
    let mut it = Vec::new();
    let mut it_err = false;
    sc_verif::session_parameters_tlv_iter_bytes(f, tag.clone(), &mut |b| match b {
        Ok(b) => it.push(b),
        Err(_) => it_err = true,
    });
    if it_err || it != b1 {
        return Case::fail(
            "struct:tlv_iter-differs:SessionParameters",
            format!("{f:?}: to_tlv {} tlv_iter {}", short_hex(&b1), short_hex(&it)),
        );
    }
    match sc_verif::session_parameters_from_tlv(&TLVElement::new(&b1)) {
        Ok(g) if g == *f => {}
        other => {
            return Case::fail(
                "struct:decoded-differs:SessionParameters",
                format!("{f:?} encoded as {} decodes to {other:?}", short_hex(&b1)),
            )
        }
    }
    Case::pass(true).label("SessionParameters")
}

// ---------------------------------------------------------------------------------------------
// Fabric blob: reference encoding of the persisted structure (fields in declaration order
// under context tags 0.., `groups` under 13 and the VID verification statement under 14;
// integers in their smallest width; `Vec<u8, N>` as an array of unsigned integers; `Option`
// absent when `None`; `Nullable` as null)
// ---------------------------------------------------------------------------------------------

fn ctag(t: Option<u8>) -> MTag {
    t.map(MTag::Ctx).unwrap_or(MTag::Anon)
}

fn r_u(t: Option<u8>, v: u64) -> MNode {
    node_from(ctag(t), MVal::U(min_uint_width(v), v), 0)
}

fn r_bool(t: Option<u8>, v: bool) -> MNode {
    node_from(ctag(t), MVal::Bool(v), 0)
}

fn r_bytes(t: Option<u8>, b: &[u8]) -> MNode {
    node_from(ctag(t), MVal::Bytes(min_len_width(b.len()), Payload::Lit(b.to_vec())), 0)
}

fn r_utf8(t: Option<u8>, s: &str) -> MNode {
    node_from(ctag(t), MVal::Utf8(min_len_width(s.len()), Text::Lit(s.to_string())), 0)
}

fn r_struct(t: Option<u8>, c: Vec<MNode>) -> MNode {
    node_from(ctag(t), MVal::Struct(c), 0)
}

fn r_array(t: Option<u8>, c: Vec<MNode>) -> MNode {
    node_from(ctag(t), MVal::Array(c), 0)
}

fn r_u8_array(t: Option<u8>, b: &[u8]) -> MNode {
    r_array(t, b.iter().map(|v| r_u(None, *v as u64)).collect())
}

fn r_acl(p: &PAcl) -> MNode {
    let mut c = vec![
        r_u(Some(1), PRIVILEGE_ENUM[p.privilege as usize % 5]),
        r_u(Some(2), (p.auth % 3) as u64 + 1),
    ];
    c.push(match &p.subjects {
        None => node_from(MTag::Ctx(3), MVal::Null, 0),
        Some(s) => r_array(Some(3), s.iter().map(|v| r_u(None, *v)).collect()),
    });
    c.push(match &p.targets {
        None => node_from(MTag::Ctx(4), MVal::Null, 0),
        Some(ts) => r_array(
            Some(4),
            ts.iter()
                .map(|t| {
                    let mut f = Vec::new();
                    if let Some(v) = t.cl {
                        f.push(r_u(Some(0), v as u64));
                    }
                    if let Some(v) = t.ep {
                        f.push(r_u(Some(1), v as u64));
                    }
                    if let Some(v) = t.dt {
                        f.push(r_u(Some(2), v as u64));
                    }
                    r_struct(None, f)
                })
                .collect(),
        ),
    });
    if let Some(f) = p.fab {
        c.push(r_u(Some(0xfe), f as u64));
    }
    r_struct(None, c)
}

fn r_fabric(p: &PFabric, tag: MTag) -> MNode {
    let mut c = vec![
        r_u(Some(0), p.fab_idx as u64),
        r_u(Some(1), p.node_id),
        r_u(Some(2), p.fabric_id),
        r_u(Some(3), p.vendor_id as u64),
        r_u(Some(4), p.compressed),
        r_bytes(Some(5), &p.secret),
        r_u8_array(Some(6), &p.root_ca),
        r_u8_array(Some(7), &p.icac),
        r_bool(Some(8), p.vvsc_set),
        r_u8_array(Some(9), &p.noc),
        r_struct(Some(10), vec![r_bytes(Some(0), &p.ipk_epoch), r_bytes(Some(1), &p.ipk_op)]),
        r_utf8(Some(11), &p.label),
        r_array(Some(12), p.acl.iter().map(r_acl).collect()),
    ];
    if let Some((sets, map, eps)) = &p.groups {
        c.push(r_struct(
            Some(13),
            vec![
                r_array(
                    Some(0),
                    sets.iter()
                        .map(|s| {
                            r_struct(
                                None,
                                vec![
                                    r_u(Some(0), s.id as u64),
                                    r_u(Some(1), s.policy as u64),
                                    r_array(
                                        Some(2),
                                        s.keys
                                            .iter()
                                            .map(|k| {
                                                r_struct(
                                                    None,
                                                    vec![r_bytes(Some(0), &k.key), r_u(Some(1), k.start)],
                                                )
                                            })
                                            .collect(),
                                    ),
                                ],
                            )
                        })
                        .collect(),
                ),
                r_array(
                    Some(1),
                    map.iter()
                        .map(|(g, k)| r_struct(None, vec![r_u(Some(0), *g as u64), r_u(Some(1), *k as u64)]))
                        .collect(),
                ),
                r_array(
                    Some(2),
                    eps.iter()
                        .map(|e| {
                            let mut f = vec![
                                r_u(Some(0), e.gid as u64),
                                r_array(Some(1), e.eps.iter().map(|v| r_u(None, *v as u64)).collect()),
                                r_utf8(Some(2), &e.name),
                            ];
                            if let Some(a) = e.aux {
                                f.push(r_bool(Some(3), a));
                            }
                            if let Some(p) = e.policy {
                                f.push(r_u(Some(4), (p % 2) as u64));
                            }
                            r_struct(None, f)
                        })
                        .collect(),
                ),
            ],
        ));
    }
    c.push(r_u8_array(Some(14), &p.vvs));
    node_from(tag, MVal::Struct(c), 0)
}

fn check_fabric_blob(p: &PFabric, tag: &TLVTag) -> Case {
    let mut blob = Vec::new();
    ref_encode(&r_fabric(p, model_tag(tag)), &mut blob, &mut Vec::new());
    let blob = &blob;
    multi(vec![
        (
            "from_tlv/to_tlv",
            Box::new(move || {
                let f = match Fabric::from_tlv(&TLVElement::new(blob)) {
                    Ok(f) => f,
                    Err(e) => {
                        return Case::fail(
                            "struct:from_tlv-error:Fabric",
                            format!("blob {} of {} does not decode: {e:?}", short_hex(blob), short_dbg(p)),
                        )
                    }
                };
                let acl_ok = f.acl_iter().count() == p.acl.len()
                    && f.acl_iter().zip(p.acl.iter()).all(|(a, pa)| {
                        let subj: Option<&[u64]> = a.subjects().into_option();
                        let targ: Option<&[Target]> = a.targets().into_option();
                        a.auth_mode() == AUTH_MODES[pa.auth as usize % 3]
                            && subj.map(|s| s.to_vec()) == pa.subjects
                            && targ.map(|t| t.to_vec())
                                == pa.targets.as_ref().map(|t| t.iter().map(b_target).collect::<Vec<_>>())
                            && a.fab_idx == pa.fab.and_then(NonZeroU8::new)
                    });
                let (ic, vv): (&[u8], &[u8]) = if p.vvsc_set { (&[], &p.icac) } else { (&p.icac, &[]) };
                let mut same = f.fab_idx().get() == p.fab_idx
                    && f.node_id() == p.node_id
                    && f.fabric_id() == p.fabric_id
                    && f.vendor_id() == p.vendor_id
                    && f.compressed_fabric_id() == p.compressed
                    && f.secret_key().access().as_slice() == p.secret.as_slice()
                    && f.root_ca() == p.root_ca.as_slice()
                    && f.icac() == ic
                    && f.vvsc() == vv
                    && f.noc() == p.noc.as_slice()
                    && f.ipk().epoch_key.access().as_slice() == p.ipk_epoch.as_slice()
                    && f.ipk().op_key.access().as_slice() == p.ipk_op.as_slice()
                    && f.label() == p.label
                    && f.vid_verification_statement() == p.vvs.as_slice()
                    && acl_ok;
                let g = f.groups();
                match &p.groups {
                    None => {
                        same &= g.key_set_iter().count() == 0 && g.key_map_iter().count() == 0 && g.iter().count() == 0
                    }
                    Some((sets, map, eps)) => {
                        same &= g.key_set_iter().count() == sets.len()
                            && g.key_set_iter()
                                .zip(sets.iter())
                                .all(|(a, b)| group_key_set_eq(a, &b_group_key_set(b)));
                        same &= g.key_map_iter().count() == map.len()
                            && g.key_map_iter()
                                .zip(map.iter())
                                .all(|(a, b)| a.group_id == b.0 && a.group_key_set_id == b.1);
                        same &= g.iter().count() == eps.len()
                            && g.iter().zip(eps.iter()).all(|(a, b)| {
                                b_group_endpoints(b).map(|b| group_endpoints_eq(a, &b)).unwrap_or(false)
                            });
                    }
                }
                if !same {
                    return Case::fail(
                        "struct:decoded-differs:Fabric",
                        format!("blob of {} decodes to {}", short_dbg(p), short_dbg(&f)),
                    );
                }
                // re-encoding: identical bytes, except that a blob without `groups` gains the
                // (empty) groups structure
                let mut want = Vec::new();
                let mut q = p.clone();
                q.groups.get_or_insert_with(Default::default);
                ref_encode(&r_fabric(&q, model_tag(tag)), &mut want, &mut Vec::new());
                match to_tlv_vec(&f, tag) {
                    Ok(b) if b == want => {}
                    other => {
                        return Case::fail(
                            "struct:reencode-differs:Fabric",
                            format!(
                                "blob {} re-encoded as {:?}",
                                short_hex(&want),
                                other.map(|b| short_hex(&b))
                            ),
                        )
                    }
                }
                match tlv_iter_vec(&f, tag.clone()) {
                    Ok(b) if b == want => {}
                    other => {
                        return Case::fail(
                            "struct:tlv_iter-differs:Fabric",
                            format!(
                                "blob {} tlv_iter gives {:?}",
                                short_hex(&want),
                                other.map(|b| short_hex(&b))
                            ),
                        )
                    }
                }
                Case::pass(true)
            }),
        ),
    ])
    .label("Fabric")
}

// ---------------------------------------------------------------------------------------------
// Hostile bytes: the reusable oracle
// ---------------------------------------------------------------------------------------------

type Probe = fn(&[u8]) -> Result<(), String>;

/// The independent parts of the hostile-bytes oracle. Each returns `Err("<signature>: <detail>")`
/// when an oracle is violated; a panic of rs-matter propagates to the caller.
const PROBES: &[(&str, Probe)] = &[
    ("walk", probe_walk),
    ("display", probe_display),
    ("reencode", probe_reencode),
    ("reencode-iter", probe_reencode_iter),
    ("lazy-containers", probe_lazy_containers),
    ("im-structs", probe_im_structs),
    ("im-messages", probe_im_messages),
    ("stored-structs", probe_stored_structs),
];

/// Oracle for arbitrary bytes handed to the TLV reader: every public accessor, iterator,
/// formatter and `FromTLV` implementation returns (no panic, no arithmetic overflow, no
/// out-of-range access), iteration is bounded by the input length, every returned slice lies
/// inside the input, typed getters agree with `value()`, a successful re-encoding reproduces
/// the input bytes and decoded structures re-encode idempotently.
pub fn tlv_bytes_oracle(data: &[u8]) -> Result<(), String> {
    for (_, p) in PROBES {
        p(data)?;
    }
    Ok(())
}

fn inside(data: &[u8], s: &[u8], what: &str) -> Result<(), String> {
    if within(data, s) {
        Ok(())
    } else {
        Err(format!(
            "out-of-input:{what}: a slice of {} bytes outside the {}-byte input was returned",
            s.len(),
            data.len()
        ))
    }
}

fn disagree(what: &str, e: &TLVElement<'_>, detail: String) -> String {
    format!(
        "getter-disagrees:{what}: {detail}; element bytes {}",
        short_hex(e.raw_data())
    )
}

/// Every accessor of one element.
fn accessors(data: &[u8], e: &TLVElement<'_>) -> Result<(), String> {
    let _ = e.is_empty();
    let _ = e.non_empty();
    inside(data, e.raw_data(), "raw_data")?;
    let ctl = e.control();
    if let Ok(v) = e.raw_value() {
        inside(data, v, "raw_value")?;
        if v.len() > e.raw_data().len() {
            return Err(format!(
                "length-outside-input:raw_value: value of {} bytes reported for an element that has {} bytes",
                v.len(),
                e.raw_data().len()
            ));
        }
    }
    let tag = e.tag();
    let val = e.value();
    let _ = e.tlv();
    if let (Ok(c), Ok(t)) = (&ctl, &tag) {
        if t.tag_type() != c.tag_type {
            return Err(disagree("tag", e, format!("tag() {t:?} vs control {c:?}")));
        }
    }
    if let (Ok(c), Ok(v)) = (&ctl, &val) {
        if v.value_type() != c.value_type {
            return Err(disagree("value", e, format!("value() type {:?} vs control {c:?}", v.value_type())));
        }
    }
    if let Ok(v) = &val {
        match v {
            TLVValue::Utf8l(s) | TLVValue::Utf16l(s) | TLVValue::Utf32l(s) | TLVValue::Utf64l(s) => {
                inside(data, s.as_bytes(), "value.utf8")?
            }
            TLVValue::Str8l(b) | TLVValue::Str16l(b) | TLVValue::Str32l(b) | TLVValue::Str64l(b) => {
                inside(data, b, "value.str")?
            }
            _ => {}
        }
    }
    // typed getters agree with value()
    let as_signed = |v: &TLVValue<'_>| match v {
        TLVValue::S8(x) => Some(*x as i64),
        TLVValue::S16(x) => Some(*x as i64),
        TLVValue::S32(x) => Some(*x as i64),
        TLVValue::S64(x) => Some(*x),
        _ => None,
    };
    let as_unsigned = |v: &TLVValue<'_>| match v {
        TLVValue::U8(x) => Some(*x as u64),
        TLVValue::U16(x) => Some(*x as u64),
        TLVValue::U32(x) => Some(*x as u64),
        TLVValue::U64(x) => Some(*x),
        _ => None,
    };
    let sv = val.as_ref().ok().and_then(as_signed);
    let uv = val.as_ref().ok().and_then(as_unsigned);
    for (name, got) in [
        ("i8", e.i8().ok().map(|v| v as i64)),
        ("i16", e.i16().ok().map(|v| v as i64)),
        ("i32", e.i32().ok().map(|v| v as i64)),
        ("i64", e.i64().ok()),
    ] {
        if let Some(g) = got {
            if sv != Some(g) {
                return Err(disagree(name, e, format!("{name}() = {g} but value() = {val:?}")));
            }
        }
    }
    for (name, got) in [
        ("u8", e.u8().ok().map(|v| v as u64)),
        ("u16", e.u16().ok().map(|v| v as u64)),
        ("u32", e.u32().ok().map(|v| v as u64)),
        ("u64", e.u64().ok()),
    ] {
        if let Some(g) = got {
            if uv != Some(g) {
                return Err(disagree(name, e, format!("{name}() = {g} but value() = {val:?}")));
            }
        }
    }
    if let Ok(f) = e.f32() {
        if !matches!(&val, Ok(TLVValue::F32(v)) if v.to_bits() == f.to_bits()) {
            return Err(disagree("f32", e, format!("f32() = {f} but value() = {val:?}")));
        }
    }
    if let Ok(f) = e.f64() {
        if !matches!(&val, Ok(TLVValue::F64(v)) if v.to_bits() == f.to_bits()) {
            return Err(disagree("f64", e, format!("f64() = {f} but value() = {val:?}")));
        }
    }
    if let Ok(b) = e.bool() {
        let want = if b { TLVValueType::True } else { TLVValueType::False };
        if !matches!(&ctl, Ok(c) if c.value_type == want) {
            return Err(disagree("bool", e, format!("bool() = {b} but control = {ctl:?}")));
        }
    }
    if e.null().is_ok() && !matches!(&ctl, Ok(c) if c.value_type == TLVValueType::Null) {
        return Err(disagree("null", e, format!("null() is Ok but control = {ctl:?}")));
    }
    if let Ok(b) = e.str() {
        inside(data, b, "str")?;
        let same = match &val {
            Ok(TLVValue::Str8l(v) | TLVValue::Str16l(v) | TLVValue::Str32l(v) | TLVValue::Str64l(v)) => *v == b,
            _ => false,
        };
        if !same {
            return Err(disagree("str", e, format!("str() gives {} bytes but value() = {val:?}", b.len())));
        }
    }
    if let Ok(s) = e.utf8() {
        inside(data, s.as_bytes(), "utf8")?;
        let same = match &val {
            Ok(TLVValue::Utf8l(v) | TLVValue::Utf16l(v) | TLVValue::Utf32l(v) | TLVValue::Utf64l(v)) => *v == s,
            _ => false,
        };
        if !same {
            return Err(disagree("utf8", e, format!("utf8() gives {} bytes but value() = {val:?}", s.len())));
        }
    }
    if let Ok(b) = e.octets() {
        inside(data, b, "octets")?;
        if !matches!(&ctl, Ok(c) if c.value_type.is_str() || c.value_type.is_utf8()) {
            return Err(disagree("octets", e, format!("octets() is Ok but control = {ctl:?}")));
        }
    }
    let _ = e.is_container();
    let _ = e.confirm_anon();
    let _ = e.ctx();
    if let Ok(Some(c)) = e.try_ctx() {
        if !matches!(&tag, Ok(TLVTag::Context(t)) if *t == c) {
            return Err(disagree("try_ctx", e, format!("try_ctx() = {c} but tag() = {tag:?}")));
        }
    }
    for (name, seq) in [
        ("structure", e.structure()),
        ("struct", e.r#struct()),
        ("array", e.array()),
        ("list", e.list()),
        ("container", e.container()),
    ] {
        if let Ok(seq) = seq {
            if let Ok(v) = seq.raw_value() {
                inside(data, v, name)?;
            }
        }
    }
    let _ = e.read::<u8>(0);
    let _ = e.read_opt::<u64>(1);
    Ok(())
}

/// Iterate a sequence to its end (or first error); the number of items is bounded by the number
/// of bytes the sequence can possibly span.
fn iterate<'a>(
    data: &[u8],
    parent: &TLVElement<'a>,
    seq: &TLVSequence<'a>,
    out: &mut Vec<TLVElement<'a>>,
) -> Result<(), String> {
    let limit = parent.raw_data().len() + 1;
    let mut n = 0usize;
    for m in seq.iter() {
        n += 1;
        if n > limit {
            return Err(format!(
                "iteration-unbounded:iter: more than {limit} members in a container of {} bytes",
                parent.raw_data().len()
            ));
        }
        match m {
            Ok(m) => {
                inside(data, m.raw_data(), "member.raw_data")?;
                if m.raw_data().len() >= parent.raw_data().len() {
                    return Err(format!(
                        "member-not-inside-parent:iter: member slice of {} bytes in a parent of {} bytes",
                        m.raw_data().len(),
                        parent.raw_data().len()
                    ));
                }
                out.push(m);
            }
            // keep pulling: a consumer that skips errors must come to an end too
            Err(_) => continue,
        }
    }
    let mut n = 0usize;
    for t in seq.tlv_iter() {
        n += 1;
        if n > limit {
            return Err(format!(
                "iteration-unbounded:tlv_iter: more than {limit} items in a container of {} bytes",
                parent.raw_data().len()
            ));
        }
        if t.is_err() {
            // keep pulling: a consumer that skips errors must come to an end too
            continue;
        }
    }
    Ok(())
}

fn probe_walk(data: &[u8]) -> Result<(), String> {
    // (element, remaining depth budget is implied by strictly shrinking slices)
    let mut work = vec![TLVElement::new(data)];
    let mut visited = 0usize;
    while let Some(e) = work.pop() {
        visited += 1;
        if visited > 4096 {
            break;
        }
        accessors(data, &e)?;
        if let Ok(seq) = e.container() {
            let mut members = Vec::new();
            iterate(data, &e, &seq, &mut members)?;
            let mut probes = vec![0u8, 1, 2, 0xfe, 0xff];
            if let Some(Ok(Some(c))) = members.first().map(|m| m.try_ctx()) {
                probes.push(c);
            }
            if let Some(Ok(Some(c))) = members.last().map(|m| m.try_ctx()) {
                probes.push(c.wrapping_add(1));
                probes.push(c);
            }
            for k in probes {
                if let Ok(f) = seq.find_ctx(k) {
                    inside(data, f.raw_data(), "find_ctx")?;
                    if !f.is_empty() && !matches!(f.try_ctx(), Ok(Some(c)) if c == k) {
                        return Err(format!(
                            "getter-disagrees:find_ctx: find_ctx({k}) returned an element tagged {:?}",
                            f.tag()
                        ));
                    }
                }
                let _ = seq.ctx(k);
                let mut s = seq.clone();
                if let Ok(f) = s.scan_ctx(k) {
                    inside(data, f.raw_data(), "scan_ctx")?;
                }
                let _ = s.scan_ctx(k.wrapping_add(1));
            }
            let mut sink = Sink::for_input(data.len());
            let _ = write!(sink, "{seq}");
            sink.check("Display(TLVSequence)")?;
            work.extend(members);
        }
    }
    Ok(())
}

fn probe_display(data: &[u8]) -> Result<(), String> {
    let e = TLVElement::new(data);
    let mut sink = Sink::for_input(data.len());
    let _ = write!(sink, "{e}");
    sink.check("Display(TLVElement)")?;
    let _ = write!(sink, "{e:?}");
    sink.check("Debug(TLVElement)")?;
    if let Ok(c) = e.control() {
        let _ = write!(sink, "{c}");
    }
    if let Ok(t) = e.tlv() {
        let _ = write!(sink, "{} {} {:?}", t.tag, t.value, t);
    }
    let _ = rs_matter::tlv::get_root_node_struct(data).map(|r| write!(sink, "{r}"));
    sink.check("Display")?;
    Ok(())
}

/// `TLVElement::to_tlv` with the element's own tag, when it succeeds, reproduces the bytes of
/// the element (which are the first bytes of its slice).
fn probe_reencode(data: &[u8]) -> Result<(), String> {
    let e = TLVElement::new(data);
    let Ok(tag) = e.tag() else {
        let _ = to_tlv_vec(&e, &TLVTag::Anonymous);
        return Ok(());
    };
    if let Ok(out) = to_tlv_vec(&e, &tag) {
        if !data.starts_with(&out) {
            return Err(format!(
                "reencode-differs:to_tlv: input {} re-encoded as {}",
                short_hex(data),
                short_hex(&out)
            ));
        }
    }
    let _ = to_tlv_vec(&e, &TLVTag::Context(1));
    Ok(())
}

fn probe_reencode_iter(data: &[u8]) -> Result<(), String> {
    let e = TLVElement::new(data);
    let tag = e.tag().unwrap_or(TLVTag::Anonymous);
    let mut out = Vec::new();
    let limit = 2 * data.len() + 4;
    let mut n = 0usize;
    let mut ok = true;
    for t in e.tlv_iter(tag) {
        n += 1;
        if n > limit {
            return Err(format!(
                "iteration-unbounded:element.tlv_iter: more than {limit} items for {} bytes",
                data.len()
            ));
        }
        match t {
            Ok(t) => out.extend(t.bytes_iter()),
            Err(_) => {
                // keep pulling: a consumer that skips errors must come to an end too
                ok = false;
                continue;
            }
        }
    }
    if ok && n > 0 && e.tag().is_ok() && !data.starts_with(&out) {
        let ty = e
            .control()
            .map(|c| {
                if c.value_type.is_container_start() {
                    "container".to_string()
                } else {
                    format!("{}", c.value_type)
                }
            })
            .unwrap_or_default();
        return Err(format!(
            "reencode-differs:tlv_iter:{ty}: input {} re-encoded as {}",
            short_hex(data),
            short_hex(&out)
        ));
    }
    Ok(())
}

/// Lazily decoded containers: `FromTLV` for `TLVContainer` and its iteration.
fn probe_lazy_containers(data: &[u8]) -> Result<(), String> {
    let e = TLVElement::new(data);
    let limit = data.len() + 1;
    fn drain<T>(what: &str, it: impl Iterator<Item = Result<T, Error>>, limit: usize) -> Result<(), String> {
        let mut n = 0;
        for m in it {
            n += 1;
            if n > limit {
                return Err(format!("iteration-unbounded:{what}: more than {limit} items"));
            }
            if m.is_err() {
                // keep pulling: a consumer that skips errors must come to an end too
                continue;
            }
        }
        Ok(())
    }
    if let Ok(a) = TLVArray::<TLVElement<'_>>::new(e.clone()) {
        if !e.is_empty() {
            drain("TLVArray::new", a.iter(), limit)?;
        }
    }
    if let Ok(a) = TLVContainer::<u64, ()>::new(e.clone()) {
        if !e.is_empty() {
            drain("TLVContainer::new", a.iter(), limit)?;
        }
    }
    if let Ok(a) = <[u32; 3]>::from_tlv(&e) {
        let _ = a;
    }
    let _ = rs_matter::utils::storage::Vec::<u8, 8>::from_tlv(&e);
    let _ = Octets::from_tlv(&e).map(|o| inside(data, o.0, "Octets")).unwrap_or(Ok(()))?;
    let _ = <&str>::from_tlv(&e);
    let _ = Nullable::<u16>::from_tlv(&e);
    let _ = Option::<u16>::from_tlv(&e);
    // the unchecked path every derived structure with a `TLVArray` field uses (`FromTLV` for
    // `TLVContainer` accepts any element; on a non-container `iter()` is known to panic, which
    // the message probes below exhibit on realistic shapes — here only containers are iterated
    // so that this one finding does not mask every other input)
    if let (Ok(a), true) = (TLVArray::<u8>::from_tlv(&e), e.container().is_ok()) {
        drain("TLVArray::from_tlv", a.iter(), limit)?;
        let mut sink = Sink::for_input(data.len());
        let _ = write!(sink, "{a:?}");
        sink.check("Debug(TLVContainer)")?;
    }
    Ok(())
}

/// Decode `$ty` from the element; when that succeeds: `Debug`, re-encode, decode the re-encoding
/// and re-encode again — the second encoding must equal the first.
macro_rules! decode_probe {
    ($name:expr, $ty:ty, $e:expr) => {{
        if let Ok(v) = <$ty>::from_tlv($e) {
            let mut sink = Sink::for_input($e.raw_data().len());
            let _ = write!(sink, "{v:?}");
            sink.check(concat!("Debug(", stringify!($ty), ")"))?;
            if let Ok(w) = to_tlv_vec(&v, &TLVTag::Anonymous) {
                match <$ty>::from_tlv(&TLVElement::new(&w)) {
                    Ok(v2) => match to_tlv_vec(&v2, &TLVTag::Anonymous) {
                        Ok(w2) if w2 == w => {}
                        other => {
                            return Err(format!(
                                "struct-not-idempotent:{}: {} re-encodes as {} and then as {:?}",
                                $name,
                                short_hex($e.raw_data()),
                                short_hex(&w),
                                other.map(|b| short_hex(&b))
                            ))
                        }
                    },
                    Err(err) => {
                        return Err(format!(
                            "struct-not-idempotent:{}: {} decodes, re-encodes as {} which does not decode: {err:?}",
                            $name,
                            short_hex($e.raw_data()),
                            short_hex(&w)
                        ))
                    }
                }
            }
            let _ = tlv_iter_vec(&v, TLVTag::Anonymous);
            Some(v)
        } else {
            None
        }
    }};
}

fn drain_array<'a, T: FromTLV<'a> + std::fmt::Debug>(
    what: &str,
    a: Result<Option<TLVArray<'a, T>>, Error>,
    limit: usize,
) -> Result<(), String> {
    if let Ok(Some(a)) = a {
        let mut n = 0;
        let mut sink = Sink::for_input(limit);
        for m in a.iter() {
            n += 1;
            if n > limit {
                return Err(format!("iteration-unbounded:{what}: more than {limit} items"));
            }
            match m {
                Ok(m) => {
                    let _ = write!(sink, "{m:?}");
                    sink.check("Debug(array item)")?;
                }
                // keep pulling: a consumer that skips errors must come to an end too
                Err(_) => continue,
            }
        }
    }
    Ok(())
}

fn probe_im_structs(data: &[u8]) -> Result<(), String> {
    let e = &TLVElement::new(data);
    decode_probe!("AttrPath", AttrPath, e);
    decode_probe!("ClusterPath", ClusterPath, e);
    decode_probe!("DataVersionFilter", DataVersionFilter, e);
    decode_probe!("Status", Status, e);
    decode_probe!("AttrStatus", AttrStatus, e);
    decode_probe!("AttrData", AttrData<'_>, e);
    decode_probe!("AttrResp", AttrResp<'_>, e);
    decode_probe!("CmdPath", CmdPath, e);
    decode_probe!("CmdStatus", CmdStatus, e);
    decode_probe!("CmdData", CmdData<'_>, e);
    decode_probe!("CmdResp", CmdResp<'_>, e);
    decode_probe!("EventFilter", EventFilter, e);
    decode_probe!("EventPath", EventPath, e);
    decode_probe!("EventStatus", EventStatus, e);
    decode_probe!("EventData", EventData<'_>, e);
    decode_probe!("EventResp", EventResp<'_>, e);
    decode_probe!("StatusResp", StatusResp, e);
    decode_probe!("TimedReq", TimedReq, e);
    decode_probe!("SubscribeResp", SubscribeResp, e);
    let _ = IMStatusCode::from_tlv(e);
    let _ = EventPriority::from_tlv(e);
    Ok(())
}

fn probe_im_messages(data: &[u8]) -> Result<(), String> {
    let e = &TLVElement::new(data);
    let limit = data.len() + 1;
    let mut sink = Sink::for_input(data.len());
    if let Some(r) = decode_probe!("ReportDataResp", ReportDataResp<'_>, e) {
        drain_array("ReportDataResp.attr_reports", Ok(r.attr_reports.clone()), limit)?;
        drain_array("ReportDataResp.event_reports", Ok(r.event_reports.clone()), limit)?;
    }
    if let Some(r) = decode_probe!("InvokeResp", InvokeResp<'_>, e) {
        drain_array("InvokeResp.invoke_responses", Ok(r.invoke_responses.clone()), limit)?;
    }
    if let Some(r) = decode_probe!("WriteResp", WriteResp<'_>, e) {
        drain_array("WriteResp.write_responses", Ok(Some(r.write_responses.clone())), limit)?;
    }
    if let Ok(r) = ReadReq::from_tlv(e) {
        drain_array("ReadReq.attr_requests", r.attr_requests(), limit)?;
        drain_array("ReadReq.event_requests", r.event_requests(), limit)?;
        drain_array("ReadReq.event_filters", r.event_filters(), limit)?;
        drain_array("ReadReq.dataver_filters", r.dataver_filters(), limit)?;
        let _ = r.fabric_filtered();
        let _ = write!(sink, "{r:?}");
        sink.check("Debug(request message)")?;
    }
    if let Ok(r) = WriteReq::from_tlv(e) {
        drain_array("WriteReq.write_requests", r.write_requests().map(Some), limit)?;
        let _ = (r.supress_response(), r.timed_request(), r.more_chunks());
        let _ = write!(sink, "{r:?}");
        sink.check("Debug(request message)")?;
    }
    if let Ok(r) = SubscribeReq::from_tlv(e) {
        drain_array("SubscribeReq.attr_requests", r.attr_requests(), limit)?;
        drain_array("SubscribeReq.event_requests", r.event_requests(), limit)?;
        drain_array("SubscribeReq.event_filters", r.event_filters(), limit)?;
        drain_array("SubscribeReq.dataver_filters", r.dataver_filters(), limit)?;
        let _ = (r.keep_subs(), r.min_int_floor(), r.max_int_ceil(), r.fabric_filtered());
        let _ = write!(sink, "{r:?}");
        sink.check("Debug(request message)")?;
    }
    if let Ok(r) = InvReq::from_tlv(e) {
        drain_array("InvReq.inv_requests", r.inv_requests(), limit)?;
        let _ = (r.suppress_response(), r.timed_request());
        let _ = write!(sink, "{r:?}");
        sink.check("Debug(request message)")?;
    }
    Ok(())
}

fn probe_stored_structs(data: &[u8]) -> Result<(), String> {
    let e = &TLVElement::new(data);
    decode_probe!("Target", Target, e);
    decode_probe!("AclEntry", AclEntry, e);
    decode_probe!("ResumableSession", ResumableSession, e);
    decode_probe!("KeySet", KeySet, e);
    decode_probe!("GroupKeySet", GroupKeySet, e);
    decode_probe!("GroupKeyMapping", GroupKeyMapping, e);
    decode_probe!("GroupEndpointMapping", GroupEndpointMapping, e);
    decode_probe!("Fabric", Fabric, e);
    let _ = sc_verif::session_parameters_from_tlv(e);
    Ok(())
}

// ---------------------------------------------------------------------------------------------
// Hostile bytes: generators
// ---------------------------------------------------------------------------------------------

/// SUT encoding of a generated wire structure (base material for mutations).
fn wire_encode(c: &WireCase) -> Option<Vec<u8>> {
    let arena = Arena::new(&c.wire);
    let arena = &arena;
    let tag = &any_tag(c.tag);
    match &c.wire {
        Wire::AttrPath(p) => to_tlv_vec(&b_attr_path(p), tag).ok(),
        Wire::ClusterPath(n, e, cl) => to_tlv_vec(
            &ClusterPath {
                node: *n,
                endpoint: *e,
                cluster: *cl,
            },
            tag,
        )
        .ok(),
        Wire::DataVersionFilter(n, e, cl, v) => to_tlv_vec(
            &DataVersionFilter {
                path: ClusterPath {
                    node: *n,
                    endpoint: *e,
                    cluster: *cl,
                },
                data_ver: *v,
            },
            tag,
        )
        .ok(),
        Wire::Status(p) => to_tlv_vec(&b_status(p), tag).ok(),
        Wire::AttrResp(p) => to_tlv_vec(&b_attr_resp(p, arena), tag).ok(),
        Wire::CmdPath(p) => to_tlv_vec(&b_cmd_path(p), tag).ok(),
        Wire::CmdResp(p) => to_tlv_vec(&b_cmd_resp(p, arena), tag).ok(),
        Wire::EventFilter(n, m) => to_tlv_vec(
            &EventFilter {
                node: *n,
                event_min: *m,
            },
            tag,
        )
        .ok(),
        Wire::EventPath(p) => to_tlv_vec(&b_event_path(p), tag).ok(),
        Wire::EventResp(p) => to_tlv_vec(&b_event_resp(p, arena), tag).ok(),
        Wire::StatusResp(code, r) => to_tlv_vec(
            &StatusResp {
                status: STATUS_CODES[pick(*code, STATUS_CODES.len())],
                interaction_model_revision: *r,
            },
            tag,
        )
        .ok(),
        Wire::TimedReq(t, r) => to_tlv_vec(
            &TimedReq {
                timeout: *t,
                interaction_model_revision: *r,
            },
            tag,
        )
        .ok(),
        Wire::SubscribeResp(i, d, m, r) => to_tlv_vec(
            &SubscribeResp {
                subs_id: *i,
                _dummy: *d,
                max_int: *m,
                interaction_model_revision: *r,
            },
            tag,
        )
        .ok(),
        // request/response messages: written with the low-level writer in the layout of the
        // specification (context tags 0.., interaction model revision under 0xff)
        Wire::ReportData {
            sub,
            attrs,
            events,
            more,
            suppress,
            imr,
        } => {
            let mut w = VecWriter(Vec::new());
            w.start_struct(tag).ok()?;
            sub.to_tlv(&TLVTag::Context(0), &mut w).ok()?;
            if let Some(a) = attrs {
                let v: Vec<AttrResp<'_>> = a.iter().map(|r| b_attr_resp(r, arena)).collect();
                v.as_slice().to_tlv(&TLVTag::Context(1), &mut w).ok()?;
            }
            if let Some(a) = events {
                let v: Vec<EventResp<'_>> = a.iter().map(|r| b_event_resp(r, arena)).collect();
                v.as_slice().to_tlv(&TLVTag::Context(2), &mut w).ok()?;
            }
            more.to_tlv(&TLVTag::Context(3), &mut w).ok()?;
            suppress.to_tlv(&TLVTag::Context(4), &mut w).ok()?;
            imr.to_tlv(&TLVTag::Context(0xff), &mut w).ok()?;
            w.end_container().ok()?;
            Some(w.0)
        }
        Wire::InvokeResp {
            suppress,
            resps,
            more,
            imr,
        } => {
            let mut w = VecWriter(Vec::new());
            w.start_struct(tag).ok()?;
            suppress.to_tlv(&TLVTag::Context(0), &mut w).ok()?;
            if let Some(a) = resps {
                let v: Vec<CmdResp<'_>> = a.iter().map(|r| b_cmd_resp(r, arena)).collect();
                v.as_slice().to_tlv(&TLVTag::Context(1), &mut w).ok()?;
            }
            more.to_tlv(&TLVTag::Context(2), &mut w).ok()?;
            imr.to_tlv(&TLVTag::Context(0xff), &mut w).ok()?;
            w.end_container().ok()?;
            Some(w.0)
        }
        Wire::WriteResp(statuses, imr) => {
            let mut w = VecWriter(Vec::new());
            w.start_struct(tag).ok()?;
            let v: Vec<AttrStatus> = statuses
                .iter()
                .map(|(p, s)| AttrStatus {
                    path: b_attr_path(p),
                    status: b_status(s),
                })
                .collect();
            v.as_slice().to_tlv(&TLVTag::Context(0), &mut w).ok()?;
            imr.to_tlv(&TLVTag::Context(0xff), &mut w).ok()?;
            w.end_container().ok()?;
            Some(w.0)
        }
        Wire::Target(p) => to_tlv_vec(&b_target(p), tag).ok(),
        Wire::Acl(p) => to_tlv_vec(&b_acl(p).ok()?, tag).ok(),
        Wire::Resumable {
            fab,
            node,
            cats,
            rid,
            secret,
        } => to_tlv_vec(
            &ResumableSession {
                fab_idx: NonZeroU8::new((*fab).max(1))?,
                peer_nodeid: *node,
                peer_cat_ids: [
                    cats.first().copied().unwrap_or(0),
                    cats.get(1).copied().unwrap_or(0),
                    cats.get(2).copied().unwrap_or(0),
                ],
                resumption_id: sens(rid),
                shared_secret: sens(secret),
            },
            tag,
        )
        .ok(),
        Wire::SessionParams(f) => {
            let mut w = VecWriter(Vec::new());
            sc_verif::session_parameters_to_tlv(f, tag, &mut w).ok()?;
            Some(w.0)
        }
        Wire::KeySet(a, b) => to_tlv_vec(
            &KeySet {
                epoch_key: sens(a),
                op_key: sens(b),
            },
            tag,
        )
        .ok(),
        Wire::GroupKeySet(p) => to_tlv_vec(&b_group_key_set(p), tag).ok(),
        Wire::GroupKeyMapping(a, b) => to_tlv_vec(
            &GroupKeyMapping {
                group_id: *a,
                group_key_set_id: *b,
            },
            tag,
        )
        .ok(),
        Wire::GroupEndpoints(p) => to_tlv_vec(&b_group_endpoints(p)?, tag).ok(),
        Wire::Fabric(p) => {
            let mut blob = Vec::new();
            ref_encode(&r_fabric(p, model_tag(tag)), &mut blob, &mut Vec::new());
            Some(blob)
        }
    }
}

#[derive(Debug, Clone, Serialize, Deserialize)]
enum LenVal {
    Abs(u64),
    /// number of bytes that really follow the length field, plus a delta
    Remaining(i8),
    /// the original length plus a delta
    Orig(i8),
    /// 2^64 - 1 - k
    FromTop(u8),
}

#[derive(Debug, Clone, Serialize, Deserialize)]
enum Op {
    Truncate(u16),
    /// overwrite the length field of a string element
    SetLen { node: u16, val: LenVal },
    /// turn a string element into its 8-byte-length form and set the length
    WidenLen { node: u16, val: LenVal },
    /// replace the control byte of an element
    SetCtl { node: u16, ctl: u8 },
    /// replace the element type of an element, keeping its tag form
    SetType { node: u16, ty: u8 },
    SetByte { pos: u16, val: u8 },
    Insert { pos: u16, bytes: Vec<u8> },
    Delete { pos: u16, n: u8 },
    DropTail(u8),
    AppendEnds(u8),
}

#[derive(Debug, Clone, Serialize, Deserialize)]
enum Base {
    Tree(MNode),
    Wire(WireCase),
}

#[derive(Debug, Clone, Serialize, Deserialize)]
struct HostileCase {
    base: Base,
    ops: Vec<Op>,
}

const LEN_BOUNDARIES: &[u64] = &[
    0,
    1,
    2,
    0x7f,
    0x80,
    0xfe,
    0xff,
    0x100,
    0x7fff,
    0x8000,
    0xffff,
    0x1_0000,
    0x7fff_ffff,
    0x8000_0000,
    0xffff_ffff,
    0x1_0000_0000,
    0x7fff_ffff_ffff_ffff,
    0x8000_0000_0000_0000,
    0x8000_0000_0000_0001,
    0xffff_ffff_0000_0000,
];

fn len_val() -> impl Strategy<Value = LenVal> {
    prop_oneof![
        3 => prop::sample::select(LEN_BOUNDARIES.to_vec()).prop_map(LenVal::Abs),
        1 => any::<u64>().prop_map(LenVal::Abs),
        3 => (-3i8..=3).prop_map(LenVal::Remaining),
        2 => (-2i8..=2).prop_map(LenVal::Orig),
        4 => (0u8..=40).prop_map(LenVal::FromTop),
    ]
}

fn op_strategy() -> impl Strategy<Value = Op> {
    prop_oneof![
        4 => any::<u16>().prop_map(Op::Truncate),
        5 => (any::<u16>(), len_val()).prop_map(|(node, val)| Op::SetLen { node, val }),
        5 => (any::<u16>(), len_val()).prop_map(|(node, val)| Op::WidenLen { node, val }),
        2 => (any::<u16>(), any::<u8>()).prop_map(|(node, ctl)| Op::SetCtl { node, ctl }),
        3 => (any::<u16>(), 0u8..0x20).prop_map(|(node, ty)| Op::SetType { node, ty }),
        2 => (any::<u16>(), prop_oneof![Just(0x18u8), Just(0x15), Just(0xff), Just(0), any::<u8>()])
            .prop_map(|(pos, val)| Op::SetByte { pos, val }),
        1 => (any::<u16>(), prop::collection::vec(any::<u8>(), 1..6)).prop_map(|(pos, bytes)| Op::Insert { pos, bytes }),
        1 => (any::<u16>(), 1u8..6).prop_map(|(pos, n)| Op::Delete { pos, n }),
        2 => (1u8..5).prop_map(Op::DropTail),
        1 => (1u8..4).prop_map(Op::AppendEnds),
    ]
}

/// small, string-rich trees
fn hostile_tree() -> BoxedStrategy<MNode> {
    let leaf = (
        tag_strategy(),
        prop_oneof![
            5 => (width_strategy(), small_text(12)).prop_map(|(w, t)| MVal::Utf8(w, t)),
            5 => (width_strategy(), prop::collection::vec(any::<u8>(), 0..8)).prop_map(|(w, p)| MVal::Bytes(w, Payload::Lit(p))),
            4 => leaf_val(0),
        ],
    )
        .prop_map(|(t, v)| node_from(t, v, 0));
    leaf.prop_recursive(4, 16, 4, |inner| {
        (tag_strategy(), 0u8..3, prop::collection::vec(inner, 0..5)).prop_map(|(t, kind, c)| {
            let val = match kind {
                0 => MVal::Struct(c),
                1 => MVal::Array(c),
                _ => MVal::List(c),
            };
            node_from(t, val, 0)
        })
    })
    .prop_map(|mut n| {
        conform_tags(&mut n);
        n
    })
    .boxed()
}

fn hostile_case() -> impl Strategy<Value = HostileCase> {
    (
        prop_oneof![
            5 => hostile_tree().prop_map(Base::Tree),
            4 => wire_case().prop_map(Base::Wire),
        ],
        prop::collection::vec(op_strategy(), 1..=3),
    )
        .prop_map(|(base, ops)| HostileCase { base, ops })
}

fn base_bytes(b: &Base) -> Vec<u8> {
    match b {
        Base::Tree(t) => {
            let mut out = Vec::new();
            ref_encode(&normalise(&materialise(t)), &mut out, &mut Vec::new());
            out
        }
        Base::Wire(w) => wire_encode(w).unwrap_or_default(),
    }
}

fn resolve_len(v: &LenVal, bytes: &[u8], sp: &Span) -> u64 {
    let remaining = bytes.len().saturating_sub(sp.len_off + sp.len_w) as i128;
    let mut b = [0u8; 8];
    let field = bytes.get(sp.len_off..sp.len_off + sp.len_w).unwrap_or(&[]);
    b[..field.len()].copy_from_slice(field);
    let orig = u64::from_le_bytes(b) as i128;
    match v {
        LenVal::Abs(x) => *x,
        LenVal::Remaining(d) => (remaining + *d as i128).max(0) as u64,
        LenVal::Orig(d) => (orig + *d as i128).max(0) as u64,
        LenVal::FromTop(k) => u64::MAX - *k as u64,
    }
}

/// Apply the operations; returns the bytes and the class label of the first effective one.
fn apply_ops(mut bytes: Vec<u8>, ops: &[Op]) -> (Vec<u8>, &'static str) {
    let mut label = "unchanged";
    for op in ops {
        let spans = scan_elements(&bytes);
        let strings: Vec<&Span> = spans.iter().filter(|s| s.len_w > 0).collect();
        let mut did = "";
        match op {
            Op::Truncate(sel) => {
                if !bytes.is_empty() {
                    let n = pick(*sel, bytes.len());
                    bytes.truncate(n);
                    did = "truncate";
                }
            }
            Op::SetLen { node, val } => {
                if !strings.is_empty() {
                    let sp = strings[pick(*node, strings.len())].clone();
                    let v = resolve_len(val, &bytes, &sp);
                    bytes[sp.len_off..sp.len_off + sp.len_w].copy_from_slice(&v.to_le_bytes()[..sp.len_w]);
                    did = "set-len";
                }
            }
            Op::WidenLen { node, val } => {
                if !strings.is_empty() {
                    let sp = strings[pick(*node, strings.len())].clone();
                    let v = resolve_len(val, &bytes, &sp);
                    let ctl = bytes[sp.start];
                    let ty = ctl & 0x1f;
                    bytes[sp.start] = (ctl & 0xe0) | (if ty < 0x10 { 0x0f } else { 0x13 });
                    bytes.splice(sp.len_off..sp.len_off + sp.len_w, v.to_le_bytes());
                    did = if v > u64::MAX - 32 { "len64-near-2^64" } else { "len64" };
                }
            }
            Op::SetCtl { node, ctl } => {
                if !spans.is_empty() {
                    let sp = &spans[pick(*node, spans.len())];
                    bytes[sp.start] = *ctl;
                    did = "set-control";
                }
            }
            Op::SetType { node, ty } => {
                if !spans.is_empty() {
                    let sp = &spans[pick(*node, spans.len())];
                    bytes[sp.start] = (bytes[sp.start] & 0xe0) | (*ty & 0x1f);
                    did = "set-type";
                }
            }
            Op::SetByte { pos, val } => {
                if !bytes.is_empty() {
                    let p = pick(*pos, bytes.len());
                    bytes[p] = *val;
                    did = "set-byte";
                }
            }
            Op::Insert { pos, bytes: ins } => {
                let p = pick(*pos, bytes.len() + 1);
                bytes.splice(p..p, ins.iter().copied());
                did = "insert";
            }
            Op::Delete { pos, n } => {
                if !bytes.is_empty() {
                    let p = pick(*pos, bytes.len());
                    let e = (p + *n as usize).min(bytes.len());
                    bytes.drain(p..e);
                    did = "delete";
                }
            }
            Op::DropTail(n) => {
                let keep = bytes.len().saturating_sub(*n as usize);
                if keep < bytes.len() {
                    bytes.truncate(keep);
                    did = "drop-tail";
                }
            }
            Op::AppendEnds(n) => {
                bytes.extend(std::iter::repeat(0x18).take(*n as usize));
                did = "append-end";
            }
        }
        if label == "unchanged" && !did.is_empty() {
            label = did;
        }
    }
    (bytes, label)
}

// ---------------------------------------------------------------------------------------------
// Watchdog: a probe that does not return within 30 s is reported as an unbounded loop
// ---------------------------------------------------------------------------------------------

static IN_FLIGHT: OnceLock<Mutex<HashMap<std::thread::ThreadId, (Instant, Vec<u8>)>>> = OnceLock::new();

fn in_flight() -> &'static Mutex<HashMap<std::thread::ThreadId, (Instant, Vec<u8>)>> {
    IN_FLIGHT.get_or_init(|| Mutex::new(HashMap::new()))
}

fn start_watchdog() {
    std::thread::spawn(|| loop {
        std::thread::sleep(Duration::from_secs(2));
        let stuck = in_flight()
            .lock()
            .ok()
            .and_then(|g| g.values().find(|(t, _)| t.elapsed() > Duration::from_secs(30)).map(|(_, d)| d.clone()));
        if let Some(data) = stuck {
            let dir = format!("{}/replay", vh::run::verif_dir());
            let _ = std::fs::create_dir_all(&dir);
            let path = format!("{dir}/C16-raw-bytes-hang.json");
            let rf = serde_json::json!({
                "property": "C16",
                "sub": "raw-bytes",
                "signature": "unbounded-loop:>30s",
                "detail": format!("the probes did not return within 30 s on {}", hex(&data)),
                "case": { "data": data },
            });
            let _ = std::fs::write(&path, serde_json::to_string_pretty(&rf).unwrap_or_default());
            println!("VIOLATION property=C16 replay={path}");
            println!("  sub-check: raw-bytes");
            println!("  signature: unbounded-loop:>30s");
            println!("  detail: the probes did not return within 30 s on {}", short_hex(&data));
            std::process::exit(1);
        }
    });
}

/// Run all probes on `data`, each under its own panic guard.
fn run_probes(data: &[u8]) -> Case {
    let id = std::thread::current().id();
    if let Ok(mut g) = in_flight().lock() {
        g.insert(id, (Instant::now(), data.to_vec()));
    }
    let parts: Vec<(&'static str, Box<dyn FnOnce() -> Case + '_>)> = PROBES
        .iter()
        .map(|(name, p)| {
            let f: Box<dyn FnOnce() -> Case + '_> = Box::new(move || match p(data) {
                Ok(()) => Case::pass(false),
                Err(m) => fail_from(format!("{m}; input {}", short_hex(data))),
            });
            (*name, f)
        })
        .collect();
    let c = multi(parts);
    if let Ok(mut g) = in_flight().lock() {
        g.remove(&id);
    }
    // non-trivial: the control byte of the first element is a valid one
    let nontrivial = data.first().map(|c| c & 0x1f <= 0x18).unwrap_or(false);
    if c.is_fail() {
        c
    } else {
        c.nontrivial(nontrivial)
    }
}

fn check_hostile(case: &HostileCase) -> Case {
    let (data, label) = apply_ops(base_bytes(&case.base), &case.ops);
    let base = match &case.base {
        Base::Tree(_) => "base:tree",
        Base::Wire(_) => "base:wire-struct",
    };
    let c = run_probes(&data);
    if c.is_fail() {
        c
    } else {
        c.label(label).label(base)
    }
}

#[derive(Debug, Clone, Serialize, Deserialize)]
struct RawCase {
    data: Vec<u8>,
}

fn raw_case() -> impl Strategy<Value = RawCase> {
    let token = prop_oneof![
        // a control byte with a valid element type
        4 => (0u8..8, 0u8..=0x18).prop_map(|(t, ty)| vec![(t << 5) | ty]),
        2 => prop::sample::select(vec![vec![0x18u8], vec![0x15], vec![0x16], vec![0x17], vec![0x35, 0x01], vec![0x36, 0x00], vec![0x37, 0x00]]),
        2 => prop::sample::select(LEN_BOUNDARIES.to_vec()).prop_map(|v| v.to_le_bytes().to_vec()),
        1 => (0u8..=40).prop_map(|k| (u64::MAX - k as u64).to_le_bytes().to_vec()),
        2 => prop::sample::select(vec![vec![0u8], vec![1], vec![0xff], vec![0xff, 0xff], vec![0xff, 0xff, 0xff, 0xff], vec![0x24, 0x00, 0x01], vec![0x30, 0x01, 0x00]]),
        3 => prop::collection::vec(any::<u8>(), 1..5),
    ];
    prop_oneof![
        3 => prop::collection::vec(token, 0..12).prop_map(|t| t.concat()),
        1 => prop::collection::vec(any::<u8>(), 0..48),
    ]
    .prop_map(|data| RawCase { data })
}

fn check_raw(case: &RawCase) -> Case {
    let c = run_probes(&case.data);
    if c.is_fail() {
        return c;
    }
    let l = match case.data.first() {
        None => "empty",
        Some(c) if c & 0x1f > 0x18 => "first-control-invalid",
        Some(c) if (0x15..=0x17).contains(&(c & 0x1f)) => "first-container",
        Some(c) if (0x0c..=0x13).contains(&(c & 0x1f)) => "first-string",
        Some(_) => "first-scalar",
    };
    c.label(l)
}

/// One item of the enumerated length-field table.
#[derive(Debug, Clone, Serialize, Deserialize)]
struct LenItem {
    /// tag form 0..8
    tag_form: u8,
    /// string element type 0x0c..=0x13
    ty: u8,
    len: u64,
    /// bytes that really follow the length field
    payload: u8,
    /// 0 bare, 1 first member of a structure, 2 inside array inside structure, 3 structure
    /// member followed by another member and garbage (the shape of the recorded finding)
    wrap: u8,
}

fn len_item_bytes(i: &LenItem) -> Vec<u8> {
    let mut el = vec![(i.tag_form << 5) | i.ty];
    el.extend(std::iter::repeat(0xff).take(tag_size(i.tag_form << 5)));
    let w = 1usize << ((i.ty - 0x0c) & 3);
    el.extend_from_slice(&i.len.to_le_bytes()[..w]);
    el.extend((0..i.payload).map(|k| b'a' + k));
    match i.wrap {
        0 => el,
        1 => {
            let mut v = vec![0x15];
            v.extend(el);
            v.push(0x18);
            v
        }
        2 => {
            let mut v = vec![0x15, 0x36, 0x01];
            v.extend(el);
            v.extend([0x18, 0x18]);
            v
        }
        _ => {
            let mut v = vec![0x15];
            v.extend(el);
            v.extend([0x80, 0x01, 0x00]);
            v
        }
    }
}

fn check_len_item(i: &LenItem) -> Case {
    run_probes(&len_item_bytes(i)).label(format!("wrap:{}", i.wrap))
}

#[derive(Debug, Clone, Serialize, Deserialize)]
struct CtlItem {
    ctl: u8,
    tail: u8,
}

fn ctl_item_bytes(i: &CtlItem) -> Vec<u8> {
    let mut v = vec![i.ctl];
    match i.tail {
        0 => {}
        1 => v.extend([0u8; 20]),
        2 => v.extend([0xffu8; 20]),
        3 => v.extend([0x01, 0x01, 0x01, 0x18, 0x18]),
        4 => v.extend([0x18u8; 12]),
        _ => v.extend([0x15, 0x24, 0x00, 0x01, 0x18, 0x18, 0x18, 0x18, 0x18, 0x18, 0x18, 0x18]),
    }
    v
}

fn check_ctl_item(i: &CtlItem) -> Case {
    run_probes(&ctl_item_bytes(i))
}

fn main() {
    load_known();
    start_watchdog();
    let mut run = Run::new(
        "C16",
        "exploration",
        "TLV trees from a recursive strategy (all 8 tag forms, integers of every width at the extremes of every smaller width, bool, f32/f64 bit patterns incl. NaNs, UTF-8/octet strings forced through 1/2/4/8-byte length fields incl. 254..700 and 65534..70001 bytes, null, struct/array/list nested up to 64 deep), written through 5 writer APIs; 25 wire structures with generated field values; hostile bytes = valid tree/structure encodings mutated by 1-3 operations (truncate, length field := boundary value / remaining±k / 2^64-1-k, widen to 8-byte length, retype element, byte edits) plus dictionary/random bytes plus enumerated length-field and control-byte tables. Non-trivial: tree of depth >= 2 holding a string whose length field is wider than 1 byte; structure case that passed the full round trip; byte input whose first control byte is a valid one. distinct = distinct serialized case",
    );
    run.assume("the reference encoder/scanner of the harness implement Appendix A (TLV) of the Matter Core specification");
    run.assume("integer/string writer methods documented as 'smallest type that fits' are expected to produce the minimal width");
    run.assume("the persisted layout of Fabric/AclEntry/group structures is the one the derive attributes declare (declaration order, tagval overrides)");
    run.assume("hook rs_matter::sc::verif::* forwards to the derived SessionParameters codec unchanged");
    run.assume("a container's raw_value() may or may not include the end-of-container byte (statement silent)");

    let n = run.cases(150_000, 4_000_000);
    run.prop("tree-write-read", n, tree_case, check_tree_write_read);
    let n = run.cases(60_000, 1_500_000);
    run.prop("tree-reencode-write", n, tree_case, check_tree_reencode_write);
    let n = run.cases(60_000, 1_500_000);
    run.prop("tree-reencode-iter", n, tree_case, check_tree_reencode_iter);
    let n = run.cases(150_000, 3_000_000);
    run.prop("struct-roundtrip", n, wire_case, check_wire);
    let n = run.cases(300_000, 8_000_000);
    run.prop("hostile-bytes", n, hostile_case, check_hostile);
    let n = run.cases(300_000, 8_000_000);
    run.prop("raw-bytes", n, raw_case, check_raw);

    let mut lens: Vec<u64> = LEN_BOUNDARIES.to_vec();
    lens.extend((0u64..=24).map(|k| u64::MAX - k));
    lens.extend([3, 4, 5, 6]);
    let mut items = Vec::new();
    for tag_form in 0u8..8 {
        for ty in 0x0cu8..=0x13 {
            for &len in &lens {
                for payload in [0u8, 1, 3] {
                    for wrap in 0u8..4 {
                        items.push(LenItem {
                            tag_form,
                            ty,
                            len,
                            payload,
                            wrap,
                        });
                    }
                }
            }
        }
    }
    run.exhaustive("len-boundary-table", items, check_len_item);

    let mut items = Vec::new();
    for ctl in 0u8..=255 {
        for tail in 0u8..6 {
            items.push(CtlItem { ctl, tail });
        }
    }
    run.exhaustive("control-byte-table", items, check_ctl_item);

    run.finish();
}

// ---------------------------------------------------------------------------------------------
// Engine E3 (libFuzzer): entry used by `fuzz/fuzz_targets/tlv.rs` — same oracle, other driver
// ---------------------------------------------------------------------------------------------

/// Coverage-guided entry: the whole input is handed to the hostile-bytes oracle. `Err` is
/// `"<signature>: <detail>"`; a panic of rs-matter propagates (libFuzzer reports it as a crash).
pub fn fuzz_entry(data: &[u8]) -> Result<(), String> {
    // The probes format and re-scan every container at every nesting level, so their cost grows
    // with (bytes x nesting depth): 1000 nested containers in 2 KiB take minutes. Stay inside the
    // domain the oracle was written for (the generators nest up to 64 deep) and bound the work.
    let (depth, area) = fuzz_nesting(data);
    if depth > FUZZ_MAX_DEPTH || area > FUZZ_MAX_AREA {
        return Ok(());
    }
    tlv_bytes_oracle(data)
}

/// Deepest nesting accepted by `fuzz_entry` (as in `tree_strategy`/`chain_strategy`).
pub const FUZZ_MAX_DEPTH: usize = 64;
/// Largest accepted sum, over all bytes, of the nesting depth at that byte.
pub const FUZZ_MAX_AREA: usize = 16 * 1024;

/// A tolerant, linear walk over the element grammar of Appendix A (independent of rs-matter):
/// returns (deepest container nesting, sum over all scanned bytes of the nesting depth there).
/// Stops at the first byte that cannot start an element or at a length field that points
/// outside the input (no correct reader can go past either).
fn fuzz_nesting(data: &[u8]) -> (usize, usize) {
    let (mut pos, mut depth, mut max_depth, mut area) = (0usize, 0usize, 0usize, 0usize);
    while let Some(&ctl) = data.get(pos) {
        let ty = ctl & 0x1f;
        let head = 1 + tag_size(ctl);
        let size = match ty {
            0x18 => {
                depth = depth.saturating_sub(1);
                1
            }
            0x15..=0x17 => {
                depth += 1;
                max_depth = max_depth.max(depth);
                head
            }
            0x00 | 0x04 => head + 1,
            0x01 | 0x05 => head + 2,
            0x02 | 0x06 | 0x0a => head + 4,
            0x03 | 0x07 | 0x0b => head + 8,
            0x08 | 0x09 | 0x14 => head,
            0x0c..=0x13 => {
                let w = 1usize << ((ty - 0x0c) & 3);
                let mut b = [0u8; 8];
                match data.get(pos + head..pos + head + w) {
                    Some(f) => b[..w].copy_from_slice(f),
                    None => break,
                }
                match usize::try_from(u64::from_le_bytes(b)).ok().and_then(|l| l.checked_add(head + w)) {
                    Some(n) => n,
                    None => break,
                }
            }
            _ => break,
        };
        let Some(next) = pos.checked_add(size).filter(|n| *n <= data.len()) else {
            break;
        };
        area = area.saturating_add(depth.saturating_mul(size));
        pos = next;
    }
    (max_depth, area)
}

/// Seed inputs for the `tlv` fuzz target (used by `src/bin/mkcorpus.rs`): reference encodings of
/// generated trees and wire structures (legal), the same with the hostile operations applied, and
/// a few literal vectors (inputs of recorded findings, minimal containers).
pub fn fuzz_seeds(n: usize, seed: u64) -> Vec<(String, Vec<u8>)> {
    use proptest::strategy::ValueTree;
    use proptest::test_runner::{Config, RngAlgorithm, TestRng, TestRunner};
    let mut s = [0u8; 32];
    s[..8].copy_from_slice(&seed.to_le_bytes());
    let mut runner = TestRunner::new_with_rng(Config::default(), TestRng::from_seed(RngAlgorithm::ChaCha, &s));
    let strategy = hostile_case();
    let mut out: Vec<(String, Vec<u8>)> = Vec::new();
    for _ in 0..n {
        let Ok(tree) = strategy.new_tree(&mut runner) else { continue };
        let case = tree.current();
        let kind = match &case.base {
            Base::Tree(_) => "tree",
            Base::Wire(_) => "wire",
        };
        let legal = base_bytes(&case.base);
        let (hostile, label) = apply_ops(legal.clone(), &case.ops);
        out.push((format!("legal-{kind}"), legal));
        out.push((format!("hostile-{kind}-{label}"), hostile));
    }
    for lit in [
        "1518",
        "1618",
        "1718",
        "152400011818",
        "15300101012402011818",
        "153601050105021818",
        "15350124000118370124000118182c02026869181818",
        "d5ffffffffffffffff2c01ff00000000000000",
        "1533010000000000000000",
    ] {
        out.push(("literal".to_string(), vh::util::unhex(lit)));
    }
    out
}
