//! C18 — BTP delivers each message intact, once and in order, or fails cleanly.
//!
//! Sub-checks
//! * `conversation`  — two real `Btp` objects (initiator / responder) joined by an in-harness
//!   GATT pipe; arbitrary zero-time interleaving of app send/recv, driver out/in steps.
//!   Oracles: messages out == messages in (per direction, in order, once); an independent
//!   parser of the BTP header on the pipe checks consecutive sequence numbers, window
//!   accounting, acknowledgement sanity, negotiated segment size; no error, no stall.
//! * `timed`         — the same two ends driven by the *verbatim* driver loops of the in-tree
//!   GATT glue (`process_outgoing` until 0, then `wait_outgoing()`), on the virtual clock and
//!   the deterministic executor. Oracle: every segment is acknowledged on the wire within
//!   BTP_ACK_TIMEOUT of its arrival, nobody reports an idle timeout, messages are delivered.
//! * `hostile`       — one real `Btp` (either role) against a harness peer that sends
//!   model-relative valid segments (honest prefix) and faulty/arbitrary ones. Oracle: a
//!   reference model written from the statement/specification classifies every injected
//!   segment as must-accept / must-refuse / unspecified; no panic; everything the victim
//!   delivers is byte-exact what the accepted segments framed; the victim's own emissions stay
//!   within the window and carry exactly the bytes handed to `send`.
//! * `hostile-bytes` — the same oracle behind the byte-level entry point
//!   [`btp_hostile_oracle`] (bytes -> case), ready for a libFuzzer target.

#![allow(clippy::too_many_arguments)]

use std::cell::{Cell, RefCell};
use std::collections::VecDeque;
use std::future::Future;
use std::pin::pin;
use std::task::{Context, Poll, Waker};

use proptest::prelude::*;
use serde::{Deserialize, Serialize};

use rs_matter::error::Error;
use rs_matter::transport::network::btp::Btp;
use rs_matter::transport::network::BtAddr;

use vh::run::{guarded, Verdict};
use vh::sim::{clock, Exec, Sched};
use vh::{Case, Run};

// ---------------------------------------------------------------------------------------------
// Constants taken from the Matter Core specification (BTP section), NOT from the implementation.
// ---------------------------------------------------------------------------------------------

/// Largest Matter message handed to the transport (IPv6 minimum MTU minus IPv6/UDP headers);
/// documented as `MAX_TX_PACKET_SIZE` in the public API.
const MAX_MSG: usize = rs_matter::transport::network::MAX_TX_PACKET_SIZE;
/// BTP_ACK_TIMEOUT: "maximum amount of time after receipt of a segment before a stand-alone
/// ACK must be sent".
const BTP_ACK_TIMEOUT_US: u64 = 15_000_000;
/// Smallest / largest BTP segment size (ATT_MTU 23 / 247 minus 3 bytes of ATT header).
const MIN_SEG: usize = 20;
const MAX_SEG: usize = 244;

const ADDR_INITIATOR: BtAddr = BtAddr([0xaa, 1, 2, 3, 4, 5]);
const ADDR_RESPONDER: BtAddr = BtAddr([0xbb, 6, 7, 8, 9, 10]);

// ---------------------------------------------------------------------------------------------
// Independent BTP segment parser / builder (flags layout from the specification)
// ---------------------------------------------------------------------------------------------

const F_HANDSHAKE: u8 = 0x40;
const F_MGMT: u8 = 0x20;
const F_ACK: u8 = 0x08;
const F_END: u8 = 0x04;
const F_CONT: u8 = 0x02;
const F_BEGIN: u8 = 0x01;
const F_RESERVED: u8 = 0x80 | 0x10;

#[derive(Debug, Clone, Default)]
struct Seg {
    flags: u8,
    opcode: Option<u8>,
    ack: Option<u8>,
    seq: Option<u8>,
    msg_len: Option<u16>,
    payload: Vec<u8>,
}

impl Seg {
    fn is_handshake(&self) -> bool {
        self.flags & F_HANDSHAKE != 0
    }
    fn begin(&self) -> bool {
        self.flags & F_BEGIN != 0
    }
    fn cont(&self) -> bool {
        self.flags & F_CONT != 0
    }
    fn end(&self) -> bool {
        self.flags & F_END != 0
    }
}

/// Parse one BTP segment. `None` when the bytes are shorter than the header its flags announce.
fn parse(raw: &[u8]) -> Option<Seg> {
    let mut it = raw.iter().copied();
    let flags = it.next()?;
    let mut s = Seg {
        flags,
        ..Default::default()
    };
    if flags & F_MGMT != 0 {
        s.opcode = Some(it.next()?);
    }
    if flags & F_ACK != 0 {
        s.ack = Some(it.next()?);
    }
    if flags & F_HANDSHAKE == 0 {
        s.seq = Some(it.next()?);
        if flags & F_BEGIN != 0 {
            let lo = it.next()?;
            let hi = it.next()?;
            s.msg_len = Some(u16::from_le_bytes([lo, hi]));
        }
    }
    s.payload = it.collect();
    Some(s)
}

fn build(flags: u8, opcode: u8, ack: u8, seq: u8, msg_len: u16, payload: &[u8]) -> Vec<u8> {
    let mut v = vec![flags];
    if flags & F_MGMT != 0 {
        v.push(opcode);
    }
    if flags & F_ACK != 0 {
        v.push(ack);
    }
    if flags & F_HANDSHAKE == 0 {
        v.push(seq);
        if flags & F_BEGIN != 0 {
            v.extend_from_slice(&msg_len.to_le_bytes());
        }
    }
    v.extend_from_slice(payload);
    v
}

#[derive(Debug, Clone, Copy)]
struct HsReq {
    versions: u32,
    mtu: u16,
    window: u8,
}

#[derive(Debug, Clone, Copy)]
struct HsResp {
    version: u8,
    mtu: u16,
    window: u8,
}

fn parse_hs_req(s: &Seg) -> Option<HsReq> {
    if !s.is_handshake() || s.opcode != Some(0x6c) || s.payload.len() != 7 {
        return None;
    }
    let p = &s.payload;
    Some(HsReq {
        versions: u32::from_le_bytes([p[0], p[1], p[2], p[3]]),
        mtu: u16::from_le_bytes([p[4], p[5]]),
        window: p[6],
    })
}

fn parse_hs_resp(s: &Seg) -> Option<HsResp> {
    if !s.is_handshake() || s.opcode != Some(0x6c) || s.payload.len() != 4 {
        return None;
    }
    let p = &s.payload;
    Some(HsResp {
        version: p[0],
        mtu: u16::from_le_bytes([p[1], p[2]]),
        window: p[3],
    })
}

fn versions_contain_4(versions: u32) -> bool {
    version_offered(versions, 4)
}

/// The handshake request lists up to eight 4-bit versions (0 = unused slot).
fn version_offered(versions: u32, v: u8) -> bool {
    v != 0 && v < 16 && (0..8).any(|i| ((versions >> (i * 4)) & 0xf) as u8 == v)
}

// ---------------------------------------------------------------------------------------------
// Small helpers
// ---------------------------------------------------------------------------------------------

fn msg_bytes(len: usize, seed: u8, index: usize) -> Vec<u8> {
    (0..len)
        .map(|i| {
            (i as u32)
                .wrapping_mul(31)
                .wrapping_add(seed as u32 * 7)
                .wrapping_add(index as u32 * 131)
                .wrapping_add((i as u32) >> 8) as u8
        })
        .collect()
}

fn poll_once<F: Future>(f: F) -> Poll<F::Output> {
    let f = pin!(f);
    let mut cx = Context::from_waker(Waker::noop());
    f.poll(&mut cx)
}

fn tracing() -> bool {
    static T: std::sync::OnceLock<bool> = std::sync::OnceLock::new();
    *T.get_or_init(|| std::env::var("C18_TRACE").is_ok())
}

macro_rules! trace {
    ($($arg:tt)*) => {
        if tracing() {
            eprintln!("[t={:>10}us] {}", clock::now() - 1_000_000_000, format!($($arg)*));
        }
    };
}

fn errs(e: &Error) -> String {
    format!("{:?}", e.code())
}

fn short_hex(b: &[u8]) -> String {
    if b.len() <= 40 {
        vh::util::hex(b)
    } else {
        format!("{}..({} bytes)", vh::util::hex(&b[..40]), b.len())
    }
}

macro_rules! bail {
    ($sig:expr, $($arg:tt)*) => {
        return Err(Fail { sig: $sig.to_string(), detail: format!($($arg)*) })
    };
}

#[derive(Debug, Clone)]
struct Fail {
    sig: String,
    detail: String,
}

impl Fail {
    fn case(self) -> Case {
        Case::fail(self.sig, self.detail)
    }
}

// ---------------------------------------------------------------------------------------------
// Wire monitor for a conversation between two well-behaved ends
// ---------------------------------------------------------------------------------------------

/// One direction of the link: segments emitted by `from`, delivered to the other end.
#[derive(Default)]
struct DirMon {
    /// number of sequence-numbered segments emitted so far (the handshake response counts as
    /// the responder's sequence number 0)
    emitted: u64,
    /// number of sequence-numbered segments delivered to (and accepted by) the receiver
    delivered: u64,
    /// how many of the emitted segments are covered by acknowledgements *delivered back* to
    /// the emitter (its own knowledge)
    acked_known: u64,
    /// how many of the delivered segments are covered by acknowledgements *emitted* by the
    /// receiver
    acked_emitted: u64,
    /// arrival time (µs) of each delivered segment, index = absolute number - acked_emitted,
    /// together with the receiver's accumulated backlog time at that moment
    arrival: VecDeque<(u64, u64)>,
    /// reassembly of the byte stream carried by the segments of this direction
    cur: Option<(usize, Vec<u8>)>,
    /// complete messages seen on the wire
    wire_msgs: u64,
    /// complete (non-empty) messages whose last segment was delivered
    delivered_msgs: u64,
    max_outstanding: u64,
    worst_ack_delay: u64,
}

struct Mon {
    /// index 0: initiator -> responder, 1: responder -> initiator
    dir: [DirMon; 2],
    req: Option<HsReq>,
    resp: Option<HsResp>,
    /// segments of multi-segment messages, stalls etc. (for the non-trivial rule)
    max_segs_per_msg: u64,
    cur_segs: [u64; 2],
    window_full_events: u64,
    standalone_acks: u64,
    /// messages fetched by the application of each end
    fetched: [u64; 2],
    /// Time each end spent with complete messages waiting to be fetched by its application:
    /// the implementation withholds acknowledgements meanwhile (back-pressure) and the
    /// statement does not say how long an application may take, so that time does not count
    /// towards the acknowledgement deadline.
    backlog_acc: [u64; 2],
    backlog_since: [Option<u64>; 2],
    /// when both ends report the same ATT MTU: the largest segment the link can carry
    link_payload: Option<usize>,
    check_deadline: bool,
    /// do not apply the acknowledgement deadline to the handshake response (known finding)
    exempt_handshake_ack: bool,
    /// acknowledgement deadline in µs after arrival
    deadline_us: u64,
    /// measure the deadline from the newest instead of the oldest unacknowledged segment
    /// (what the implementation does; used to search behind the known finding)
    from_latest: bool,
}

impl Mon {
    fn new(link_payload: Option<usize>, check_deadline: bool) -> Self {
        Self {
            dir: [DirMon::default(), DirMon::default()],
            req: None,
            resp: None,
            max_segs_per_msg: 0,
            cur_segs: [0, 0],
            window_full_events: 0,
            standalone_acks: 0,
            fetched: [0, 0],
            backlog_acc: [0, 0],
            backlog_since: [None, None],
            link_payload,
            check_deadline,
            exempt_handshake_ack: false,
            deadline_us: BTP_ACK_TIMEOUT_US,
            from_latest: false,
        }
    }

    /// The application of end `e` fetched one message.
    fn note_fetch(&mut self, e: usize, now: u64) {
        self.fetched[e] += 1;
        if self.fetched[e] >= self.dir[1 - e].delivered_msgs {
            if let Some(since) = self.backlog_since[e].take() {
                self.backlog_acc[e] += now.saturating_sub(since);
            }
        }
    }

    /// Accumulated time end `e` had something to fetch, up to `now`.
    fn backlog_total(&self, e: usize, now: u64) -> u64 {
        self.backlog_acc[e] + self.backlog_since[e].map(|s| now.saturating_sub(s)).unwrap_or(0)
    }

    fn window(&self) -> Option<u64> {
        self.resp.map(|r| r.window as u64)
    }

    fn wraps(&self, d: usize) -> u64 {
        self.dir[d].emitted / 256
    }

    /// `from` (0 = initiator, 1 = responder) emitted `raw` at virtual time `now`.
    fn on_emit(&mut self, from: usize, raw: &[u8], now: u64) -> Result<(), Fail> {
        let who = if from == 0 { "initiator" } else { "responder" };
        let Some(s) = parse(raw) else {
            bail!("wire:unparsable-segment", "{who} emitted {}", short_hex(raw));
        };
        if let Some(lp) = self.link_payload {
            if raw.len() > lp {
                bail!(
                    "wire:segment-larger-than-att-payload",
                    "{who} emitted {} bytes, the link (ATT_MTU-3) carries {lp}",
                    raw.len()
                );
            }
        }
        if s.flags & F_RESERVED != 0 {
            bail!("wire:reserved-flag-set", "{who} emitted {}", short_hex(raw));
        }
        if s.is_handshake() {
            if from == 0 {
                if self.req.is_some() || self.dir[0].emitted > 0 {
                    bail!("wire:second-handshake-request", "{who} emitted {}", short_hex(raw));
                }
                let Some(req) = parse_hs_req(&s) else {
                    bail!("wire:malformed-handshake-request", "{}", short_hex(raw));
                };
                if !versions_contain_4(req.versions) || req.window == 0 || (req.mtu != 0 && req.mtu < 23) {
                    bail!("wire:bad-handshake-request", "{req:?}");
                }
                self.req = Some(req);
            } else {
                let Some(req) = self.req else {
                    bail!("wire:handshake-response-without-request", "{}", short_hex(raw));
                };
                if self.resp.is_some() {
                    bail!("wire:second-handshake-response", "{}", short_hex(raw));
                }
                let Some(resp) = parse_hs_resp(&s) else {
                    bail!("wire:malformed-handshake-response", "{}", short_hex(raw));
                };
                let seg = resp.mtu as usize;
                if !version_offered(req.versions, resp.version)
                    || resp.window == 0
                    || resp.window > req.window
                    || !(MIN_SEG..=MAX_SEG).contains(&seg)
                    || (req.mtu != 0 && seg + 3 > req.mtu as usize)
                {
                    bail!(
                        "wire:bad-handshake-response",
                        "request {req:?} answered with {resp:?} (segment size must be 20..=244 and fit the requested ATT_MTU-3, window 1..=requested)"
                    );
                }
                self.resp = Some(resp);
                // the handshake response is the responder's sequence number 0
                self.dir[1].emitted = 1;
                self.dir[1].max_outstanding = 1;
            }
            return Ok(());
        }

        // data segment or stand-alone acknowledgement
        let Some(resp) = self.resp else {
            bail!("wire:data-before-handshake", "{who} emitted {}", short_hex(raw));
        };
        if from == 0 && self.dir[1].delivered == 0 {
            bail!(
                "wire:data-before-handshake",
                "initiator emitted {} before it got the handshake response",
                short_hex(raw)
            );
        }
        let w = resp.window as u64;
        let segsz = resp.mtu as usize;
        if raw.len() > segsz {
            bail!(
                "wire:segment-larger-than-negotiated",
                "{who} emitted {} bytes, negotiated segment size {segsz}",
                raw.len()
            );
        }
        if s.opcode.is_some() {
            bail!("wire:management-flag-on-data", "{}", short_hex(raw));
        }
        let seq = s.seq.unwrap_or(0);
        {
            let d = &self.dir[from];
            if seq as u64 != d.emitted % 256 {
                bail!(
                    "wire:sequence-not-consecutive",
                    "{who} emitted sequence number {seq}, expected {} (segment #{})",
                    d.emitted % 256,
                    d.emitted
                );
            }
        }
        // acknowledgement carried: must name a segment that was delivered to `from` and not
        // older than what it acknowledged before
        let other = 1 - from;
        if let Some(a) = s.ack {
            let o = &mut self.dir[other];
            // candidates: absolute indices acked_emitted-1 ..= delivered-1
            let lo = o.acked_emitted.saturating_sub(1);
            let hi = o.delivered; // exclusive
            let found = (lo..hi).rev().find(|j| (*j % 256) as u8 == a);
            match found {
                None => bail!(
                    "wire:ack-of-segment-never-received",
                    "{who} acknowledged {a}; it received segments #{lo}..#{hi} (exclusive) of the peer since its last acknowledgement"
                ),
                Some(j) => {
                    let newly = (j + 1).saturating_sub(o.acked_emitted);
                    let mut oldest: Option<(u64, u64)> = None;
                    let mut newest: Option<(u64, u64)> = None;
                    for _ in 0..newly {
                        if let Some(t) = o.arrival.pop_front() {
                            oldest.get_or_insert(t);
                            newest = Some(t);
                        }
                    }
                    if let (Some((t_old, b_old)), Some((t_new, b_new))) = (oldest, newest) {
                        // `from` is the receiver of these segments
                        let b_now = self.backlog_acc[from]
                            + self.backlog_since[from].map(|s| now.saturating_sub(s)).unwrap_or(0);
                        let raw = now.saturating_sub(t_old);
                        if raw > o.worst_ack_delay && t_old < u64::MAX / 4 {
                            o.worst_ack_delay = raw;
                        }
                        let (t, b) = if self.from_latest { (t_new, b_new) } else { (t_old, b_old) };
                        let delay = now.saturating_sub(t).saturating_sub(b_now.saturating_sub(b));
                        if self.check_deadline && delay > self.deadline_us {
                            let sig = if t_new > t_old && !self.from_latest && now.saturating_sub(t_new) <= self.deadline_us {
                                "ack-deadline:timer-restarted-by-later-segment"
                            } else {
                                "ack-deadline:ack-later-than-btp-ack-timeout"
                            };
                            bail!(
                                sig,
                                "{who} accepted a segment at t={t_old}us (newest covered one at t={t_new}us) and put the acknowledgement covering it on the wire at t={now}us: {}us after the deadline of {}us measured from the {} unacknowledged segment (time with unfetched messages excluded: {}us)",
                                delay - self.deadline_us,
                                self.deadline_us,
                                if self.from_latest { "newest" } else { "oldest" },
                                b_now.saturating_sub(b)
                            );
                        }
                    }
                    o.acked_emitted = o.acked_emitted.max(j + 1);
                }
            }
        }
        let standalone = !s.begin() && !s.cont() && !s.end();
        if standalone {
            if s.ack.is_none() {
                bail!("wire:empty-segment", "{who} emitted {}", short_hex(raw));
            }
            if !s.payload.is_empty() {
                bail!("wire:standalone-ack-with-payload", "{}", short_hex(raw));
            }
            self.standalone_acks += 1;
        } else {
            if s.begin() && s.cont() {
                bail!("wire:begin-and-continue", "{}", short_hex(raw));
            }
            let d = &mut self.dir[from];
            if s.begin() {
                if d.cur.is_some() {
                    bail!("wire:begin-inside-message", "{}", short_hex(raw));
                }
                d.cur = Some((s.msg_len.unwrap_or(0) as usize, Vec::new()));
                self.cur_segs[from] = 0;
            }
            let Some((declared, buf)) = d.cur.as_mut() else {
                bail!("wire:continuation-without-begin", "{}", short_hex(raw));
            };
            buf.extend_from_slice(&s.payload);
            self.cur_segs[from] += 1;
            if buf.len() > *declared {
                bail!(
                    "wire:payload-exceeds-message-length",
                    "declared {declared}, carried {}",
                    buf.len()
                );
            }
            if s.end() {
                if buf.len() != *declared {
                    bail!(
                        "wire:end-before-message-length",
                        "declared {declared}, carried {}",
                        buf.len()
                    );
                }
                d.cur = None;
                d.wire_msgs += 1;
                self.max_segs_per_msg = self.max_segs_per_msg.max(self.cur_segs[from]);
            }
        }
        let d = &mut self.dir[from];
        d.emitted += 1;
        let outstanding = d.emitted - d.acked_known;
        d.max_outstanding = d.max_outstanding.max(outstanding);
        if outstanding > w {
            bail!(
                "wire:window-overrun",
                "{who} has {outstanding} unacknowledged segments in flight (segment #{}), negotiated window {w}",
                d.emitted - 1
            );
        }
        if outstanding == w {
            self.window_full_events += 1;
            if s.ack.is_none() {
                // The last slot of the peer's window may only be used by a segment that carries
                // an acknowledgement (otherwise both windows can close with no way to reopen).
                let o = &self.dir[other];
                let suppressed = o.delivered_msgs > self.fetched[from] && o.delivered > o.acked_emitted;
                let sig = if suppressed {
                    "wire:last-window-slot-without-ack:while-message-unfetched"
                } else {
                    "wire:last-window-slot-without-ack"
                };
                bail!(
                    sig,
                    "{who} used the last slot of the peer's window (segment #{}, window {w}) for a segment without acknowledgement; it has {} unacknowledged segment(s) of the peer and {} unfetched complete message(s)",
                    self.dir[from].emitted - 1,
                    o.delivered - o.acked_emitted,
                    o.delivered_msgs.saturating_sub(self.fetched[from])
                );
            }
        }
        Ok(())
    }

    /// A segment emitted by `from` was accepted by the other end at `now`.
    fn on_deliver(&mut self, from: usize, raw: &[u8], now: u64) {
        let Some(s) = parse(raw) else { return };
        if s.is_handshake() {
            if from == 1 {
                self.dir[1].delivered = 1;
                // u64::MAX/2: "arrived" but exempt from the deadline
                let b = self.backlog_total(0, now);
                self.dir[1]
                    .arrival
                    .push_back((if self.exempt_handshake_ack { u64::MAX / 2 } else { now }, b));
            }
            return;
        }
        let b = self.backlog_total(1 - from, now);
        self.dir[from].delivered += 1;
        self.dir[from].arrival.push_back((now, b));
        if s.end() && (s.begin() || s.cont() || !s.payload.is_empty()) && !(s.begin() && s.msg_len == Some(0)) {
            self.dir[from].delivered_msgs += 1;
            if self.backlog_since[1 - from].is_none() {
                self.backlog_since[1 - from] = Some(now);
            }
        }
        if let Some(a) = s.ack {
            // the receiver of this segment is the emitter of direction `1 - from`
            let o = &mut self.dir[1 - from];
            let lo = o.acked_known.saturating_sub(1);
            if let Some(j) = (lo..o.emitted).rev().find(|j| (*j % 256) as u8 == a) {
                o.acked_known = o.acked_known.max(j + 1);
            }
        }
    }

    /// Acknowledgement deadline: no delivered segment may stay unacknowledged (on the wire)
    /// for longer than BTP_ACK_TIMEOUT.
    fn check_deadline(&self, now: u64) -> Result<(), Fail> {
        if !self.check_deadline {
            return Ok(());
        }
        for (i, d) in self.dir.iter().enumerate() {
            let (Some((t_old, b_old)), Some((t_new, b_new))) = (d.arrival.front().copied(), d.arrival.back().copied()) else {
                continue;
            };
            // the receiver of direction `i` is end `1 - i`
            let b_now = self.backlog_total(1 - i, now);
            let (t, b) = if self.from_latest { (t_new, b_new) } else { (t_old, b_old) };
            let waited = now.saturating_sub(t).saturating_sub(b_now.saturating_sub(b));
            if waited > self.deadline_us {
                let who = if i == 0 { "responder" } else { "initiator" };
                let sig = if i == 1 && d.acked_emitted == 0 {
                    "ack-deadline:handshake-response-never-acknowledged"
                } else if t_new > t_old && !self.from_latest && now <= t_new.saturating_add(self.deadline_us) {
                    "ack-deadline:timer-restarted-by-later-segment"
                } else {
                    "ack-deadline:ack-later-than-btp-ack-timeout"
                };
                bail!(
                    sig,
                    "{who} accepted segment #{} at t={t_old}us; at t={now}us no acknowledgement covering it is on the wire ({} later segments arrived, last at t={t_new}us); deadline {}us after the {} unacknowledged segment (time with unfetched messages excluded: {}us)",
                    d.acked_emitted,
                    d.arrival.len() - 1,
                    self.deadline_us,
                    if self.from_latest { "newest" } else { "oldest" },
                    b_now.saturating_sub(b)
                );
            }
        }
        Ok(())
    }
}

// ---------------------------------------------------------------------------------------------
// Sub-check `conversation`
// ---------------------------------------------------------------------------------------------

#[derive(Debug, Clone, Serialize, Deserialize)]
struct MsgSpec {
    len: u16,
    seed: u8,
}

#[derive(Debug, Clone, Serialize, Deserialize)]
struct Conv {
    /// ATT MTU reported by the stack of the initiator (central); `None` = unknown
    mtu_i: Option<u16>,
    /// ATT MTU reported by the stack of the responder (peripheral)
    mtu_r: Option<u16>,
    relaxed: bool,
    /// messages the initiator's application sends
    msgs_i: Vec<MsgSpec>,
    /// messages the responder's application sends
    msgs_r: Vec<MsgSpec>,
    /// schedule: one action per byte, consumed cyclically
    script: Vec<u8>,
    /// keep clear of the message lengths hit by the known finding
    /// `honest:refused:first-segment-of-message-with-len<=segment-size`
    avoid_band: bool,
}

fn att_mtu() -> impl Strategy<Value = Option<u16>> {
    prop_oneof![
        2 => Just(None),
        3 => prop::sample::select(vec![23u16, 24, 25, 26, 27, 28, 30, 64, 100, 185, 200, 246, 247, 248, 255, 256, 512, 517]).prop_map(Some),
        3 => (23u16..=517).prop_map(Some),
    ]
}

fn msg_len() -> impl Strategy<Value = u16> {
    let max = MAX_MSG as u16;
    prop_oneof![
        3 => 1u16..=40,
        3 => 1u16..=max,
        2 => prop::sample::select(vec![1u16, 14, 15, 16, 17, 18, 19, 20, 33, 34, 35, 238, 239, 240, 241, 242, 243, 244, 245, 480, 481, max - 1, max]),
        2 => (max - 200)..=max,
        1 => Just(0u16),
    ]
}

fn msgs(max_n: usize) -> impl Strategy<Value = Vec<MsgSpec>> {
    prop::collection::vec((msg_len(), any::<u8>()).prop_map(|(len, seed)| MsgSpec { len, seed }), 0..=max_n)
}

fn conv() -> impl Strategy<Value = Conv> {
    (
        att_mtu(),
        prop_oneof![3 => Just(None), 1 => att_mtu().prop_map(Some)],
        any::<bool>(),
        prop_oneof![3 => msgs(6), 1 => msgs(48)],
        prop_oneof![3 => msgs(6), 1 => msgs(48)],
        prop::collection::vec(any::<u8>(), 1..48),
        // no open finding needs the length band to be avoided any more
        Just(false),
    )
        .prop_map(|(mtu_i, mtu_r, relaxed, msgs_i, msgs_r, script, avoid_band)| Conv {
            mtu_i,
            mtu_r: mtu_r.unwrap_or(mtu_i),
            relaxed,
            msgs_i,
            msgs_r,
            script,
            avoid_band,
        })
}

struct End<'a> {
    btp: &'a Btp,
    me: usize,
    my_addr: BtAddr,
    peer_addr: BtAddr,
    mtu: Option<u16>,
    /// messages still to send (index of next)
    to_send: Vec<MsgSpec>,
    next_send: usize,
    /// messages accepted by `send`
    handed: Vec<Vec<u8>>,
    received: usize,
    /// pipe towards the peer
    out: VecDeque<Vec<u8>>,
}

struct World<'a> {
    ends: [End<'a>; 2],
    mon: Mon,
    progress: u64,
    avoid_band: bool,
}

/// Length adjustment that keeps a conversation clear of the reported length band
/// (segment size - 5 ..= segment size). `None`: cannot tell yet (handshake not finished).
fn unband(len: usize, mon: &Mon) -> Option<usize> {
    if !(15..=MAX_SEG).contains(&len) {
        return Some(len);
    }
    let done = mon.resp.is_some() && mon.dir[1].delivered > 0;
    if !done {
        return None;
    }
    let segsz = mon.resp.map(|r| r.mtu as usize).unwrap_or(MIN_SEG);
    if len + 5 >= segsz && len <= segsz {
        Some(segsz + 1)
    } else {
        Some(len)
    }
}

impl<'a> World<'a> {
    /// Application hands the next message to the transport (one poll of `send`).
    fn app_send(&mut self, e: usize) -> Result<(), Fail> {
        let end = &mut self.ends[e];
        if end.next_send >= end.to_send.len() {
            return Ok(());
        }
        let spec = &end.to_send[end.next_send];
        let mut len = spec.len as usize;
        if self.avoid_band {
            match unband(len, &self.mon) {
                Some(l) => len = l,
                None => return Ok(()), // the application waits for the handshake
            }
        }
        let data = msg_bytes(len, spec.seed, end.next_send);
        let data = &data;
        match poll_once(end.btp.send(data, end.peer_addr)) {
            Poll::Pending => Ok(()),
            Poll::Ready(Ok(())) => {
                trace!("{} app: send({} bytes) accepted", e, data.len());
                if data.is_empty() {
                    bail!(
                        "honest:empty-message-accepted",
                        "send() of a 0-byte message returned Ok (it cannot be delivered)"
                    );
                }
                end.handed.push(data.clone());
                end.next_send += 1;
                self.progress += 1;
                Ok(())
            }
            Poll::Ready(Err(err)) => {
                if data.is_empty() || data.len() > MAX_MSG {
                    // clean refusal of a message outside 1..=MAX
                    end.next_send += 1;
                    self.progress += 1;
                    Ok(())
                } else {
                    bail!(
                        "honest:send-error",
                        "send() of a {}-byte message failed: {}",
                        data.len(),
                        errs(&err)
                    )
                }
            }
        }
    }

    /// Application takes one message (one poll of `recv`).
    fn app_recv(&mut self, e: usize) -> Result<bool, Fail> {
        let mut buf = [0u8; 2048];
        let r = poll_once(self.ends[e].btp.recv(&mut buf));
        match r {
            Poll::Pending => Ok(false),
            Poll::Ready(Err(err)) => bail!("honest:recv-error", "recv() failed: {}", errs(&err)),
            Poll::Ready(Ok((len, addr))) => {
                let who = if e == 0 { "initiator" } else { "responder" };
                let peer = &self.ends[1 - e];
                let k = self.ends[e].received;
                if k >= peer.handed.len() {
                    bail!(
                        "deliver:message-never-sent",
                        "{who} received message #{k} ({} bytes: {}) but the peer handed only {} messages to its transport",
                        len,
                        short_hex(&buf[..len]),
                        peer.handed.len()
                    );
                }
                let want = &peer.handed[k];
                if &buf[..len] != want.as_slice() {
                    let sig = if len != want.len() {
                        "deliver:wrong-length"
                    } else {
                        "deliver:corrupted"
                    };
                    bail!(
                        sig,
                        "{who} received message #{k}: {} bytes {}; sent: {} bytes {}",
                        len,
                        short_hex(&buf[..len]),
                        want.len(),
                        short_hex(want)
                    );
                }
                if addr != self.ends[e].peer_addr {
                    bail!("deliver:wrong-peer-address", "{who} got address {addr:?}");
                }
                trace!("{} app: recv -> {} bytes", e, len);
                self.mon.note_fetch(e, clock::now());
                self.ends[e].received += 1;
                self.progress += 1;
                Ok(true)
            }
        }
    }

    /// GATT driver: one `process_outgoing`.
    fn drv_out(&mut self, e: usize) -> Result<bool, Fail> {
        let mut buf = [0u8; 512];
        let end = &mut self.ends[e];
        match end.btp.process_outgoing(end.mtu, &mut buf) {
            Err(err) => bail!(
                "honest:process-outgoing-error",
                "process_outgoing failed on {}: {}",
                if e == 0 { "initiator" } else { "responder" },
                errs(&err)
            ),
            Ok(0) => Ok(false),
            Ok(len) => {
                trace!("{} drv: process_outgoing -> {}", e, short_hex(&buf[..len]));
                self.mon.on_emit(e, &buf[..len], clock::now())?;
                end.out.push_back(buf[..len].to_vec());
                self.progress += 1;
                Ok(true)
            }
        }
    }

    /// GATT driver: deliver the oldest queued segment sent by `1 - e` to `e`.
    fn drv_in(&mut self, e: usize) -> Result<bool, Fail> {
        let Some(seg) = self.ends[1 - e].out.pop_front() else {
            return Ok(false);
        };
        let end = &self.ends[e];
        let _ = end.my_addr;
        trace!("{} drv: process_incoming({})", e, short_hex(&seg));
        match end.btp.process_incoming(end.mtu, end.peer_addr, &seg) {
            Err(err) => {
                // finer signature for the one cause that is already reported, so that the
                // search continues behind it
                let segsz = self.mon.resp.map(|r| r.mtu).unwrap_or(0);
                let sig = match parse(&seg) {
                    Some(s)
                        if s.begin()
                            && !s.end()
                            && !s.is_handshake()
                            && s.msg_len.map(|l| l <= segsz).unwrap_or(false) =>
                    {
                        "honest:refused:first-segment-of-message-with-len<=segment-size"
                    }
                    _ => "honest:segment-of-honest-peer-refused",
                };
                bail!(
                    sig,
                    "{} refused {} (negotiated segment size {segsz}): {}",
                    if e == 0 { "initiator" } else { "responder" },
                    short_hex(&seg),
                    errs(&err)
                )
            }
            Ok(()) => {
                self.mon.on_deliver(1 - e, &seg, clock::now());
                self.progress += 1;
                Ok(true)
            }
        }
    }

    fn all_done(&self) -> bool {
        (0..2).all(|e| {
            self.ends[e].next_send >= self.ends[e].to_send.len()
                && self.ends[1 - e].received == self.ends[e].handed.len()
        })
    }

    /// One fair round: everybody gets a turn. Returns whether anything happened.
    fn fair_round(&mut self) -> Result<bool, Fail> {
        let before = self.progress;
        for e in 0..2 {
            self.app_send(e)?;
            while self.drv_out(e)? {}
            while self.drv_in(1 - e)? {}
            while self.app_recv(1 - e)? {}
        }
        Ok(self.progress != before)
    }
}

fn check_conv(c: &Conv) -> Case {
    vh::sim::reset_universe();
    let a = Btp::new();
    let b = Btp::new();
    a.set_initiator(true);
    if c.relaxed {
        a.set_relaxed_mtu_nego(true);
        b.set_relaxed_mtu_nego(true);
    }
    let link_payload = match (c.mtu_i, c.mtu_r) {
        (Some(x), Some(y)) if x == y => Some(x as usize - 3),
        _ => None,
    };
    let mk = |ms: &Vec<MsgSpec>| -> Vec<MsgSpec> { ms.clone() };
    let mut w = World {
        ends: [
            End {
                btp: &a,
                me: 0,
                my_addr: ADDR_INITIATOR,
                peer_addr: ADDR_RESPONDER,
                mtu: c.mtu_i,
                to_send: mk(&c.msgs_i),
                next_send: 0,
                handed: Vec::new(),
                received: 0,
                out: VecDeque::new(),
            },
            End {
                btp: &b,
                me: 1,
                my_addr: ADDR_RESPONDER,
                peer_addr: ADDR_INITIATOR,
                mtu: c.mtu_r,
                to_send: mk(&c.msgs_r),
                next_send: 0,
                handed: Vec::new(),
                received: 0,
                out: VecDeque::new(),
            },
        ],
        mon: Mon::new(link_payload, false),
        progress: 0,
        avoid_band: c.avoid_band,
    };
    let _ = (w.ends[0].me, w.ends[1].me);

    let total_bytes: usize = c.msgs_i.iter().chain(c.msgs_r.iter()).map(|m| m.len as usize).sum();
    // generous step budget for the scripted phase: every 16 payload bytes may need a segment,
    // every segment a handful of actions
    let budget = 400 + (total_bytes / 16 + c.msgs_i.len() + c.msgs_r.len()) * 16;

    let r: Result<(), Fail> = (|| {
        let mut i = 0usize;
        while i < budget && !w.all_done() {
            let byte = c.script[i % c.script.len()];
            i += 1;
            let e = (byte & 1) as usize;
            match (byte >> 1) % 12 {
                0 | 1 => w.app_send(e)?,
                2 | 3 | 4 => {
                    w.drv_out(e)?;
                }
                5 | 6 => {
                    w.drv_in(e)?;
                }
                7 => {
                    w.app_recv(e)?;
                }
                8 => {
                    // burst: emit everything the window allows
                    while w.drv_out(e)? {}
                }
                9 => {
                    while w.drv_in(e)? {}
                }
                10 => {
                    while w.app_recv(e)? {}
                }
                _ => {
                    // time passes (no more than the driver's poll period)
                    let ms = 1 + (byte as u64 >> 5) * 140;
                    clock::advance_by(ms * 1000);
                }
            }
        }
        // fair completion: everything handed to the transport must come out
        let mut idle_secs = 0;
        let mut rounds = 0u32;
        while !w.all_done() {
            rounds += 1;
            if rounds > 200_000 {
                bail!("harness:round-limit", "fair phase did not terminate");
            }
            if w.fair_round()? {
                idle_secs = 0;
            } else {
                idle_secs += 1;
                if idle_secs > 40 {
                    let pend: Vec<String> = (0..2)
                        .map(|e| {
                            format!(
                                "{}: handed {} of {}, peer received {}, emitted {} segs, acked(known) {}",
                                if e == 0 { "initiator" } else { "responder" },
                                w.ends[e].handed.len(),
                                w.ends[e].to_send.len(),
                                w.ends[1 - e].received,
                                w.mon.dir[e].emitted,
                                w.mon.dir[e].acked_known
                            )
                        })
                        .collect();
                    bail!(
                        "stall:message-never-delivered",
                        "no progress for 40 s of virtual time under a fair schedule; window {:?}; {}",
                        w.mon.window(),
                        pend.join("; ")
                    );
                }
                clock::advance_by(1_000_000);
            }
        }
        // a few more fair rounds: nothing else may come out
        for _ in 0..3 {
            w.fair_round()?;
        }
        Ok(())
    })();

    if let Err(f) = r {
        return f.case();
    }
    for e in 0..2 {
        if w.ends[e].received != w.ends[1 - e].handed.len() {
            return Case::fail("deliver:count-mismatch", "message count mismatch after completion");
        }
    }
    let wraps = w.mon.wraps(0) + w.mon.wraps(1);
    let multi = w.mon.max_segs_per_msg >= 3;
    let stalled = w.mon.window_full_events > 0;
    let mut labels = Vec::new();
    if let Some(r) = w.mon.resp {
        labels.push(format!(
            "segsize-{}",
            match r.mtu {
                20 => "20",
                21..=60 => "21-60",
                61..=200 => "61-200",
                201..=243 => "201-243",
                _ => "244",
            }
        ));
        labels.push(format!(
            "window-{}",
            match r.window {
                0..=6 => "<=6",
                7..=20 => "7-20",
                21..=78 => "21-78",
                _ => ">=79",
            }
        ));
    } else {
        labels.push("no-handshake".into());
    }
    if wraps > 0 {
        labels.push("seq-wrap".into());
    }
    if wraps > 1 {
        labels.push("seq-wrap>=2".into());
    }
    if stalled {
        labels.push("window-full".into());
    }
    if multi {
        labels.push("msg>=3-segments".into());
    }
    if w.mon.standalone_acks > 0 {
        labels.push("standalone-ack".into());
    }
    if !c.msgs_i.is_empty() && !c.msgs_r.is_empty() {
        labels.push("bidirectional".into());
    }
    Case::pass(multi && (wraps > 0 || stalled)).labels(labels)
}

// ---------------------------------------------------------------------------------------------
// Sub-check `timed`: the in-tree driver loops on the virtual clock
// ---------------------------------------------------------------------------------------------

#[derive(Debug, Clone, Serialize, Deserialize)]
struct SendPlan {
    /// the application waits this long (ms) before handing the message over
    delay_ms: u32,
    len: u16,
    seed: u8,
}

#[derive(Debug, Clone, Serialize, Deserialize)]
struct Timed {
    mtu: Option<u16>,
    relaxed: bool,
    plan_i: Vec<SendPlan>,
    plan_r: Vec<SendPlan>,
    /// how long (ms) each application needs to come and fetch a message once it is available
    fetch_i_ms: u16,
    fetch_r_ms: u16,
    /// idle time (s) after the last planned send
    tail_s: u8,
    /// poll order among ready tasks
    order: Vec<u8>,
    /// apply the acknowledgement deadline to the handshake response as well (known finding
    /// `ack-deadline:handshake-response-never-acknowledged`)
    strict_hs_ack: bool,
    /// 0: deadline = BTP_ACK_TIMEOUT after the oldest unacknowledged segment (the statement);
    /// 1: + 1 s (poll period of the driver loop) - behind `ack-later-than-btp-ack-timeout`;
    /// 2: + 1 s and measured from the newest segment - behind `timer-restarted-by-later-segment`
    deadline_mode: u8,
}

fn send_plan(max_n: usize) -> impl Strategy<Value = Vec<SendPlan>> {
    prop::collection::vec(
        (
            prop_oneof![
                3 => 0u32..50,
                3 => 0u32..3_000,
                2 => prop::sample::select(vec![999u32, 1_000, 1_001, 7_000, 13_500, 14_000, 14_999, 15_000, 15_001, 16_000]),
                2 => 2_000u32..7_500,
                1 => 0u32..31_000,
            ],
            msg_len(),
            any::<u8>(),
        )
            .prop_map(|(delay_ms, len, seed)| SendPlan { delay_ms, len: len.max(1), seed }),
        0..=max_n,
    )
}

fn timed() -> impl Strategy<Value = Timed> {
    (
        att_mtu(),
        any::<bool>(),
        send_plan(8),
        send_plan(8),
        prop_oneof![2 => Just(0u16), 2 => 0u16..20, 2 => 0u16..1_500],
        prop_oneof![2 => Just(0u16), 2 => 0u16..20, 2 => 0u16..1_500],
        prop_oneof![1 => Just(0u8), 2 => 14u8..=18, 2 => 0u8..70],
        prop::collection::vec(any::<u8>(), 1..24),
        // no open timing finding: the deadline of the statement applies everywhere
        Just(true),
        Just(0u8),
    )
        .prop_map(|(mtu, relaxed, plan_i, plan_r, fetch_i_ms, fetch_r_ms, tail_s, order, strict_hs_ack, deadline_mode)| Timed {
            mtu,
            relaxed,
            plan_i,
            plan_r,
            fetch_i_ms,
            fetch_r_ms,
            tail_s,
            order,
            strict_hs_ack,
            deadline_mode,
        })
}

#[derive(Default)]
struct Pipe {
    q: RefCell<VecDeque<Vec<u8>>>,
    waker: RefCell<Option<Waker>>,
}

impl Pipe {
    fn push(&self, seg: Vec<u8>) {
        self.q.borrow_mut().push_back(seg);
        if let Some(w) = self.waker.borrow_mut().take() {
            w.wake();
        }
    }

    async fn pop(&self) -> Vec<u8> {
        std::future::poll_fn(|cx| {
            if let Some(seg) = self.q.borrow_mut().pop_front() {
                Poll::Ready(seg)
            } else {
                *self.waker.borrow_mut() = Some(cx.waker().clone());
                Poll::Pending
            }
        })
        .await
    }
}

struct TimedShared {
    mon: RefCell<Mon>,
    fail: RefCell<Option<Fail>>,
    /// messages handed to the transport, per side
    handed: [RefCell<Vec<Vec<u8>>>; 2],
    received: [Cell<usize>; 2],
    plans_done: [Cell<bool>; 2],
}

impl TimedShared {
    fn fail(&self, f: Fail) {
        let mut g = self.fail.borrow_mut();
        if g.is_none() {
            *g = Some(f);
        }
    }
    fn failed(&self) -> bool {
        self.fail.borrow().is_some()
    }
}

fn check_timed(c: &Timed) -> Case {
    use embassy_time::Timer;

    vh::sim::reset_universe();
    let btps = [Btp::new(), Btp::new()];
    btps[0].set_initiator(true);
    if c.relaxed {
        btps[0].set_relaxed_mtu_nego(true);
        btps[1].set_relaxed_mtu_nego(true);
    }
    let addrs = [ADDR_INITIATOR, ADDR_RESPONDER];
    let pipes = [Pipe::default(), Pipe::default()]; // pipes[e]: segments emitted by e
    let sh = TimedShared {
        mon: RefCell::new(Mon::new(c.mtu.map(|m| m as usize - 3), true)),
        fail: RefCell::new(None),
        handed: [RefCell::new(Vec::new()), RefCell::new(Vec::new())],
        received: [Cell::new(0), Cell::new(0)],
        plans_done: [Cell::new(false), Cell::new(false)],
    };
    {
        let mut m = sh.mon.borrow_mut();
        m.exempt_handshake_ack = !c.strict_hs_ack;
        m.deadline_us = BTP_ACK_TIMEOUT_US + if c.deadline_mode >= 1 { 1_000_000 } else { 0 };
        m.from_latest = c.deadline_mode >= 2;
    }
    let plans = [&c.plan_i, &c.plan_r];
    let fetch = [c.fetch_i_ms, c.fetch_r_ms];
    let mtu = c.mtu;
    let t0 = clock::now();

    let mut ex = Exec::new(Sched::Script(c.order.clone()));
    for e in 0..2usize {
        let btp = &btps[e];
        let sh = &sh;
        let pipes = &pipes;
        let who = if e == 0 { "initiator" } else { "responder" };

        // verbatim copy of `process_c1_writes` / `process_indicate`
        ex.spawn(&format!("{who}-out"), async move {
            let mut buf = [0u8; 512];
            loop {
                match btp.process_outgoing(mtu, &mut buf) {
                    Err(err) => {
                        sh.fail(Fail {
                            sig: "honest:process-outgoing-error".into(),
                            detail: format!("{who}: {}", errs(&err)),
                        });
                        return;
                    }
                    Ok(0) => btp.wait_outgoing().await,
                    Ok(len) => {
                        trace!("{who} out {}", short_hex(&buf[..len]));
                        if let Err(f) = sh.mon.borrow_mut().on_emit(e, &buf[..len], clock::now()) {
                            sh.fail(f);
                            return;
                        }
                        pipes[e].push(buf[..len].to_vec());
                    }
                }
            }
        });
        // verbatim copy of `process_c2_indications` / `process_write`
        ex.spawn(&format!("{who}-in"), async move {
            loop {
                let seg = pipes[1 - e].pop().await;
                trace!("{who} in  {}", short_hex(&seg));
                match btp.process_incoming(mtu, addrs[1 - e], &seg) {
                    Err(err) => {
                        let segsz = sh.mon.borrow().resp.map(|r| r.mtu).unwrap_or(0);
                        let sig = match parse(&seg) {
                            Some(s)
                                if s.begin()
                                    && !s.end()
                                    && !s.is_handshake()
                                    && s.msg_len.map(|l| l <= segsz).unwrap_or(false) =>
                            {
                                "honest:refused:first-segment-of-message-with-len<=segment-size"
                            }
                            _ => "honest:segment-of-honest-peer-refused",
                        };
                        sh.fail(Fail {
                            sig: sig.into(),
                            detail: format!("{who} refused {}: {}", short_hex(&seg), errs(&err)),
                        });
                        return;
                    }
                    Ok(()) => sh.mon.borrow_mut().on_deliver(1 - e, &seg, clock::now()),
                }
            }
        });
        // `wait_central_complete` / `wait_complete`: the session is closed on idle timeout
        ex.spawn(&format!("{who}-timeout"), async move {
            btp.wait_timeout().await;
            let hs_unacked = e == 1 && sh.mon.borrow().dir[1].acked_emitted == 0;
            sh.fail(Fail {
                sig: if hs_unacked {
                    "idle-timeout:handshake-response-never-acknowledged".into()
                } else {
                    "idle-timeout-between-honest-ends".into()
                },
                detail: format!(
                    "{who} reports the session timed out at t={}us although both drivers and applications were prompt",
                    clock::now() - t0
                ),
            });
        });
        // sending application
        let plan = plans[e];
        ex.spawn(&format!("{who}-app-send"), async move {
            for (i, p) in plan.iter().enumerate() {
                Timer::after_millis(p.delay_ms as u64).await;
                let len = loop {
                    let l = unband(p.len as usize, &sh.mon.borrow());
                    match l {
                        Some(l) => break l,
                        None => Timer::after_millis(1).await,
                    }
                };
                let data = msg_bytes(len, p.seed, i);
                trace!("{who} app send {} bytes", data.len());
                if let Err(err) = btp.send(&data, addrs[1 - e]).await {
                    sh.fail(Fail {
                        sig: "honest:send-error".into(),
                        detail: format!("{who}: send of {} bytes: {}", data.len(), errs(&err)),
                    });
                    return;
                }
                sh.handed[e].borrow_mut().push(data);
            }
            sh.plans_done[e].set(true);
        });
        // receiving application
        let fetch_ms = fetch[e];
        ex.spawn(&format!("{who}-app-recv"), async move {
            let mut buf = [0u8; 2048];
            loop {
                if btp.wait_available().await.is_err() {
                    return;
                }
                if fetch_ms > 0 {
                    Timer::after_millis(fetch_ms as u64).await;
                }
                match btp.recv(&mut buf).await {
                    Err(err) => {
                        sh.fail(Fail {
                            sig: "honest:recv-error".into(),
                            detail: format!("{who}: {}", errs(&err)),
                        });
                        return;
                    }
                    Ok((len, _)) => {
                        trace!("{who} app recv {len} bytes");
                        let k = sh.received[e].get();
                        let handed = sh.handed[1 - e].borrow();
                        // `send` returns before the message is on the wire, but it is recorded
                        // only after `send` returned: the in-flight one may be missing
                        let ok = handed.get(k).map(|w| w.as_slice() == &buf[..len]);
                        sh.mon.borrow_mut().note_fetch(e, clock::now());
                        match ok {
                            Some(true) => sh.received[e].set(k + 1),
                            Some(false) => {
                                sh.fail(Fail {
                                    sig: "deliver:corrupted".into(),
                                    detail: format!(
                                        "{who} received message #{k}: {} bytes {}, sent {} bytes",
                                        len,
                                        short_hex(&buf[..len]),
                                        handed[k].len()
                                    ),
                                });
                                return;
                            }
                            None => {
                                sh.fail(Fail {
                                    sig: "deliver:message-never-sent".into(),
                                    detail: format!("{who} received message #{k} ({len} bytes), peer handed {}", handed.len()),
                                });
                                return;
                            }
                        }
                    }
                }
            }
        });
    }
    {
        // deadline ticker
        let sh = &sh;
        ex.spawn("ticker", async move {
            loop {
                Timer::after_millis(250).await;
                if let Err(f) = sh.mon.borrow().check_deadline(clock::now()) {
                    sh.fail(f);
                    return;
                }
            }
        });
    }

    let planned: u64 = [&c.plan_i, &c.plan_r]
        .iter()
        .map(|p| p.iter().map(|s| s.delay_ms as u64 + 20).sum::<u64>())
        .max()
        .unwrap_or(0);
    // the applications fetch one message per `fetch_*_ms`
    let fetching = (c.plan_i.len() as u64 * (c.fetch_r_ms as u64 + 1)).max(c.plan_r.len() as u64 * (c.fetch_i_ms as u64 + 1));
    // Run at least until `min_end` (planned sends + idle tail); if something is still
    // undelivered then, allow 40 more seconds: every wait in the protocol is bounded by the
    // 15 s acknowledgement timer.
    let min_end = t0 + (planned + fetching + c.tail_s as u64 * 1000) * 1000;
    let deadline = min_end + 40_000_000;
    let all_delivered = || {
        (0..2).all(|e| sh.plans_done[e].get() && sh.handed[e].borrow().len() == sh.received[1 - e].get())
    };
    let stop = ex.run_until(deadline, || sh.failed() || (clock::now() >= min_end && all_delivered()));
    drop(ex);
    if let Some(f) = sh.fail.borrow_mut().take() {
        return f.case();
    }
    if matches!(stop, vh::sim::Stop::PollLimit) {
        return Case::inconclusive("poll limit in timed conversation");
    }
    // everything handed over at least 2 s ago must have been delivered
    for e in 0..2 {
        if !sh.plans_done[e].get() {
            return Case::fail(
                "stall:message-never-delivered",
                format!(
                    "{}: send() still blocked {} ms after the last planned send",
                    if e == 0 { "initiator" } else { "responder" },
                    40_000 + c.tail_s as u64 * 1000
                ),
            );
        }
        let handed = sh.handed[e].borrow().len();
        let got = sh.received[1 - e].get();
        if handed != got {
            return Case::fail(
                "stall:message-never-delivered",
                format!(
                    "{} handed {handed} messages, the peer's application got {got} by the end of the run",
                    if e == 0 { "initiator" } else { "responder" }
                ),
            );
        }
    }
    let mon = sh.mon.borrow();
    let worst = mon.dir[0].worst_ack_delay.max(mon.dir[1].worst_ack_delay);
    let mut labels = vec![format!(
        "worst-ack-delay-{}",
        match worst {
            0..=999_999 => "<1s",
            1_000_000..=13_999_999 => "1-14s",
            14_000_000..=14_999_999 => "14-15s",
            15_000_000 => "=15s",
            _ => ">15s",
        }
    )];
    if mon.standalone_acks > 0 {
        labels.push("standalone-ack".into());
    }
    if mon.standalone_acks > 2 {
        labels.push("keepalive-ping-pong".into());
    }
    let total = mon.dir[0].emitted + mon.dir[1].emitted;
    Case::pass(total > 2 && worst >= 1_000_000).labels(labels)
}

// ---------------------------------------------------------------------------------------------
// Sub-check `hostile`: one real `Btp` against a harness peer
// ---------------------------------------------------------------------------------------------

/// Outcome of one call into the code under test, panics contained.
enum Out<T> {
    Ok(T),
    Err(String),
    Panic(Fail),
}

/// Run one call of the code under test; a panic inside rs-matter becomes `Out::Panic` with
/// the `panic@file:line` signature of the runner, a panic inside the harness is re-raised.
fn sut<T>(f: impl FnOnce() -> Result<T, Error>) -> Out<T> {
    let mut slot: Option<Result<T, Error>> = None;
    let c = guarded(|| {
        slot = Some(f());
        Case::pass(false)
    });
    match (slot, c.verdict) {
        (Some(Ok(v)), _) => Out::Ok(v),
        (Some(Err(e)), _) => Out::Err(errs(&e)),
        (None, Verdict::Fail { signature, detail }) => Out::Panic(Fail { sig: signature, detail }),
        (None, Verdict::Inconclusive(m)) => panic!("harness panic inside sut(): {m}"),
        (None, Verdict::Pass) => panic!("sut(): no result"),
    }
}

#[derive(Debug, Clone, Copy, Serialize, Deserialize, PartialEq)]
enum AckMode {
    None,
    /// acknowledge the newest segment of the victim (nothing if all are acknowledged)
    Latest,
    /// acknowledge the segment `k` before the newest one
    Back(u8),
    /// acknowledge a sequence number the victim has not used yet (newest + 1 + k)
    Never(u8),
    Abs(u8),
}

#[derive(Debug, Clone, Copy, Serialize, Deserialize, PartialEq)]
enum Fault {
    None,
    SeqDelta(i8),
    BeginCont,
    LenDelta(i16),
    PayloadExtra(u8),
    PayloadShort(u8),
    EndEarly,
    NoEnd,
    BeginInside,
    ContNoBegin,
    Flags(u8),
}

#[derive(Debug, Clone, Serialize, Deserialize)]
enum HOp {
    /// well-formed handshake (request towards a responder victim, response towards an
    /// initiator victim)
    HsGood { mtu_sel: u16, window: u8 },
    /// handshake with arbitrary fields
    Hs { versions: u32, mtu: u16, window: u8 },
    /// next data segment of the attacker's current message (or first one of a new message of
    /// `new_len` bytes), with one optional fault
    Seg { new_len: u16, fill: u8, ack: AckMode, fault: Fault },
    /// stand-alone acknowledgement
    Ack { ack: AckMode, fault: Fault },
    Raw(Vec<u8>),
    /// the victim's driver calls `process_outgoing` up to n times
    Out(u8),
    Recv,
    Send { len: u16, seed: u8 },
    Advance(u32),
    /// `n` rounds of: conforming next segment (acknowledging the victim), victim driver,
    /// application fetch - long honest stretches (sequence-number wrap)
    Burst { n: u16, len: u16 },
}

#[derive(Debug, Clone, Serialize, Deserialize)]
struct Hostile {
    initiator: bool,
    relaxed: bool,
    gatt_mtu: Option<u16>,
    ops: Vec<HOp>,
    /// do not inject segments that the oracle expects to trigger an already reported finding
    /// (keeps whole cases clear of them so that deeper states are reached and labelled)
    #[serde(default)]
    skip_known: bool,
}

#[derive(Debug, Clone, Copy, PartialEq)]
enum Expect {
    MustOk,
    MustErr(&'static str),
    Either(&'static str),
}

/// What the harness knows about the session from the wire (never from the victim's state).
struct HModel {
    victim_initiator: bool,
    /// handshake request seen (emitted by an initiator victim / accepted by a responder victim)
    req: Option<HsReq>,
    req_valid: bool,
    awaiting_resp: bool,
    /// something happened whose effect the statement does not define: when the session gets
    /// established it is not "precise"
    tainted: bool,
    est: bool,
    precise: bool,
    segsz: usize,
    w: u64,
    // attacker -> victim
    p_sent: u64,
    p_acked: u64,
    p_next_seq: u8,
    rx: Option<(usize, Vec<u8>)>,
    /// completed messages not fetched yet; `None` = zero-length message (may be skipped)
    expect: VecDeque<Option<Vec<u8>>>,
    // victim -> attacker
    a_sent: u64,
    a_acked: u64,
    tx_off: Option<usize>,
    a_handed: VecDeque<Vec<u8>>,
    victim_msgs: u32,
    wrapped: bool,
}

impl HModel {
    fn new(victim_initiator: bool) -> Self {
        Self {
            victim_initiator,
            req: None,
            req_valid: false,
            awaiting_resp: false,
            tainted: false,
            est: false,
            precise: true,
            segsz: MIN_SEG,
            w: 0,
            p_sent: 0,
            p_acked: 0,
            p_next_seq: 0,
            rx: None,
            expect: VecDeque::new(),
            a_sent: 0,
            a_acked: 0,
            tx_off: None,
            a_handed: VecDeque::new(),
            victim_msgs: 0,
            wrapped: false,
        }
    }

    /// the wire view determines what the victim must deliver
    fn synced(&self) -> bool {
        self.precise && !self.tainted && !self.awaiting_resp
    }

    fn req_is_valid(r: &HsReq) -> bool {
        versions_contain_4(r.versions) && r.window >= 1 && (r.mtu == 0 || (23..=517).contains(&r.mtu))
    }

    fn resp_is_valid(&self, r: &HsResp) -> bool {
        let Some(req) = self.req else { return false };
        let seg = r.mtu as usize;
        version_offered(req.versions, r.version)
            && r.window >= 1
            && r.window <= req.window
            && (MIN_SEG..=MAX_SEG).contains(&seg)
            && (req.mtu == 0 || seg + 3 <= req.mtu as usize)
    }

    /// Classify a segment the attacker is about to inject (statement + specification).
    fn classify(&self, raw: &[u8]) -> Expect {
        let Some(s) = parse(raw) else {
            return Expect::Either("truncated header");
        };
        if s.is_handshake() {
            if self.victim_initiator {
                if let Some(r) = parse_hs_resp(&s) {
                    if s.flags == 0x65 && !self.est && !self.tainted && self.req.is_some() && self.resp_is_valid(&r) {
                        return Expect::MustOk;
                    }
                }
            } else if let Some(r) = parse_hs_req(&s) {
                if s.flags == 0x65 && !self.est && !self.awaiting_resp && !self.tainted && Self::req_is_valid(&r) {
                    return Expect::MustOk;
                }
            }
            return Expect::Either("handshake segment outside the canonical handshake");
        }
        if !self.est {
            if self.awaiting_resp || self.tainted {
                return Expect::Either("data while the handshake is in progress");
            }
            return Expect::MustErr("data-before-handshake");
        }
        if !self.precise {
            return Expect::Either("session parameters outside the specification");
        }
        // ---- named protocol violations ----
        if s.seq != Some(self.p_next_seq) {
            return Expect::MustErr("wrong-sequence-number");
        }
        let outstanding = self.p_sent - self.p_acked;
        // the handshake response occupies a window slot by the specification; the statement
        // does not say so, hence the band of one
        let hs_slot = if self.victim_initiator && self.p_acked == 0 { 1 } else { 0 };
        if outstanding - hs_slot >= self.w {
            return Expect::MustErr("window-overrun");
        }
        let mut ack_new = false;
        let mut ack_stale = false;
        if let Some(a) = s.ack {
            let never = self.a_sent < 256 && (a as u64) >= self.a_sent;
            if never {
                return Expect::MustErr("ack-of-segment-never-sent");
            }
            // new acknowledgement: names one of the unacknowledged segments
            ack_new = (self.a_acked..self.a_sent).any(|j| (j % 256) as u8 == a);
            ack_stale = !ack_new;
        }
        let data = s.begin() || s.cont() || s.end();
        if s.begin() && s.cont() {
            return Expect::MustErr("begin-and-continue");
        }
        let declared = s.msg_len.map(|l| l as usize);
        if data {
            if s.begin() {
                if self.rx.is_some() {
                    return Expect::MustErr("begin-inside-message");
                }
                let l = declared.unwrap_or(0);
                if s.payload.len() > l {
                    return Expect::MustErr("payload-exceeds-message-length");
                }
                if s.end() && s.payload.len() < l {
                    return Expect::MustErr("end-before-message-length");
                }
            } else {
                match &self.rx {
                    None => {
                        if !s.payload.is_empty() {
                            return Expect::MustErr("continuation-without-begin");
                        }
                    }
                    Some((l, got)) => {
                        let rem = l - got.len();
                        if s.payload.len() > rem {
                            return Expect::MustErr("payload-exceeds-message-length");
                        }
                        if s.end() && s.payload.len() < rem {
                            return Expect::MustErr("end-before-message-length");
                        }
                    }
                }
            }
        }
        // ---- canonical segments of a conforming peer ----
        if s.flags & (F_RESERVED | F_MGMT) != 0 {
            return Expect::Either("reserved or management flag");
        }
        if outstanding >= self.w {
            return Expect::Either("window slot of the handshake response");
        }
        if ack_stale {
            return Expect::Either("repeated acknowledgement");
        }
        if raw.len() > self.segsz {
            return Expect::Either("segment larger than negotiated");
        }
        if self.expect.iter().flatten().any(|m| m.len() > MAX_MSG)
            || self.rx.as_ref().map(|(l, _)| *l > MAX_MSG).unwrap_or(false)
        {
            // a message longer than any Matter message occupies the reassembly buffer: whether
            // there is room for more is not specified
            return Expect::Either("oversize message buffered");
        }
        if !data {
            return if s.ack.is_some() && ack_new && s.payload.is_empty() {
                Expect::MustOk
            } else {
                Expect::Either("neither data nor a new acknowledgement")
            };
        }
        if s.begin() {
            let l = declared.unwrap_or(0);
            if l == 0 || l > MAX_MSG {
                return Expect::Either("message length outside 1..=MAX");
            }
            if s.end() {
                // payload == l checked above
                Expect::MustOk
            } else if raw.len() == self.segsz && s.payload.len() < l {
                Expect::MustOk
            } else {
                Expect::Either("non-final segment that is not full")
            }
        } else {
            match &self.rx {
                None => Expect::Either("empty continuation without a message"),
                Some((l, got)) => {
                    let rem = l - got.len();
                    if rem == 0 {
                        return Expect::Either("continuation of a complete message");
                    }
                    if s.end() {
                        Expect::MustOk // payload == rem checked above
                    } else if raw.len() == self.segsz && s.payload.len() < rem {
                        Expect::MustOk
                    } else {
                        Expect::Either("non-final segment that is not full")
                    }
                }
            }
        }
    }

    /// The victim accepted `raw`: update the wire view.
    fn apply_ok(&mut self, raw: &[u8]) {
        let Some(s) = parse(raw) else {
            self.precise = false;
            return;
        };
        if s.is_handshake() {
            if self.victim_initiator {
                let r = parse_hs_resp(&s);
                let canonical = s.flags == 0x65
                    && !self.est
                    && !self.tainted
                    && r.map(|r| self.resp_is_valid(&r)).unwrap_or(false);
                self.est = true;
                self.precise = canonical;
                if let Some(r) = r {
                    self.segsz = r.mtu as usize;
                    self.w = r.window as u64;
                }
                self.p_sent = 1;
                self.p_acked = 0;
                self.p_next_seq = 1;
            } else {
                let r = parse_hs_req(&s);
                if self.est || self.awaiting_resp || s.flags != 0x65 {
                    self.tainted = true;
                }
                self.est = false;
                self.awaiting_resp = true;
                self.req = r;
                self.req_valid = r.map(|r| Self::req_is_valid(&r)).unwrap_or(false);
            }
            return;
        }
        if !self.est {
            self.tainted = true;
            return;
        }
        if !self.precise {
            return;
        }
        self.p_sent += 1;
        self.p_next_seq = self.p_next_seq.wrapping_add(1);
        if self.p_sent >= 256 {
            self.wrapped = true;
        }
        if let Some(a) = s.ack {
            if let Some(j) = (self.a_acked..self.a_sent).find(|j| (*j % 256) as u8 == a) {
                self.a_acked = j + 1;
            }
        }
        if s.begin() {
            self.rx = Some((s.msg_len.unwrap_or(0) as usize, s.payload.clone()));
        } else if s.cont() || s.end() {
            if let Some((_, got)) = self.rx.as_mut() {
                got.extend_from_slice(&s.payload);
            }
        }
        if s.end() {
            if let Some((l, got)) = self.rx.take() {
                if got.len() == l {
                    self.expect.push_back(if l == 0 { None } else { Some(got) });
                } else {
                    self.precise = false;
                }
            }
        } else if let Some((l, got)) = &self.rx {
            if got.len() >= *l {
                // all bytes of the message arrived in a segment that does not end it: what a
                // receiver makes of that is not specified
                self.precise = false;
            }
        }
    }

    /// The victim emitted `raw`.
    fn on_victim_out(&mut self, raw: &[u8]) -> Result<(), Fail> {
        let Some(s) = parse(raw) else {
            bail!("victim:unparsable-emission", "{}", short_hex(raw));
        };
        if s.is_handshake() {
            if self.victim_initiator {
                let Some(r) = parse_hs_req(&s) else {
                    bail!("victim:malformed-handshake-request", "{}", short_hex(raw));
                };
                if self.req.is_some() {
                    bail!("victim:second-handshake-request", "{}", short_hex(raw));
                }
                if !Self::req_is_valid(&r) || r.mtu == 0 {
                    bail!("victim:bad-handshake-request", "{r:?}");
                }
                if self.est {
                    self.precise = false;
                }
                self.req = Some(r);
                self.req_valid = true;
            } else {
                let Some(r) = parse_hs_resp(&s) else {
                    bail!("victim:malformed-handshake-response", "{}", short_hex(raw));
                };
                if !self.awaiting_resp {
                    bail!("victim:unsolicited-handshake-response", "{}", short_hex(raw));
                }
                if self.req_valid
                    && !self.tainted
                    && self.resp_is_valid(&HsResp { version: 4, ..r })
                    && !self.req.map(|q| version_offered(q.versions, r.version)).unwrap_or(false)
                {
                    bail!(
                        "victim:handshake-response-version-not-offered",
                        "request {:?} answered with version {}",
                        self.req,
                        r.version
                    );
                }
                if self.req_valid && !self.tainted && !self.resp_is_valid(&r) {
                    bail!(
                        "victim:bad-handshake-response",
                        "valid request {:?} answered with {r:?}",
                        self.req
                    );
                }
                self.awaiting_resp = false;
                self.est = true;
                self.precise = !self.tainted
                    && r.window >= 1
                    && (MIN_SEG..=MAX_SEG).contains(&(r.mtu as usize));
                self.segsz = r.mtu as usize;
                self.w = r.window as u64;
                self.a_sent = 1;
                self.a_acked = 0;
            }
            return Ok(());
        }
        if !self.est {
            bail!("victim:data-before-handshake", "victim emitted {}", short_hex(raw));
        }
        if !self.precise {
            self.a_sent += 1;
            return Ok(());
        }
        if s.seq != Some((self.a_sent % 256) as u8) {
            bail!(
                "victim:sequence-not-consecutive",
                "victim emitted sequence number {:?}, expected {} ({})",
                s.seq,
                self.a_sent % 256,
                short_hex(raw)
            );
        }
        if raw.len() > self.segsz {
            bail!(
                "victim:segment-larger-than-negotiated",
                "{} bytes, negotiated {}",
                raw.len(),
                self.segsz
            );
        }
        if s.flags & (F_RESERVED | F_MGMT) != 0 {
            bail!("victim:bad-flags", "{}", short_hex(raw));
        }
        if let Some(a) = s.ack {
            let lo = self.p_acked.saturating_sub(1);
            match (lo..self.p_sent).rev().find(|j| (*j % 256) as u8 == a) {
                Some(j) => self.p_acked = self.p_acked.max(j + 1),
                None => bail!(
                    "victim:ack-of-segment-never-received",
                    "victim acknowledged {a}; accepted segments of the peer: #{lo}..#{} (exclusive)",
                    self.p_sent
                ),
            }
        }
        let data = s.begin() || s.cont() || s.end();
        if !data {
            if s.ack.is_none() || !s.payload.is_empty() {
                bail!("victim:malformed-standalone-ack", "{}", short_hex(raw));
            }
        } else {
            if s.begin() {
                if self.tx_off.is_some() || s.cont() {
                    bail!("victim:begin-inside-message", "{}", short_hex(raw));
                }
                let Some(m) = self.a_handed.front() else {
                    bail!("victim:sends-message-nobody-handed-over", "{}", short_hex(raw));
                };
                if s.msg_len.map(|l| l as usize) != Some(m.len()) {
                    bail!(
                        "victim:sent-data-corrupted",
                        "declared length {:?}, message handed over has {} bytes",
                        s.msg_len,
                        m.len()
                    );
                }
                self.tx_off = Some(0);
            }
            let (Some(off), Some(m)) = (self.tx_off, self.a_handed.front()) else {
                bail!("victim:continuation-without-begin", "{}", short_hex(raw));
            };
            let end = off + s.payload.len();
            if end > m.len() || m[off..end] != s.payload[..] {
                bail!(
                    "victim:sent-data-corrupted",
                    "segment payload at offset {off} differs from the message handed to send(): {}",
                    short_hex(raw)
                );
            }
            if !s.end() && s.payload.is_empty() {
                bail!("victim:empty-non-final-segment", "{}", short_hex(raw));
            }
            self.tx_off = Some(end);
            if s.end() {
                if end != m.len() {
                    bail!("victim:sent-data-corrupted", "message ended after {end} of {} bytes", m.len());
                }
                self.a_handed.pop_front();
                self.tx_off = None;
                self.victim_msgs += 1;
            }
        }
        self.a_sent += 1;
        let outstanding = self.a_sent - self.a_acked;
        if outstanding > self.w {
            bail!(
                "victim:window-overrun",
                "victim has {outstanding} unacknowledged segments in flight, window {}",
                self.w
            );
        }
        Ok(())
    }
}

fn hs_bytes_req(versions: u32, mtu: u16, window: u8) -> Vec<u8> {
    let mut v = vec![0x65, 0x6c];
    v.extend_from_slice(&versions.to_le_bytes());
    v.extend_from_slice(&mtu.to_le_bytes());
    v.push(window);
    v
}

fn hs_bytes_resp(version: u8, mtu: u16, window: u8) -> Vec<u8> {
    let mut v = vec![0x65, 0x6c, version];
    v.extend_from_slice(&mtu.to_le_bytes());
    v.push(window);
    v
}

fn attacker_payload(fill: u8, off: usize, n: usize) -> Vec<u8> {
    (0..n).map(|i| fill.wrapping_add(((off + i) as u8).wrapping_mul(13)).wrapping_add(((off + i) >> 8) as u8)).collect()
}

/// Signatures already reported: the search continues behind them inside one case (fresh
/// victim, rest of the operations), and any *other* finding takes precedence in the verdict.
const BEHIND: &[&str] = &[
    // empty: every finding reported so far is repaired (see /verif fixes); add the signature
    // of an open finding here (and to known_findings.json) to keep searching behind it
];

struct HostileRun<'c> {
    c: &'c Hostile,
    victim: Btp,
    m: HModel,
    findings: Vec<Fail>,
    labels: Vec<&'static str>,
    parsed_faulty: u32,
    step: usize,
}

impl<'c> HostileRun<'c> {
    fn fresh_victim(&mut self) {
        self.victim = Btp::new();
        if self.c.initiator {
            self.victim.set_initiator(true);
        }
        if self.c.relaxed {
            self.victim.set_relaxed_mtu_nego(true);
        }
        self.m = HModel::new(self.c.initiator);
    }

    fn finding(&mut self, mut f: Fail) {
        f.detail = format!("op #{}: {}", self.step, f.detail);
        trace!("FINDING {} — {}", f.sig, f.detail);
        self.findings.push(f);
        self.fresh_victim();
    }

    fn peer(&self) -> BtAddr {
        if self.c.initiator {
            ADDR_RESPONDER
        } else {
            ADDR_INITIATOR
        }
    }

    /// The session ended with an error: what was complete is still fetched, then the glue
    /// resets the transport for the next connection.
    fn session_error(&mut self) {
        self.drain_recv(false);
        if self.findings.len() > 64 {
            return;
        }
        self.victim.reset();
        self.m = HModel::new(self.c.initiator);
    }

    fn recv_once(&mut self, must_deliver: bool) -> bool {
        let mut buf = [0u8; 4096];
        let r = {
            let v = &self.victim;
            let b = &mut buf;
            sut(move || match poll_once(v.recv(b)) {
                Poll::Pending => Ok(None),
                Poll::Ready(Ok((len, _))) => Ok(Some(len)),
                Poll::Ready(Err(e)) => Err(e),
            })
        };
        match r {
            Out::Panic(f) => {
                self.finding(f);
                false
            }
            Out::Err(e) => {
                trace!("victim app recv -> Err({e})");
                if self.m.synced() {
                    self.finding(Fail {
                        sig: "hostile:recv-error".into(),
                        detail: format!("recv() failed with {e} although every accepted segment was well-formed"),
                    });
                } else {
                    self.session_error_no_drain();
                }
                false
            }
            Out::Ok(None) => {
                if must_deliver && self.m.synced() && self.m.expect.iter().any(|e| e.is_some()) {
                    let n = self.m.expect.iter().filter(|e| e.is_some()).count();
                    self.finding(Fail {
                        sig: "hostile:accepted-message-not-delivered".into(),
                        detail: format!("{n} complete message(s) were accepted segment by segment but recv() has nothing"),
                    });
                }
                false
            }
            Out::Ok(Some(len)) => {
                trace!("victim app recv {} bytes: {}", len, short_hex(&buf[..len]));
                if !self.m.synced() {
                    return true;
                }
                let got = &buf[..len];
                // zero-length messages may or may not be delivered
                while matches!(self.m.expect.front(), Some(None)) && len != 0 {
                    self.m.expect.pop_front();
                }
                match self.m.expect.pop_front() {
                    Some(None) => true,
                    Some(Some(want)) if want.as_slice() == got => {
                        self.labels.push(if want.len() > 2 * self.m.segsz { "delivered-msg>=3-segments" } else { "delivered-msg" });
                        true
                    }
                    Some(Some(want)) => {
                        self.finding(Fail {
                            sig: "hostile:delivered-corrupted".into(),
                            detail: format!(
                                "victim delivered {} bytes {}; the accepted segments framed {} bytes {}",
                                len,
                                short_hex(got),
                                want.len(),
                                short_hex(&want)
                            ),
                        });
                        false
                    }
                    None => {
                        self.finding(Fail {
                            sig: "hostile:delivered-message-never-framed".into(),
                            detail: format!(
                                "victim delivered {} bytes {} but no complete message was framed by accepted segments",
                                len,
                                short_hex(got)
                            ),
                        });
                        false
                    }
                }
            }
        }
    }

    fn session_error_no_drain(&mut self) {
        self.victim.reset();
        self.m = HModel::new(self.c.initiator);
    }

    fn drain_recv(&mut self, must_deliver: bool) {
        let mut n = 0;
        while self.recv_once(must_deliver) {
            n += 1;
            if n > 300 {
                break;
            }
        }
    }

    fn inject(&mut self, raw: &[u8]) {
        let exp = self.m.classify(raw);
        if self.c.skip_known {
            let p = parse(raw);
            let hs = p.as_ref().map(|s| s.is_handshake()).unwrap_or(false);
            let len_band = p
                .as_ref()
                .map(|s| s.begin() && !s.end() && s.msg_len.map(|l| (l as usize) <= self.m.segsz).unwrap_or(false))
                .unwrap_or(false);
            let skip = matches!(
                exp,
                Expect::MustErr("data-before-handshake")
                    | Expect::MustErr("window-overrun")
                    | Expect::MustErr("ack-of-segment-never-sent")
                    | Expect::MustErr("begin-inside-message")
            ) || (hs && exp != Expect::MustOk)
                || (len_band && !hs)
                || (!self.m.est && !hs);
            if skip {
                self.labels.push("skipped-known-trigger");
                return;
            }
            // an acknowledgement far outside the window underflows (known) even when the
            // oracle says "unspecified" (repeated acknowledgement)
            if let Some(a) = p.as_ref().and_then(|s| s.ack) {
                let last = (self.m.a_sent.wrapping_sub(1) % 256) as u8;
                if last.wrapping_sub(a) as u64 > self.m.w && self.m.est {
                    self.labels.push("skipped-known-trigger");
                    return;
                }
            }
        }
        trace!("attacker -> {} [{:?}]", short_hex(raw), exp);
        if parse(raw).is_some() && self.m.est && !matches!(exp, Expect::MustOk) {
            self.parsed_faulty += 1;
        }
        let gatt = self.c.gatt_mtu;
        let peer = self.peer();
        let r = {
            let v = &self.victim;
            sut(move || v.process_incoming(gatt, peer, raw))
        };
        match r {
            Out::Panic(mut f) => {
                f.detail = format!("{} while processing {} (oracle: {:?})", f.detail, short_hex(raw), exp);
                self.finding(f);
            }
            Out::Ok(()) => match exp {
                Expect::MustErr(why) => {
                    self.labels.push("violation-accepted");
                    self.finding(Fail {
                        sig: format!("hostile:accepted:{why}"),
                        detail: format!(
                            "victim accepted {} ({why}); session: segment size {}, window {}, next sequence number {}, peer unacked {}, victim sent {} acked {}, message in progress {:?}",
                            short_hex(raw),
                            self.m.segsz,
                            self.m.w,
                            self.m.p_next_seq,
                            self.m.p_sent - self.m.p_acked,
                            self.m.a_sent,
                            self.m.a_acked,
                            self.m.rx.as_ref().map(|(l, g)| (*l, g.len()))
                        ),
                    });
                }
                Expect::MustOk => {
                    self.labels.push("valid-accepted");
                    self.m.apply_ok(raw);
                }
                Expect::Either(_) => {
                    self.labels.push("unspecified-accepted");
                    self.m.apply_ok(raw);
                }
            },
            Out::Err(e) => match exp {
                Expect::MustOk => {
                    let sig = match parse(raw) {
                        Some(s)
                            if s.begin()
                                && !s.end()
                                && !s.is_handshake()
                                && s.msg_len.map(|l| (l as usize) <= self.m.segsz).unwrap_or(false) =>
                        {
                            "hostile:refused:first-segment-of-message-with-len<=segment-size"
                        }
                        _ => "hostile:valid-segment-refused",
                    };
                    self.finding(Fail {
                        sig: sig.into(),
                        detail: format!(
                            "victim refused the conforming segment {} with {e}; segment size {}, window {}, peer unacked {}, message in progress {:?}",
                            short_hex(raw),
                            self.m.segsz,
                            self.m.w,
                            self.m.p_sent - self.m.p_acked,
                            self.m.rx.as_ref().map(|(l, g)| (*l, g.len()))
                        ),
                    });
                }
                Expect::MustErr(why) => {
                    self.labels.push("violation-refused");
                    self.labels.push(match why {
                        "data-before-handshake" => "refused:data-before-handshake",
                        "wrong-sequence-number" => "refused:wrong-sequence-number",
                        "window-overrun" => "refused:window-overrun",
                        "ack-of-segment-never-sent" => "refused:ack-of-segment-never-sent",
                        "begin-and-continue" => "refused:begin-and-continue",
                        "begin-inside-message" => "refused:begin-inside-message",
                        "payload-exceeds-message-length" => "refused:payload-exceeds-message-length",
                        "end-before-message-length" => "refused:end-before-message-length",
                        "continuation-without-begin" => "refused:continuation-without-begin",
                        _ => "refused:other",
                    });
                    self.session_error();
                }
                Expect::Either(_) => {
                    self.labels.push("unspecified-refused");
                    self.session_error();
                }
            },
        }
    }

    fn victim_out(&mut self, n: u8) {
        for _ in 0..n {
            let mut buf = [0u8; 512];
            let gatt = self.c.gatt_mtu;
            let r = {
                let v = &self.victim;
                let b = &mut buf;
                sut(move || v.process_outgoing(gatt, b))
            };
            match r {
                Out::Panic(f) => {
                    self.finding(f);
                    return;
                }
                Out::Err(e) => {
                    if self.m.precise {
                        self.finding(Fail {
                            sig: "victim:process-outgoing-error".into(),
                            detail: format!("process_outgoing failed with {e} in a session with valid parameters"),
                        });
                    } else {
                        self.session_error();
                    }
                    return;
                }
                Out::Ok(0) => return,
                Out::Ok(len) => {
                    trace!("victim   -> {}", short_hex(&buf[..len]));
                    if let Err(f) = self.m.on_victim_out(&buf[..len]) {
                        self.finding(f);
                        return;
                    }
                }
            }
        }
    }

    fn build_seg(&self, new_len: u16, fill: u8, ack: AckMode, fault: Fault, standalone: bool) -> Vec<u8> {
        let m = &self.m;
        let ack_v: Option<u8> = match ack {
            AckMode::None => None,
            AckMode::Latest => (m.a_sent > m.a_acked).then(|| (m.a_sent.wrapping_sub(1) % 256) as u8),
            AckMode::Back(k) => Some((m.a_sent.wrapping_sub(1).wrapping_sub(k as u64) % 256) as u8),
            AckMode::Never(k) => Some(((m.a_sent + k as u64) % 256) as u8),
            AckMode::Abs(v) => Some(v),
        };
        let mut flags = if ack_v.is_some() { F_ACK } else { 0 };
        let mut seq = m.p_next_seq;
        let mut declared = 0u16;
        let mut payload = Vec::new();
        if standalone {
            if ack_v.is_none() {
                flags |= F_ACK; // an acknowledgement segment always carries the flag
            }
        } else {
            let in_progress = match (&m.rx, fault) {
                (_, Fault::BeginInside) => None,
                (None, Fault::ContNoBegin) => Some((new_len as usize, 0usize)),
                (Some((l, got)), _) => Some((*l, got.len())),
                (None, _) => None,
            };
            let ack_len = if ack_v.is_some() { 1 } else { 0 };
            match in_progress {
                Some((l, got)) => {
                    let rem = l.saturating_sub(got);
                    let cap = m.segsz.saturating_sub(2 + ack_len);
                    let n = rem.min(cap);
                    flags |= F_CONT;
                    if n == rem {
                        flags |= F_END;
                    }
                    payload = attacker_payload(fill, got, n);
                }
                None => {
                    let l = new_len as usize;
                    let cap = m.segsz.saturating_sub(4 + ack_len);
                    let n = l.min(cap);
                    flags |= F_BEGIN;
                    if n == l {
                        flags |= F_END;
                    }
                    declared = new_len;
                    payload = attacker_payload(fill, 0, n);
                }
            }
        }
        match fault {
            Fault::None | Fault::BeginInside | Fault::ContNoBegin => {}
            Fault::SeqDelta(d) => seq = seq.wrapping_add(d as u8),
            Fault::BeginCont => flags |= F_BEGIN | F_CONT,
            Fault::LenDelta(d) => declared = declared.wrapping_add(d as u16),
            Fault::PayloadExtra(k) => payload.extend(attacker_payload(fill ^ 0x55, 0, k as usize + 1)),
            Fault::PayloadShort(k) => {
                let n = payload.len().saturating_sub(k as usize + 1);
                payload.truncate(n);
            }
            Fault::EndEarly => flags |= F_END,
            Fault::NoEnd => flags &= !F_END,
            Fault::Flags(x) => flags ^= x,
        }
        build(flags, 0x6c, ack_v.unwrap_or(0), seq, declared, &payload)
    }

    fn run(&mut self) {
        self.fresh_victim();
        let ops = &self.c.ops;
        for (i, op) in ops.iter().enumerate() {
            self.step = i;
            if self.findings.len() > 64 {
                break;
            }
            match op {
                HOp::HsGood { mtu_sel, window } => {
                    let raw = if self.c.initiator {
                        let req = self.m.req.unwrap_or(HsReq { versions: 4, mtu: 23, window: 79 });
                        let hi = (req.mtu as usize).saturating_sub(3).clamp(MIN_SEG, MAX_SEG);
                        let mtu = MIN_SEG + (*mtu_sel as usize) % (hi - MIN_SEG + 1);
                        let w = 1 + (*window as u16 % req.window.max(1) as u16) as u8;
                        hs_bytes_resp(4, mtu as u16, w)
                    } else {
                        let mtu = if *mtu_sel % 8 == 0 { 0 } else { 23 + *mtu_sel % 495 };
                        hs_bytes_req(4, mtu, (*window).max(1))
                    };
                    self.inject(&raw);
                }
                HOp::Hs { versions, mtu, window } => {
                    let raw = if self.c.initiator {
                        hs_bytes_resp(*versions as u8, *mtu, *window)
                    } else {
                        hs_bytes_req(*versions, *mtu, *window)
                    };
                    self.inject(&raw);
                }
                HOp::Seg { new_len, fill, ack, fault } => {
                    let raw = self.build_seg(*new_len, *fill, *ack, *fault, false);
                    self.inject(&raw);
                }
                HOp::Ack { ack, fault } => {
                    let raw = self.build_seg(0, 0, *ack, *fault, true);
                    self.inject(&raw);
                }
                HOp::Raw(raw) => {
                    if !raw.is_empty() {
                        // the in-tree glue never forwards an empty value
                        self.inject(raw);
                    }
                }
                HOp::Out(n) => self.victim_out(*n),
                HOp::Recv => {
                    self.recv_once(false);
                }
                HOp::Send { len, seed } => {
                    let data = msg_bytes(*len as usize, *seed, i);
                    let peer = self.peer();
                    let r = {
                        let v = &self.victim;
                        let d = &data;
                        sut(move || match poll_once(v.send(d, peer)) {
                            Poll::Pending => Ok(false),
                            Poll::Ready(Ok(())) => Ok(true),
                            Poll::Ready(Err(e)) => Err(e),
                        })
                    };
                    let valid_len = (1..=MAX_MSG).contains(&data.len());
                    match r {
                        Out::Panic(f) => self.finding(f),
                        Out::Ok(true) if !valid_len => self.finding(Fail {
                            sig: "victim:send-accepted-bad-length".into(),
                            detail: format!("send() accepted {} bytes", data.len()),
                        }),
                        Out::Ok(true) => self.m.a_handed.push_back(data),
                        Out::Ok(false) => {}
                        Out::Err(e) if valid_len => self.finding(Fail {
                            sig: "victim:send-error".into(),
                            detail: format!("send() of {} bytes failed with {e}", data.len()),
                        }),
                        Out::Err(_) => {}
                    }
                }
                HOp::Advance(ms) => clock::advance_by(*ms as u64 * 1000),
                HOp::Burst { n, len } => {
                    for k in 0..*n {
                        if self.findings.len() > 64 {
                            break;
                        }
                        let raw = self.build_seg(*len, k as u8, AckMode::Latest, Fault::None, false);
                        self.inject(&raw);
                        self.victim_out(2);
                        self.recv_once(false);
                    }
                }
            }
        }
        self.step = ops.len();
        if self.findings.len() <= 64 {
            self.victim_out(4);
            self.drain_recv(true);
        }
    }
}

fn check_hostile(c: &Hostile) -> Case {
    vh::sim::reset_universe();
    let mut r = HostileRun {
        c,
        victim: Btp::new(),
        m: HModel::new(c.initiator),
        findings: Vec::new(),
        labels: Vec::new(),
        parsed_faulty: 0,
        step: 0,
    };
    r.run();
    let n = r.findings.len();
    let pick = r
        .findings
        .iter()
        .find(|f| !BEHIND.contains(&f.sig.as_str()))
        .or(r.findings.first())
        .cloned();
    if let Some(mut f) = pick {
        if n > 1 {
            let mut sigs: Vec<&str> = r.findings.iter().map(|f| f.sig.as_str()).collect();
            sigs.dedup();
            f.detail = format!("{} [{} findings in this case: {}]", f.detail, n, sigs.join(", "));
        }
        return f.case();
    }
    let mut labels = r.labels.clone();
    labels.push(if c.initiator { "victim-initiator" } else { "victim-responder" });
    if r.m.victim_msgs > 0 {
        labels.push("victim-message-on-wire");
    }
    if r.m.wrapped {
        labels.push("attacker-seq-wrap");
    }
    Case::pass(r.parsed_faulty > 0).labels(labels)
}

/// Byte-level entry point for a libFuzzer target: bytes -> operations -> oracle.
pub fn btp_hostile_oracle(data: &[u8]) -> Result<(), String> {
    let c = decode_hostile(data);
    match check_hostile(&c).verdict {
        Verdict::Fail { signature, detail } => Err(format!("{signature}: {detail}")),
        _ => Ok(()),
    }
}

fn decode_hostile(data: &[u8]) -> Hostile {
    struct Cur<'a>(&'a [u8], usize);
    impl Cur<'_> {
        fn more(&self) -> bool {
            self.1 < self.0.len()
        }
        fn u8(&mut self) -> u8 {
            let v = self.0.get(self.1).copied().unwrap_or(0);
            self.1 += 1;
            v
        }
        fn u16(&mut self) -> u16 {
            u16::from_le_bytes([self.u8(), self.u8()])
        }
    }
    let mut c = Cur(data, 0);
    let b0 = c.u8();
    let gatt_mtu = match (b0 >> 2) & 3 {
        0 => None,
        1 => Some(23),
        2 => Some(247),
        _ => Some(23 + c.u16() % 495),
    };
    let mut ops = Vec::new();
    fn ack(c: &mut Cur) -> AckMode {
        let t = c.u8();
        match t % 8 {
            0 | 1 => AckMode::None,
            2 | 3 | 4 => AckMode::Latest,
            5 => AckMode::Back(t >> 3),
            6 => AckMode::Never(t >> 3),
            _ => AckMode::Abs(c.u8()),
        }
    }
    fn fault(c: &mut Cur) -> Fault {
        let t = c.u8();
        match t % 16 {
            0..=5 => Fault::None,
            6 => Fault::SeqDelta(((t >> 4) as i8 - 8) | 1),
            7 => Fault::BeginCont,
            8 => Fault::LenDelta((t >> 4) as i16 - 8),
            9 => Fault::PayloadExtra(t >> 4),
            10 => Fault::PayloadShort(t >> 4),
            11 => Fault::EndEarly,
            12 => Fault::NoEnd,
            13 => Fault::BeginInside,
            14 => Fault::ContNoBegin,
            _ => Fault::Flags(c.u8()),
        }
    }
    while c.more() && ops.len() < 256 {
        let t = c.u8();
        ops.push(match t % 16 {
            0 => HOp::HsGood { mtu_sel: c.u16(), window: c.u8() },
            1 => HOp::Hs {
                versions: c.u16() as u32 | (c.u16() as u32) << 16,
                mtu: c.u16(),
                window: c.u8(),
            },
            2..=6 => HOp::Seg { new_len: c.u16() % 1400, fill: t, ack: ack(&mut c), fault: fault(&mut c) },
            7 => HOp::Ack { ack: ack(&mut c), fault: fault(&mut c) },
            8 => {
                let n = (c.u8() % 48) as usize;
                HOp::Raw((0..n).map(|_| c.u8()).collect())
            }
            9..=11 => HOp::Out(1 + (t >> 4) % 8),
            12 => HOp::Recv,
            13 => HOp::Send { len: c.u16() % 1300, seed: t },
            14 => HOp::Burst { n: c.u16() % 300, len: c.u16() % 1300 },
            _ => HOp::Advance(c.u16() as u32 * 16),
        });
    }
    Hostile {
        initiator: b0 & 1 != 0,
        relaxed: b0 & 2 != 0,
        gatt_mtu,
        ops,
        skip_known: false,
    }
}

fn ack_mode() -> impl Strategy<Value = AckMode> {
    prop_oneof![
        3 => Just(AckMode::None),
        5 => Just(AckMode::Latest),
        1 => (0u8..8).prop_map(AckMode::Back),
        1 => prop_oneof![0u8..3, any::<u8>()].prop_map(AckMode::Never),
        1 => any::<u8>().prop_map(AckMode::Abs),
    ]
}

fn fault() -> impl Strategy<Value = Fault> {
    prop_oneof![
        14 => Just(Fault::None),
        1 => prop_oneof![Just(1i8), Just(-1i8), any::<i8>().prop_map(|d| if d == 0 { 1 } else { d })].prop_map(Fault::SeqDelta),
        1 => Just(Fault::BeginCont),
        1 => prop_oneof![Just(1i16), Just(-1i16), -20i16..20].prop_map(Fault::LenDelta),
        1 => prop_oneof![Just(0u8), 0u8..20].prop_map(Fault::PayloadExtra),
        1 => prop_oneof![Just(0u8), 0u8..20].prop_map(Fault::PayloadShort),
        1 => Just(Fault::EndEarly),
        1 => Just(Fault::NoEnd),
        1 => Just(Fault::BeginInside),
        1 => Just(Fault::ContNoBegin),
        1 => any::<u8>().prop_map(Fault::Flags),
    ]
}

fn hop() -> impl Strategy<Value = HOp> {
    prop_oneof![
        1 => (any::<u16>(), prop_oneof![1u8..8, any::<u8>()]).prop_map(|(mtu_sel, window)| HOp::HsGood { mtu_sel, window }),
        1 => (
            prop_oneof![Just(4u32), Just(0u32), any::<u32>()],
            prop_oneof![Just(0u16), 0u16..30, any::<u16>()],
            prop_oneof![Just(0u8), Just(1u8), any::<u8>()]
        )
            .prop_map(|(versions, mtu, window)| HOp::Hs { versions, mtu, window }),
        12 => (
            prop_oneof![4 => 1u16..60, 2 => 1u16..=(MAX_MSG as u16), 1 => Just(0u16), 1 => any::<u16>()],
            any::<u8>(),
            ack_mode(),
            fault()
        )
            .prop_map(|(new_len, fill, ack, fault)| HOp::Seg { new_len, fill, ack, fault }),
        2 => (ack_mode(), fault()).prop_map(|(ack, fault)| HOp::Ack { ack, fault }),
        1 => prop::collection::vec(any::<u8>(), 1..24).prop_map(HOp::Raw),
        6 => (1u8..6).prop_map(HOp::Out),
        3 => Just(HOp::Recv),
        2 => (prop_oneof![1u16..80, 1u16..=(MAX_MSG as u16), Just(0u16), Just(MAX_MSG as u16 + 1)], any::<u8>())
            .prop_map(|(len, seed)| HOp::Send { len, seed }),
        1 => prop_oneof![0u32..2_000, Just(15_000u32), Just(16_000u32), Just(31_000u32)].prop_map(HOp::Advance),
        1 => (prop_oneof![3 => 1u16..40, 1 => 200u16..600], prop_oneof![1u16..60, 1u16..=(MAX_MSG as u16)])
            .prop_map(|(n, len)| HOp::Burst { n, len }),
    ]
}

fn hostile() -> impl Strategy<Value = Hostile> {
    (
        any::<bool>(),
        any::<bool>(),
        att_mtu(),
        prop::bool::weighted(0.9),
        (any::<u16>(), prop_oneof![1u8..8, any::<u8>()]),
        prop::collection::vec(hop(), 0..60),
        // nothing to keep clear of (see BEHIND)
        Just(false),
    )
        .prop_map(|(initiator, relaxed, gatt_mtu, hs_first, (mtu_sel, window), mut ops, skip_known)| {
            if hs_first {
                // an initiator victim must emit its request before the response makes sense
                ops.insert(0, HOp::HsGood { mtu_sel, window });
                if initiator {
                    ops.insert(0, HOp::Out(1));
                } else {
                    ops.insert(1, HOp::Out(1));
                }
            }
            Hostile { initiator, relaxed, gatt_mtu, ops, skip_known }
        })
}

fn check_hostile_bytes(data: &Vec<u8>) -> Case {
    let c = decode_hostile(data);
    let mut case = check_hostile(&c);
    if let Verdict::Fail { signature, detail } = &case.verdict {
        case = Case::fail(signature.clone(), format!("decoded case: {c:?}; {detail}"));
    }
    case
}

fn main() {
    let mut run = Run::new(
        "C18",
        "exploration",
        "conversation: (ATT MTU of each end in {unknown, 23..=517}, relaxed negotiation, 0..48 messages of 0..=MAX bytes per direction, cyclic schedule script over app-send / driver-out / driver-in / app-recv / bursts / clock steps); non-trivial = a message spanning >= 3 segments AND (a sequence-number wrap OR a window-full event). timed: the in-tree driver loops on the virtual clock with planned sends, fetch delays and idle tails; non-trivial = worst acknowledgement delay >= 1 s (a timer-driven ack happened). hostile / hostile-bytes: one real Btp (either role) against a harness peer issuing model-relative conforming segments, single-fault segments, raw bytes and arbitrary handshakes, interleaved with the victim's driver/app steps; non-trivial = at least one non-conforming segment that passes the header parse was injected into an established session. distinct = distinct serialized case",
    );
    run.assume("the GATT link is reliable and ordered per direction (ATT write requests / indications)");
    run.assume("well-behaved ends: the drivers are the in-tree loops (process_outgoing until 0, then wait_outgoing; process_incoming per write/indication); applications may fetch late in `conversation` (zero-time interleavings) and within 1.5 s in `timed`");
    run.assume("after process_incoming/process_outgoing returned Err the GATT glue ends the session and calls Btp::reset() before the next connection (as bluez.rs/bluer.rs do); the harness never feeds a segment into a session that already failed");
    run.assume("specification facts used by the oracles: handshake response = responder's sequence number 0; every sequence-numbered segment occupies a window slot until acknowledged; the last slot may only be used by a segment carrying an acknowledgement; BTP_ACK_TIMEOUT = 15 s; segment size 20..=244");
    run.assume("signatures listed in BEHIND (reported findings) do not stop a hostile case: the victim is replaced by a fresh one and the remaining operations continue; cases with skip_known do not inject segments the oracle expects to trigger them");
    let n = run.cases(100_000, 2_000_000);
    run.prop("conversation", n, conv, check_conv);
    let n = run.cases(100_000, 2_000_000);
    run.prop("timed", n, timed, check_timed);
    let n = run.cases(300_000, 6_000_000);
    run.prop("hostile", n, hostile, check_hostile);
    let n = run.cases(400_000, 12_000_000);
    run.prop(
        "hostile-bytes",
        n,
        || prop::collection::vec(any::<u8>(), 0..160),
        check_hostile_bytes,
    );
    if std::env::var("C18_FUZZ_SELFTEST").is_ok() {
        let _ = btp_hostile_oracle(&[0, 0, 1, 2, 3]);
    }
    run.finish();
}
