//! C11 — Persisted state survives a crash at any point and reloads to what was committed.
//!
//! Sub-checks
//!  * `crash-histories` — an administrative history (commissioning over PASE, UpdateNOC, ACL /
//!    group-key / fabric-label / basic-information writes, fabric removal, fail-safe rollbacks,
//!    restarts, factory reset, real CASE handshakes feeding the resumption cache) is executed ONCE
//!    on the simulated device (`vh::sim::admin`) with the logging KV store; a marker is logged
//!    whenever the controller has the success response of a state-changing request. Then a fresh
//!    device is booted from EVERY prefix of the store-operation log and its visible state is
//!    compared with what had been acknowledged by then (see `check_prefixes`).
//!  * `resumption-corruption` — arbitrary damage to the resumption-cache blob never prevents
//!    start-up; the cache then is empty with the blob removed, or a cache that round-trips.
//!  * `roundtrip-*` — store -> load equality of each persisted structure within capacity.
//!
//! `C11_TRACE=1` prints every operation with its outcome and every prefix boot (use with --replay).

use std::collections::{BTreeMap, BTreeSet};

use proptest::prelude::*;
use serde::{Deserialize, Serialize};

use rs_matter::crypto::Crypto;
use rs_matter::persist::VENDOR_KEYS_START;
use rs_matter::tlv::TLVElement;
use rs_matter::Matter;

use vh::sim::admin::*;
use vh::sim::kv::KvOp;
use vh::sim::node::{mk_crypto, new_matter};
use vh::sim::{clock, MemKv, Net, Sched, MS, SEC};
use vh::{Case, Run};

// ------------------------------------------------------------------------------------------ view

/// The externally visible administrative state of a node, as `key -> value` text. A key that is
/// missing means "not there" (e.g. no `fab/3/..` key = no fabric 3).
type View = BTreeMap<String, String>;

fn fnv(b: &[u8]) -> u32 {
    let mut h = 0x811c9dc5u32;
    for x in b {
        h ^= *x as u32;
        h = h.wrapping_mul(0x01000193);
    }
    h
}

/// Render one persisted access-control entry (tags of the AccessControlEntryStruct of the
/// Matter specification: 1 privilege, 2 auth mode, 3 subjects, 4 targets{0 cluster, 1 endpoint,
/// 2 device type}).
fn render_acl_entry(tlv: &[u8]) -> String {
    let r = (|| -> Result<String, rs_matter::error::Error> {
        let s = TLVElement::new(tlv).structure()?;
        let p = s.ctx(1)?.u8()?;
        let a = s.ctx(2)?.u8()?;
        let mut subjects = Vec::new();
        if let Ok(e) = s.ctx(3) {
            if e.null().is_err() {
                for x in e.array()?.iter() {
                    subjects.push(x?.u64()?);
                }
            }
        }
        let mut targets = Vec::new();
        if let Ok(e) = s.ctx(4) {
            if e.null().is_err() {
                for t in e.array()?.iter() {
                    let t = t?.structure()?;
                    let f = |n: u8| -> Option<u64> { t.ctx(n).ok().and_then(|x| x.u64().ok()) };
                    targets.push((f(0), f(1), f(2)));
                }
            }
        }
        Ok(render_acl(p, a, &subjects, &targets))
    })();
    r.unwrap_or_else(|_| format!("undecodable:{}", vh::util::hex(tlv)))
}

fn render_acl(p: u8, a: u8, subjects: &[u64], targets: &[(Option<u64>, Option<u64>, Option<u64>)]) -> String {
    format!("p{p}/a{a}/s{subjects:x?}/t{targets:x?}")
}

fn render_acl_spec(entries: &[AclSpecFull]) -> String {
    let v: Vec<String> = entries
        .iter()
        .map(|e| {
            let t: Vec<_> =
                e.targets.iter().map(|t| (t.cluster.map(|x| x as u64), t.endpoint.map(|x| x as u64), t.device_type.map(|x| x as u64))).collect();
            render_acl(e.privilege, e.auth_mode, &e.subjects, &t)
        })
        .collect();
    format!("{v:?}")
}

fn render_groups(rows: &[GroupRow]) -> String {
    let v: Vec<(u16, &str, &[u16])> = rows.iter().map(|r| (r.group_id, r.name.as_str(), r.endpoints.as_slice())).collect();
    format!("{v:?}")
}

struct Extra {
    /// the group table of every fabric
    groups: BTreeMap<u8, Vec<GroupRow>>,
    /// (fabric index, peer node id) of every CASE resumption record
    resumption: Vec<(u8, u64)>,
    /// the subscription table
    subs: Vec<SubInfo>,
}

fn view_of(matter: &Matter<'_>, networks: &Option<Vec<u8>>, network_ids: &[Vec<u8>], basic_tlv: &[u8]) -> (View, Extra) {
    let mut v = View::new();
    let extra = matter.with_state(|st| {
        for f in st.fabrics.iter() {
            let i = f.fab_idx().get();
            v.insert(
                format!("fab/{i}/identity"),
                format!(
                    "node={:#x} fabric_id={:#x} noc#{:08x} icac#{:08x} root#{:08x} key#{:08x}",
                    f.node_id(),
                    f.fabric_id(),
                    fnv(f.noc()),
                    fnv(f.icac()),
                    fnv(f.root_ca()),
                    fnv(f.secret_key().access())
                ),
            );
            v.insert(format!("fab/{i}/label"), f.label().to_string());
            let acl: Vec<String> = f
                .acl_iter()
                .map(|e| {
                    use rs_matter::tlv::{TLVTag, ToTLV};
                    use rs_matter::utils::storage::WriteBuf;
                    let mut buf = [0u8; 512];
                    let mut wb = WriteBuf::new(&mut buf);
                    let len = match e.to_tlv(&TLVTag::Anonymous, &mut wb) {
                        Ok(()) => wb.get_tail(),
                        Err(_) => 0,
                    };
                    render_acl_entry(&buf[..len])
                })
                .collect();
            v.insert(format!("fab/{i}/acl"), format!("{acl:?}"));
            let g = f.groups();
            let mut ks: Vec<u16> = g.key_set_iter().map(|k| k.group_key_set_id).collect();
            ks.sort();
            v.insert(format!("fab/{i}/keysets"), format!("{ks:?}"));
            let km: Vec<(u16, u16)> = g.key_map_iter().map(|m| (m.group_id, m.group_key_set_id)).collect();
            v.insert(format!("fab/{i}/keymap"), format!("{km:?}"));
            let rows: Vec<GroupRow> = g.iter().map(|r| GroupRow { group_id: r.group_id, name: r.group_name.to_string(), endpoints: r.endpoints.iter().copied().collect() }).collect();
            v.insert(format!("fab/{i}/groups"), render_groups(&rows));
            v.insert(format!("fab/{i}/vendor"), format!("{:#x} vvs#{:08x}", f.vendor_id(), fnv(f.vid_verification_statement())));
        }
        let bi = st.verif_basic_info();
        v.insert("basic/node_label".into(), bi.node_label.to_string());
        v.insert("basic/location".into(), format!("{:?}", bi.location.as_ref().map(|s| s.to_string())));
        v.insert("basic/loc_type".into(), format!("{:?}", bi.location_type));
        v.insert("basic/local_cfg_disabled".into(), format!("{}", bi.local_config_disabled));
        v.insert("basic/config_version".into(), format!("{}", bi.configuration_version));
        Extra { groups: BTreeMap::new(), resumption: st.resumption.iter().map(|r| (r.fab_idx.get(), r.peer_nodeid)).collect(), subs: Vec::new() }
    });
    for (i, tlv) in fabric_tlvs(matter) {
        v.insert(format!("fab/{i}/tlv#"), format!("{:08x}/{}", fnv(&tlv), tlv.len()));
    }
    v.insert("basic/tlv#".into(), format!("{:08x}/{}", fnv(basic_tlv), basic_tlv.len()));
    let ids: Vec<String> = network_ids.iter().map(|i| String::from_utf8_lossy(i).to_string()).collect();
    v.insert("net/ids".into(), format!("{ids:?}"));
    if let Some(b) = networks {
        v.insert("net/blob".into(), vh::util::hex(b));
    }
    (v, extra)
}

fn boot_view<CC: Crypto>(b: &Boot<'_, CC>) -> (View, Extra) {
    let s = b.snapshot();
    let (v, mut e) = view_of(b.matter, &s.networks, &s.network_ids, &b.basic_info_tlv());
    e.groups = s.groups;
    e.subs = b.subscriptions();
    e.subs.sort();
    (v, e)
}

/// Class of a view key for failure signatures: the fabric index is dropped.
fn key_class(k: &str) -> String {
    let parts: Vec<&str> = k.split('/').collect();
    if parts.len() == 3 && parts[0] == "fab" {
        format!("fab/{}", parts[2])
    } else {
        k.to_string()
    }
}
// ------------------------------------------------------------------------------------------ case

#[derive(Debug, Clone, Copy, PartialEq, Eq, Serialize, Deserialize)]
enum Who {
    /// the (planted) PASE session; its accessing fabric becomes the new fabric after AddNOC
    Pase,
    /// CASE session of the administrator of the pre-existing fabric A (index 1)
    CaseA,
    /// CASE session of the administrator of the pre-existing fabric B (index 2)
    CaseB,
    /// CASE session of the commissioner on the newest fabric it added
    CaseNew,
}

#[derive(Debug, Clone, PartialEq, Eq, Serialize, Deserialize)]
enum Op {
    Arm { who: Who, secs: u16 },
    Csr { who: Who, update: bool },
    AddRoot { who: Who },
    AddNoc { who: Who },
    UpdateNoc { who: Who },
    AddWifi { who: Who, n: u8, salt: u8 },
    RemoveWifi { who: Who, n: u8 },
    Complete { who: Who },
    Acl { who: Who, extra: u8, salt: u8 },
    /// ACL at capacity: 4 entries x 4 subjects x 3 targets, values from `salt`
    AclFull { who: Who, salt: u8 },
    KeySet { who: Who, id: u8, salt: u8 },
    KeySetRemove { who: Who, id: u8 },
    KeyMap { who: Who, n: u8, salt: u8 },
    /// Groups::AddGroup on application endpoint `ep` (1..=4); `g` selects one of the group ids
    /// the KeyMap operation provides key material for
    Group { who: Who, ep: u8, g: u8, salt: u8, len: u8 },
    GroupIfIdentifying { who: Who, ep: u8, g: u8, salt: u8, len: u8 },
    GroupRemove { who: Who, ep: u8, g: u8 },
    GroupRemoveAll { who: Who, ep: u8 },
    /// Groups::ViewGroup (a read: what a peer sees must be what the view holds)
    GroupView { who: Who, ep: u8, g: u8 },
    /// Identify::Identify
    Identify { who: Who, ep: u8, secs: u8 },
    Label { who: Who, salt: u8, len: u8 },
    NodeLabel { who: Who, salt: u8, len: u8 },
    Location { who: Who, salt: u8 },
    LocalCfg { who: Who, value: bool },
    SetReg { who: Who, salt: u8 },
    /// target: 0 = the sender's own fabric, 1 = A, 2 = B, 3 = newest new fabric
    RemoveFabric { who: Who, target: u8 },
    /// real CASE handshake (creates a resumption record on the device)
    Handshake { who: Who },
    /// establish a subscription (persisted so that it can be resumed after a restart)
    Subscribe { who: Who, paths: u8, keep: bool, salt: u8 },
    Wait { ms: u16 },
    /// let an armed fail-safe run out
    Expire,
    Restart,
    FactoryReset { matter_first: bool },
    /// the key-value store fails the next write - armed only outside a fail-safe and only when
    /// the next operation is a basic-information write (store failures inside a fail-safe context
    /// are C08's subject); it is disarmed after that operation
    KvFailNext,
}

#[derive(Debug, Clone, Serialize, Deserialize)]
struct HistCase {
    seed: u32,
    wifi: bool,
    /// fabrics commissioned earlier (0..=2)
    preexisting: u8,
    ops: Vec<Op>,
}

fn admin_who() -> impl Strategy<Value = Who> {
    prop_oneof![4 => Just(Who::CaseA), 2 => Just(Who::CaseB), 3 => Just(Who::CaseNew)]
}

fn group_name_len() -> impl Strategy<Value = u8> {
    prop_oneof![2 => 0u8..=16, 1 => Just(16u8), 1 => Just(0u8)]
}

/// Operations on the group table of one fabric (the group ids are those of `Op::KeyMap`).
fn group_op() -> impl Strategy<Value = Op> {
    let w = Who::CaseA;
    prop_oneof![
        6 => (1u8..=4, 0u8..6, 0u8..4, group_name_len()).prop_map(move |(ep, g, salt, len)| Op::Group { who: w, ep, g, salt, len }),
        1 => (1u8..=4, 0u8..6, 0u8..4, group_name_len()).prop_map(move |(ep, g, salt, len)| Op::GroupIfIdentifying { who: w, ep, g, salt, len }),
        1 => (1u8..=4, 0u8..3).prop_map(move |(ep, secs)| Op::Identify { who: w, ep, secs: secs * 30 }),
        2 => (1u8..=4, 0u8..6).prop_map(move |(ep, g)| Op::GroupRemove { who: w, ep, g }),
        1 => (1u8..=4).prop_map(move |ep| Op::GroupRemoveAll { who: w, ep }),
        1 => (1u8..=4, 0u8..6).prop_map(move |(ep, g)| Op::GroupView { who: w, ep, g }),
    ]
}

fn admin_op() -> impl Strategy<Value = Op> {
    prop_oneof![
        2 => group_op(),
        4 => (admin_who(), 0u8..3, any::<u8>()).prop_map(|(who, extra, salt)| Op::Acl { who, extra, salt }),
        2 => (admin_who(), any::<u8>()).prop_map(|(who, salt)| Op::AclFull { who, salt }),
        3 => (admin_who(), 1u8..4, any::<u8>()).prop_map(|(who, id, salt)| Op::KeySet { who, id, salt }),
        1 => (admin_who(), 1u8..4).prop_map(|(who, id)| Op::KeySetRemove { who, id }),
        2 => (admin_who(), 0u8..5, any::<u8>()).prop_map(|(who, n, salt)| Op::KeyMap { who, n, salt }),
        3 => (admin_who(), any::<u8>(), prop_oneof![Just(0u8), Just(32u8), 1u8..32]).prop_map(|(who, salt, len)| Op::Label { who, salt, len }),
        3 => (admin_who(), any::<u8>(), prop_oneof![Just(0u8), Just(32u8), 1u8..32]).prop_map(|(who, salt, len)| Op::NodeLabel { who, salt, len }),
        1 => (admin_who(), any::<u8>()).prop_map(|(who, salt)| Op::Location { who, salt }),
        1 => (admin_who(), any::<bool>()).prop_map(|(who, value)| Op::LocalCfg { who, value }),
        1 => (admin_who(), any::<u8>()).prop_map(|(who, salt)| Op::SetReg { who, salt }),
    ]
}

#[derive(Debug, Clone, Copy)]
enum End {
    Complete,
    Arm0,
    Expire,
    Restart,
    /// nothing: the history goes on (or ends) with the fail-safe armed
    Open,
}

fn end() -> impl Strategy<Value = End> {
    prop_oneof![6 => Just(End::Complete), 1 => Just(End::Arm0), 1 => Just(End::Expire), 1 => Just(End::Restart), 1 => Just(End::Open)]
}

fn end_ops(e: End, who: Who, out: &mut Vec<Op>) {
    match e {
        End::Complete => out.push(Op::Complete { who }),
        End::Arm0 => out.push(Op::Arm { who, secs: 0 }),
        End::Expire => out.push(Op::Expire),
        End::Restart => out.push(Op::Restart),
        End::Open => {}
    }
}

/// Blocks of operations in a sensible order.
fn block() -> impl Strategy<Value = Vec<Op>> {
    prop_oneof![
        // commissioning of a new fabric over PASE
        5 => (0u8..3, any::<u8>(), prop::collection::vec(admin_op(), 0..3), end(), any::<bool>(), 60u16..200).prop_map(|(nets, salt, staged, e, handshake, secs)| {
            let mut v = vec![Op::Arm { who: Who::Pase, secs }];
            for i in 0..nets {
                v.push(Op::AddWifi { who: Who::Pase, n: (salt.wrapping_add(i)) % 4, salt: salt.wrapping_add(i) });
            }
            v.push(Op::Csr { who: Who::Pase, update: false });
            v.push(Op::AddRoot { who: Who::Pase });
            v.push(Op::AddNoc { who: Who::Pase });
            if handshake {
                v.push(Op::Handshake { who: Who::CaseNew });
                v.push(Op::Wait { ms: 700 });
            }
            for o in staged {
                v.push(rewho(&o, Who::CaseNew));
            }
            end_ops(e, Who::CaseNew, &mut v);
            v
        }),
        // UpdateNOC of fabric A / B
        2 => (prop_oneof![Just(Who::CaseA), Just(Who::CaseB)], prop::collection::vec(admin_op(), 0..2), end(), 60u16..200).prop_map(|(who, staged, e, secs)| {
            let mut v = vec![Op::Arm { who, secs }, Op::Csr { who, update: true }, Op::UpdateNoc { who }];
            for o in staged {
                v.push(rewho(&o, who));
            }
            end_ops(e, who, &mut v);
            v
        }),
        // writes staged under the fail-safe of an existing fabric (+ network changes)
        2 => (admin_who(), prop::collection::vec(admin_op(), 1..4), 0u8..2, any::<u8>(), end(), 60u16..200).prop_map(|(who, staged, nets, salt, e, secs)| {
            let mut v = vec![Op::Arm { who, secs }];
            for o in staged {
                v.push(rewho(&o, who));
            }
            for i in 0..nets {
                if salt & 1 == 0 {
                    v.push(Op::AddWifi { who, n: salt.wrapping_add(i) % 4, salt });
                } else {
                    v.push(Op::RemoveWifi { who, n: salt.wrapping_add(i) % 4 });
                }
            }
            end_ops(e, who, &mut v);
            v
        }),
        // plain administration outside a fail-safe
        5 => prop::collection::vec(admin_op(), 1..4),
        // ... by one administrator (so that the operations hit the same fabric)
        4 => (admin_who(), prop::collection::vec(admin_op(), 2..5)).prop_map(|(who, ops)| ops.iter().map(|o| rewho(o, who)).collect()),
        // group key administration of one fabric: key sets, the key map, removals (also of unknown sets)
        3 => (admin_who(), prop::collection::vec(prop_oneof![
            2 => (1u8..4, any::<u8>()).prop_map(|(id, salt)| Op::KeySet { who: Who::CaseA, id, salt }),
            2 => (1u8..4).prop_map(|id| Op::KeySetRemove { who: Who::CaseA, id }),
            2 => (1u8..3, any::<u8>()).prop_map(|(n, salt)| Op::KeyMap { who: Who::CaseA, n, salt }),
            1 => (any::<u8>(), 1u8..32).prop_map(|(salt, len)| Op::Label { who: Who::CaseA, salt, len }),
        ], 2..6)).prop_map(|(who, ops)| ops.iter().map(|o| rewho(o, who)).collect()),
        // the group table of one fabric: key material first, then memberships (re-adding an
        // existing membership with another name, several endpoints, more groups than fit)
        4 => (admin_who(), any::<u8>(), prop::collection::vec(prop_oneof![
            8 => group_op(),
            1 => (1u8..3, any::<u8>()).prop_map(|(n, salt)| Op::KeyMap { who: Who::CaseA, n, salt }),
            1 => (any::<u8>(), 1u8..32).prop_map(|(salt, len)| Op::Label { who: Who::CaseA, salt, len }),
        ], 2..9)).prop_map(|(who, salt, ops)| {
            let mut v = vec![Op::KeySet { who, id: 1, salt }, Op::KeyMap { who, n: 2, salt }];
            v.extend(ops.iter().map(|o| rewho(o, who)));
            v
        }),
        // ... filled to capacity: 4 groups (2 key map entries fit in one write), then a 5th
        1 => (admin_who(), 0u8..4, group_name_len(), prop::collection::vec(group_op(), 0..4)).prop_map(|(who, salt, len, tail)| {
            let mut v = vec![Op::KeySet { who, id: 1, salt }];
            for (k, gs) in [(0u8, [0u8, 1]), (1, [2, 3]), (2, [4, 5])] {
                v.push(Op::KeyMap { who, n: 2, salt: k });
                for g in gs {
                    v.push(Op::Group { who, ep: 1 + (g + salt) % 4, g, salt, len });
                }
            }
            v.extend(tail.iter().map(|o| rewho(o, who)));
            v
        }),
        // ... one group joined by more endpoints than a row holds, under varying names, then a write
        1 => (admin_who(), 0u8..6, any::<u8>(), group_name_len(), prop::collection::vec(1u8..=4, 3..6), admin_op()).prop_map(|(who, g, salt, len, eps, then)| {
            let mut v = vec![Op::KeySet { who, id: 1, salt }, Op::KeyMap { who, n: 2, salt: g / 2 }];
            for (i, ep) in eps.iter().enumerate() {
                v.push(Op::Group { who, ep: 1 + (*ep + i as u8) % 4, g, salt: (salt.wrapping_add(i as u8)) % 4, len });
            }
            v.push(rewho(&then, who));
            v
        }),
        // ... a basic-information write that meets a failing store, retried (or not), and another
        // write of the same blob
        2 => (admin_who(), any::<u8>(), prop_oneof![Just(0u8), Just(32u8), 1u8..32], 0u8..4, prop::bool::weighted(0.6), any::<u8>(), any::<bool>()).prop_map(
            |(who, salt, len, kind, again, salt2, other)| {
                let op = match kind {
                    0 => Op::NodeLabel { who, salt, len },
                    1 => Op::Location { who, salt },
                    2 => Op::SetReg { who, salt },
                    _ => Op::LocalCfg { who, value: salt & 1 == 0 },
                };
                let mut v = vec![Op::KvFailNext, op.clone()];
                if again {
                    v.push(op);
                }
                if other {
                    v.push(if kind == 1 { Op::NodeLabel { who, salt: salt2, len: 7 } } else { Op::Location { who, salt: salt2 } });
                }
                v
            },
        ),
        2 => (admin_who(), 0u8..4).prop_map(|(who, target)| vec![Op::RemoveFabric { who, target }]),
        2 => (admin_who(), 500u16..900).prop_map(|(who, ms)| vec![Op::Handshake { who }, Op::Wait { ms }]),
        3 => (admin_who(), prop_oneof![1u8..4, 1u8..=24, Just(24u8)], any::<bool>(), any::<u8>()).prop_map(|(who, paths, keep, salt)| vec![Op::Subscribe { who, paths, keep, salt }]),
        1 => (0u16..1500).prop_map(|ms| vec![Op::Wait { ms }]),
        2 => Just(vec![Op::Restart]),
        1 => any::<bool>().prop_map(|matter_first| vec![Op::FactoryReset { matter_first }]),
    ]
}

fn rewho(op: &Op, w: Who) -> Op {
    let mut o = op.clone();
    match &mut o {
        Op::Arm { who, .. }
        | Op::Csr { who, .. }
        | Op::AddRoot { who }
        | Op::AddNoc { who }
        | Op::UpdateNoc { who }
        | Op::AddWifi { who, .. }
        | Op::RemoveWifi { who, .. }
        | Op::Complete { who }
        | Op::Acl { who, .. }
        | Op::AclFull { who, .. }
        | Op::KeySet { who, .. }
        | Op::KeySetRemove { who, .. }
        | Op::KeyMap { who, .. }
        | Op::Group { who, .. }
        | Op::GroupIfIdentifying { who, .. }
        | Op::GroupRemove { who, .. }
        | Op::GroupRemoveAll { who, .. }
        | Op::GroupView { who, .. }
        | Op::Identify { who, .. }
        | Op::Label { who, .. }
        | Op::NodeLabel { who, .. }
        | Op::Location { who, .. }
        | Op::LocalCfg { who, .. }
        | Op::SetReg { who, .. }
        | Op::RemoveFabric { who, .. }
        | Op::Subscribe { who, .. }
        | Op::Handshake { who } => *who = w,
        Op::Wait { .. } | Op::Expire | Op::Restart | Op::FactoryReset { .. } | Op::KvFailNext => {}
    }
    o
}

fn op_who(op: &Op) -> Option<Who> {
    match op {
        Op::Arm { who, .. }
        | Op::Csr { who, .. }
        | Op::AddRoot { who }
        | Op::AddNoc { who }
        | Op::UpdateNoc { who }
        | Op::AddWifi { who, .. }
        | Op::RemoveWifi { who, .. }
        | Op::Complete { who }
        | Op::Acl { who, .. }
        | Op::AclFull { who, .. }
        | Op::KeySet { who, .. }
        | Op::KeySetRemove { who, .. }
        | Op::KeyMap { who, .. }
        | Op::Group { who, .. }
        | Op::GroupIfIdentifying { who, .. }
        | Op::GroupRemove { who, .. }
        | Op::GroupRemoveAll { who, .. }
        | Op::GroupView { who, .. }
        | Op::Identify { who, .. }
        | Op::Label { who, .. }
        | Op::NodeLabel { who, .. }
        | Op::Location { who, .. }
        | Op::LocalCfg { who, .. }
        | Op::SetReg { who, .. }
        | Op::RemoveFabric { who, .. }
        | Op::Subscribe { who, .. }
        | Op::Handshake { who } => Some(*who),
        Op::Wait { .. } | Op::Expire | Op::Restart | Op::FactoryReset { .. } | Op::KvFailNext => None,
    }
}

#[derive(Debug, Clone)]
enum Edit {
    Insert(u16, Op),
    Delete(u16),
    Swap(u16),
}

fn edit() -> impl Strategy<Value = Edit> {
    prop_oneof![
        3 => (any::<u16>(), prop_oneof![
            4 => admin_op(),
            1 => Just(Op::Restart),
            1 => Just(Op::Expire),
            1 => (0u16..1500).prop_map(|ms| Op::Wait { ms }),
            1 => admin_who().prop_map(|who| Op::Complete { who }),
            1 => (admin_who(), 0u8..4).prop_map(|(who, target)| Op::RemoveFabric { who, target }),
        ]).prop_map(|(p, o)| Edit::Insert(p, o)),
        1 => any::<u16>().prop_map(Edit::Delete),
        1 => any::<u16>().prop_map(Edit::Swap),
    ]
}

fn hist_strategy() -> impl Strategy<Value = HistCase> {
    (any::<u32>(), prop::bool::weighted(0.7), 0u8..3, prop::collection::vec(block(), 1..6), prop::collection::vec(edit(), 0..3), prop::bool::weighted(0.15)).prop_map(
        |(seed, wifi, preexisting, blocks, edits, reset_last)| {
            let mut ops: Vec<Op> = blocks.into_iter().flatten().collect();
            for e in &edits {
                let n = ops.len();
                match e {
                    Edit::Insert(p, o) => ops.insert(vh::util::pick(*p, n + 1), o.clone()),
                    Edit::Delete(p) if n > 1 => {
                        ops.remove(vh::util::pick(*p, n));
                    }
                    Edit::Swap(p) if n > 1 => {
                        let i = vh::util::pick(*p, n - 1);
                        ops.swap(i, i + 1);
                    }
                    _ => {}
                }
            }
            ops.truncate(39);
            if reset_last {
                ops.push(Op::FactoryReset { matter_first: seed & 1 == 0 });
            }
            HistCase { seed, wifi, preexisting, ops }
        },
    )
}
// ------------------------------------------------------------------------------------------ model

type Val = Option<String>;
type Allowed = BTreeMap<String, BTreeSet<Val>>;

fn allowed_get<'a>(a: &'a Allowed, k: &str, none: &'a BTreeSet<Val>) -> &'a BTreeSet<Val> {
    a.get(k).unwrap_or(none)
}

fn singleton(v: Val) -> BTreeSet<Val> {
    let mut s = BTreeSet::new();
    s.insert(v);
    s
}

#[derive(Debug, Clone)]
struct OpRec {
    /// index into `case.ops`
    op_no: usize,
    name: String,
    /// log length before / after the operation (its writes are log[begin..end])
    begin: usize,
    end: usize,
    acked: bool,
    /// the operation changed the committed state
    committed_change: bool,
    /// index into `Recording::checkpoints` valid after this operation
    cp: usize,
}

struct Recording {
    /// checkpoints[0] = allowed values after the first boot
    checkpoints: Vec<Allowed>,
    ops: Vec<OpRec>,
    ever_committed: Allowed,
    ever_uncommitted: Allowed,
    fresh: View,
    /// every subscription the device ever held in its table
    subs_ever: BTreeSet<SubInfo>,
    /// the table at the end of the run (after the background work settled)
    #[allow(dead_code)]
    subs_final: Vec<SubInfo>,
}

impl Recording {
    fn cur(&self) -> &Allowed {
        self.checkpoints.last().unwrap()
    }
    fn commit_value(&mut self, a: &mut Allowed, k: &str, v: Val) {
        self.ever_committed.entry(k.to_string()).or_default().insert(v.clone());
        a.insert(k.to_string(), singleton(v));
    }
    fn add_value(&mut self, a: &mut Allowed, k: &str, v: Val) {
        self.ever_uncommitted.entry(k.to_string()).or_default().insert(v.clone());
        let none = singleton(None);
        let mut s = a.get(k).cloned().unwrap_or(none);
        s.insert(v);
        a.insert(k.to_string(), s);
    }
    fn note_uncommitted(&mut self, before: &View, after: &View) {
        for k in keys_of(before, after) {
            if before.get(&k) != after.get(&k) {
                self.ever_uncommitted.entry(k.clone()).or_default().insert(after.get(&k).cloned());
            }
        }
    }
}

fn keys_of(a: &View, b: &View) -> BTreeSet<String> {
    a.keys().chain(b.keys()).cloned().collect()
}

#[derive(Debug, Clone)]
struct Ctx {
    /// accessing fabric the context belongs to (0 = PASE before AddNOC)
    owner: u8,
    added: Option<u8>,
    csr: Option<(bool, Vec<u8>)>,
    root: Option<usize>,
    noc_done: bool,
    expires_at: u64,
    /// allowed network values when the context began
    net_base: Vec<(String, BTreeSet<Val>)>,
    /// network ids the store must hold if this context commits
    nets: Vec<String>,
}

struct Model {
    armed: Option<Ctx>,
    /// fabric index -> kit
    fabrics: BTreeMap<u8, usize>,
    pase_af: u8,
    next_new_kit: usize,
    newest_new: Option<u8>,
    /// committed network ids
    nets: Vec<String>,
}

const KIT_A: usize = 0;
const KIT_B: usize = 1;
const KIT_N0: usize = 2;
const N_NEW_KITS: usize = 3;
#[allow(dead_code)]
const MAX_FABRICS: usize = 5;

struct World {
    kits: Vec<FabricKit>,
    dev_nodes: Vec<u64>,
}

struct Progress {
    pos: usize,
    boot_no: u32,
    verdict: Option<Case>,
    labels: Vec<String>,
    restart_pending: bool,
    stop: bool,
    /// a Restart / FactoryReset operation to be finished by the next boot: (op_no, name, begin, view before, after factory reset)
    pending: Option<(usize, String, usize, View, bool)>,
    /// position of the operation an injected store failure is meant for
    kv_fail_for: Option<usize>,
}

fn fail(p: &mut Progress, sig: &str, detail: String) {
    if p.verdict.is_none() {
        p.verdict = Some(Case::fail(sig, detail));
    }
}

struct Sess {
    pase: Option<SessPair>,
    case_a: Option<SessPair>,
    case_b: Option<SessPair>,
    case_new: Option<(u8, SessPair)>,
}

fn text_of(salt: u8, len: u8, prefix: char) -> String {
    let mut s = format!("{prefix}{salt:02x}");
    while s.len() < len as usize {
        s.push((b'a' + (s.len() as u8).wrapping_add(salt) % 26) as char);
    }
    s.truncate(len as usize);
    s
}

fn acl_small(admin: u64, extra: u8, salt: u8) -> Vec<AclSpecFull> {
    let mut v = vec![AclSpecFull { privilege: 5, auth_mode: 2, subjects: vec![admin], targets: vec![] }];
    for i in 0..extra.min(2) {
        v.push(AclSpecFull {
            privilege: if (salt >> i) & 1 == 0 { 3 } else { 1 },
            auth_mode: 2,
            subjects: vec![0x5000 + salt as u64 * 4 + i as u64],
            targets: vec![],
        });
    }
    v
}

/// An access-control list at the capacity of the default build: 4 entries, 4 subjects, 3 targets.
fn acl_full(admin: u64, salt: u8) -> Vec<AclSpecFull> {
    let mut v = Vec::new();
    for e in 0..4u64 {
        let mut subjects = Vec::new();
        for s in 0..4u64 {
            subjects.push(if e == 0 && s == 0 { admin } else { 0x6000 + salt as u64 * 64 + e * 8 + s });
        }
        let targets = vec![
            AclTargetSpec { cluster: Some(0x28 + salt as u32 % 7), endpoint: Some(e as u16), device_type: None },
            AclTargetSpec { cluster: None, endpoint: None, device_type: Some(0x100 + salt as u32) },
            AclTargetSpec { cluster: Some(0x1F), endpoint: None, device_type: None },
        ];
        // (the administrator's own entry stays unrestricted, so that the fabric can still be administered)
        let targets = if e == 0 { vec![] } else { targets };
        v.push(AclSpecFull { privilege: if e == 0 { 5 } else { [1u8, 3, 4][(salt as usize + e as usize) % 3] }, auth_mode: 2, subjects, targets });
    }
    v
}

fn to_small(entries: &[AclSpecFull]) -> Vec<AclSpec> {
    entries.iter().map(|e| AclSpec { privilege: e.privilege, auth_mode: e.auth_mode, subjects: e.subjects.clone() }).collect()
}

/// (endpoint, group id) for RemoveGroup / ViewGroup: mostly an existing membership of the table
/// (selected by `g` and `ep`), otherwise the raw endpoint and one of the known group ids.
fn pick_membership(table: &[GroupRow], ep: u8, g: u8, ids: &[u16; 6]) -> (u16, u16) {
    match table.get(g as usize % (table.len() + 1)) {
        Some(r) if !r.endpoints.is_empty() => (r.endpoints[ep as usize % r.endpoints.len()], r.group_id),
        _ => (ep as u16, ids[g as usize % 6]),
    }
}

fn fabric_keys(view: &View, idx: u8) -> Vec<String> {
    let pre = format!("fab/{idx}/");
    view.keys().filter(|k| k.starts_with(&pre)).cloned().collect()
}

// ------------------------------------------------------------------------------------------ run

/// How an operation relates to the committed state.
enum Kind {
    /// refused (or not state-changing): nothing becomes committed
    Nothing,
    /// acknowledged outside any fail-safe: what it changed is committed
    Committed,
    /// acknowledged under a fail-safe: old and new values are both acceptable
    Staged,
    /// acknowledged CommissioningComplete: everything in memory is committed
    Commit,
    /// the fail-safe context ended without commit
    Rollback,
    /// outcome unknown (no answer)
    Unknown,
}

fn end_context(rec: &mut Recording, a: &mut Allowed, m: &mut Model, sess: &mut Sess, after: &View, p: &mut Progress) {
    let Some(ctx) = m.armed.take() else { return };
    // whatever memory shows now and was acceptable is the state from here on
    for k in a.keys().cloned().collect::<Vec<_>>() {
        let v = after.get(&k).cloned();
        if a[&k].len() > 1 {
            if a[&k].contains(&v) {
                rec.commit_value(a, &k, v);
            } else {
                p.labels.push("rollback-to-unseen-value".into());
                rec.add_value(a, &k, v);
            }
        }
    }
    // strict: a fabric added in this context is gone, network changes are undone
    if let Some(idx) = ctx.added {
        let pre = format!("fab/{idx}/");
        for k in a.keys().filter(|k| k.starts_with(&pre)).cloned().collect::<Vec<_>>() {
            rec.commit_value(a, &k, None);
        }
        m.fabrics.remove(&idx);
        if m.newest_new == Some(idx) {
            m.newest_new = m.fabrics.iter().filter(|(_, k)| **k >= KIT_N0).map(|(i, _)| *i).max();
        }
        if matches!(sess.case_new, Some((f, _)) if f == idx) {
            sess.case_new = None;
        }
    }
    for (k, s) in ctx.net_base {
        a.insert(k, s);
    }
    m.pase_af = 0;
    sess.pase = None;
}

#[allow(clippy::too_many_arguments)]
fn run_segment<CC: Crypto>(
    b: &mut Boot<'_, CC>,
    case: &HistCase,
    w: &World,
    m: &mut Model,
    rec: &mut Recording,
    p: &mut Progress,
    ctrl_fab_idx: &[core::num::NonZeroU8],
    ctrl_ab_idx: &[core::num::NonZeroU8],
) {
    let gen = mk_crypto(case.seed ^ 0x5eed ^ (p.boot_no << 8));
    let mut sess = Sess { pase: None, case_a: None, case_b: None, case_new: None };

    // the resumption cache is flushed in the background, as an application would run it
    {
        let (mm, kv) = (b.matter, b.kv.clone());
        b.ex.spawn("dev.resumption", async move {
            let kva = mm.kv(kv);
            let _ = mm.run_persist_resumption(&kva, embassy_time::Duration::from_millis(500)).await;
        });
    }
    b.run_for(50 * MS);

    if p.boot_no == 0 {
        let (v, _) = boot_view(b);
        let mut a = Allowed::new();
        for (k, val) in &v {
            rec.commit_value(&mut a, k, Some(val.clone()));
        }
        rec.checkpoints.push(a);
    } else if let Some((op_no, name, begin, before, after_reset)) = p.pending.take() {
        let (after, _) = boot_view(b);
        let mut a = rec.cur().clone();
        if after_reset {
            if after != rec.fresh {
                let d: Vec<String> = keys_of(&after, &rec.fresh)
                    .into_iter()
                    .filter(|k| after.get(k) != rec.fresh.get(k))
                    .map(|k| format!("{k}: {:?} (fresh node: {:?})", after.get(&k), rec.fresh.get(&k)))
                    .collect();
                fail(p, "factory-reset:boot-differs-from-fresh-node", format!("op #{op_no}: after the factory reset the restarted node differs from a never-commissioned one: {}", d.join("; ")));
                return;
            }
            m.fabrics.clear();
            m.nets.clear();
            m.newest_new = None;
            m.armed = None;
            for k in keys_of(&before, &after) {
                rec.commit_value(&mut a, &k, after.get(&k).cloned());
            }
        } else {
            end_context(rec, &mut a, m, &mut sess, &after, p);
            for k in a.keys().cloned().collect::<Vec<_>>() {
                let v = after.get(&k).cloned();
                if a[&k].len() > 1 && a[&k].contains(&v) {
                    rec.commit_value(&mut a, &k, v);
                }
            }
        }
        rec.checkpoints.push(a);
        let end = b.kv.log_len();
        b.kv.marker(format!("done: #{op_no} {name}"));
        rec.ops.push(OpRec { op_no, name, begin, end, acked: true, committed_change: after_reset, cp: rec.checkpoints.len() - 1 });
    }

    while p.pos < case.ops.len() && p.verdict.is_none() && !p.stop {
        if let Some(e) = b.dm_run_exited() {
            fail(p, "dm-run-terminated", format!("InteractionModel::run returned {e} before op #{}", p.pos));
            return;
        }
        let op = case.ops[p.pos].clone();
        let op_no = p.pos;
        p.pos += 1;

        // never sit next to the expiry instant of the fail-safe
        let near_expiry = m.armed.as_ref().map(|c| clock::now() + 5 * SEC >= c.expires_at).unwrap_or(false);

        if matches!(p.kv_fail_for, Some(n) if op_no > n) {
            b.kv.clear_fail_writes();
            p.kv_fail_for = None;
        }

        // ---- environment operations
        match &op {
            Op::KvFailNext => {
                let next_is_basic = matches!(case.ops.get(p.pos), Some(Op::NodeLabel { .. } | Op::Location { .. } | Op::LocalCfg { .. } | Op::SetReg { .. }));
                if m.armed.is_none() && next_is_basic && p.kv_fail_for.is_none() {
                    b.kv.fail_write_at(0);
                    p.kv_fail_for = Some(p.pos);
                    p.labels.push("store-failure-at-basic-information-write".into());
                }
                continue;
            }
            Op::Wait { .. } | Op::Expire => {
                let (before, _) = boot_view(b);
                let begin = b.kv.log_len();
                let expire = matches!(op, Op::Expire) || near_expiry;
                match (&m.armed, expire) {
                    (Some(ctx), true) => {
                        let d = (ctx.expires_at + 1500 * MS).saturating_sub(clock::now());
                        b.run_for(d);
                    }
                    _ => {
                        let ms = if let Op::Wait { ms } = &op { *ms as u64 } else { 1000 };
                        b.run_for(ms * MS);
                    }
                }
                let (after, _) = boot_view(b);
                let mut a = rec.cur().clone();
                let mut name = "Wait".to_string();
                if m.armed.is_some() && !b.failsafe_armed() {
                    end_context(rec, &mut a, m, &mut sess, &after, p);
                    p.labels.push("rollback-by-timer".into());
                    name = "Expire".into();
                } else {
                    rec.note_uncommitted(&before, &after);
                }
                rec.checkpoints.push(a);
                let end = b.kv.log_len();
                rec.ops.push(OpRec { op_no, name, begin, end, acked: false, committed_change: false, cp: rec.checkpoints.len() - 1 });
                continue;
            }
            Op::Restart => {
                let (before, _) = boot_view(b);
                p.pending = Some((op_no, "Restart".into(), b.kv.log_len(), before, false));
                if m.armed.is_some() {
                    p.labels.push("rollback-by-restart".into());
                }
                p.restart_pending = true;
                return;
            }
            Op::FactoryReset { matter_first } => {
                let (before, _) = boot_view(b);
                let begin = b.kv.log_len();
                if let Err(e) = b.factory_reset(*matter_first) {
                    fail(p, "factory-reset:failed", format!("op #{op_no}: {e}"));
                    return;
                }
                let left: Vec<u16> = b.kv.snapshot().keys().copied().filter(|k| *k < VENDOR_KEYS_START).collect();
                if !left.is_empty() {
                    fail(
                        p,
                        "factory-reset:keys-left",
                        format!("op #{op_no}: after Matter::factory_reset + InteractionModel::factory_reset the store still holds the rs-matter keys {left:x?}"),
                    );
                    return;
                }
                p.labels.push("factory-reset".into());
                p.pending = Some((op_no, "FactoryReset".into(), begin, before, true));
                p.restart_pending = true;
                return;
            }
            _ => {}
        }
        if near_expiry {
            p.labels.push("skipped:near-expiry".into());
            continue;
        }

        // ---- who sends it
        let who = op_who(&op).unwrap();
        let (ctrl, sp, af): (usize, SessPair, u8) = match who {
            Who::Pase => {
                if let Some(s) = &sess.pase {
                    if !b.device_has_session(s) {
                        sess.pase = None;
                        m.pase_af = 0;
                    }
                }
                if sess.pase.is_none() {
                    match b.plant_pase(0) {
                        Ok(s) => {
                            sess.pase = Some(s);
                            m.pase_af = 0;
                        }
                        Err(e) => {
                            p.verdict = Some(Case::inconclusive(format!("cannot plant PASE: {e}")));
                            return;
                        }
                    }
                }
                (0, sess.pase.unwrap(), m.pase_af)
            }
            Who::CaseA | Who::CaseB => {
                let (kit, idx, ctrl) = if who == Who::CaseA { (KIT_A, 1u8, 1usize) } else { (KIT_B, 2u8, 2usize) };
                if m.fabrics.get(&idx) != Some(&kit) {
                    p.labels.push("skipped:no-such-fabric".into());
                    continue;
                }
                let slot = if who == Who::CaseA { &mut sess.case_a } else { &mut sess.case_b };
                if let Some(s) = slot {
                    if !b.device_has_session(s) {
                        *slot = None;
                    }
                }
                if slot.is_none() {
                    match b.plant_case(ctrl, ctrl_ab_idx[kit].get(), w.kits[kit].admin_node, idx, w.dev_nodes[kit]) {
                        Ok(s) => *slot = Some(s),
                        Err(e) => {
                            p.verdict = Some(Case::inconclusive(format!("cannot plant CASE: {e}")));
                            return;
                        }
                    }
                }
                (ctrl, slot.unwrap(), idx)
            }
            Who::CaseNew => {
                let Some(idx) = m.newest_new else {
                    p.labels.push("skipped:no-new-fabric".into());
                    continue;
                };
                let kit = m.fabrics[&idx];
                if let Some((f, s)) = &sess.case_new {
                    if *f != idx || !b.device_has_session(s) {
                        sess.case_new = None;
                    }
                }
                if sess.case_new.is_none() {
                    match b.plant_case(0, ctrl_fab_idx[kit - KIT_N0].get(), w.kits[kit].admin_node, idx, w.dev_nodes[kit]) {
                        Ok(s) => sess.case_new = Some((idx, s)),
                        Err(e) => {
                            p.verdict = Some(Case::inconclusive(format!("cannot plant CASE(new): {e}")));
                            return;
                        }
                    }
                }
                (0, sess.case_new.unwrap().1, idx)
            }
        };

        // ---- a real CASE handshake instead of a command
        if let Op::Handshake { .. } = &op {
            if af == 0 {
                continue;
            }
            let kit = m.fabrics[&af];
            let (c, cf) = match who {
                Who::CaseA => (1, ctrl_ab_idx[KIT_A]),
                Who::CaseB => (2, ctrl_ab_idx[KIT_B]),
                _ => (0, ctrl_fab_idx[kit - KIT_N0]),
            };
            match b.case_handshake(c, cf, w.dev_nodes[kit]) {
                Ok(s) => {
                    match who {
                        Who::CaseA => sess.case_a = Some(s),
                        Who::CaseB => sess.case_b = Some(s),
                        _ => sess.case_new = Some((af, s)),
                    }
                    p.labels.push("real-case-handshake".into());
                }
                Err(_) => {
                    // e.g. the controller resumes a session whose record the device still holds
                    // for a fabric that was rolled back in the meantime: what the end of a
                    // fail-safe context must clean up in memory is the subject of C07, not of
                    // this check. The session is not used.
                    match who {
                        Who::CaseA => sess.case_a = None,
                        Who::CaseB => sess.case_b = None,
                        _ => sess.case_new = None,
                    }
                    p.labels.push("skipped:case-handshake-failed".into());
                }
            }
            continue;
        }

        if let Op::Subscribe { paths, keep, salt, .. } = &op {
            if af == 0 {
                continue;
            }
            use vh::sim::imdev::{Path, ReadReq, SubscribeReq};
            const POOL: [(u32, u32); 8] = [(0x28, 5), (0x28, 6), (0x1F, 0), (0x3E, 1), (0x3E, 5), (0x30, 0), (0x3F, 0), (0x28, 0x10)];
            let mut attrs = Vec::new();
            for j in 0..*paths as usize {
                let (cl, at) = POOL[(j + *salt as usize) % POOL.len()];
                attrs.push(match (j + *salt as usize) % 5 {
                    0 => Path::new(Some(0), Some(cl), None),
                    1 => Path::new(None, Some(cl), Some(at)),
                    _ => Path::concrete(0, cl, at),
                });
            }
            let req = SubscribeReq {
                read: ReadReq { attrs: Some(attrs), events: None, fabric_filtered: salt & 1 == 0, dataver_filters: Vec::new(), event_min: None },
                keep_subscriptions: *keep,
                min_interval_s: (*salt % 3) as u16,
                max_interval_s: 600 + *salt as u16,
            };
            let c = &b.ctrls[ctrl];
            let (mm, cc, sid) = (&*c.matter, &c.crypto, sp.ctrl_sid);
            let r = b.run_op("subscribe", async move {
                let mut ex = rs_matter::transport::exchange::Exchange::initiate_for_session(mm, cc, sid).map_err(|e| format!("{:?}", e.code()))?;
                Ok::<_, String>(vh::sim::imdev::subscribe(&mut ex, &req, &mut |_, _| {}).await)
            });
            b.ex.settle();
            b.run_for(20 * MS);
            match r {
                Some(Ok(o)) if o.subscribed.is_some() => p.labels.push(format!("subscribed:paths-{}", if *paths >= 20 { "20+" } else if *paths >= 5 { "5-19" } else { "1-4" })),
                Some(Ok(o)) => p.labels.push(format!("subscribe-refused:{:?}", o.status)),
                _ => p.labels.push("subscribe-failed".into()),
            }
            for s in b.subscriptions() {
                rec.subs_ever.insert(s);
            }
            continue;
        }

        let admin = m.fabrics.get(&af).map(|k| w.kits[*k].admin_node).unwrap_or(0x1000);
        let new_kit = (KIT_N0 + m.next_new_kit).min(KIT_N0 + N_NEW_KITS - 1);
        let fab = |k: &str| format!("fab/{af}/{k}");

        // ---- the command and the effect it must have once acknowledged (outside a fail-safe)
        let mut effects: Vec<(String, Val)> = Vec::new();
        let mut contains: Vec<(String, String, bool)> = Vec::new(); // (key, needle, must contain)
        let mut one_of: Vec<(String, Vec<Val>)> = Vec::new(); // (key, acceptable values)
        let mut view_expect: Option<Option<String>> = None; // ViewGroup: the name a peer must be told (None = not a member)
        let mut state_changing = true;
        // the group ids Op::KeyMap provides key material for
        const GROUP_IDS: [u16; 6] = [1, 2, 17, 18, 33, 34];
        let groups_before: Vec<GroupRow> = group_tables(b.matter).remove(&af).unwrap_or_default();
        // the group table after AddGroup(ep, g, name) by the Groups cluster specification: a new
        // row at the end, or the existing row renamed and the endpoint appended if it is not a member
        let with_group = |ep: u16, g: u16, name: &str| -> Vec<GroupRow> {
            let mut t = groups_before.clone();
            match t.iter_mut().find(|r| r.group_id == g) {
                Some(r) => {
                    r.name = name.to_string();
                    if !r.endpoints.contains(&ep) {
                        r.endpoints.push(ep);
                    }
                }
                None => t.push(GroupRow { group_id: g, name: name.to_string(), endpoints: vec![ep] }),
            }
            t
        };
        let without_group = |ep: u16, g: Option<u16>| -> Vec<GroupRow> {
            let mut t = groups_before.clone();
            for r in t.iter_mut().filter(|r| g.is_none() || g == Some(r.group_id)) {
                r.endpoints.retain(|e| *e != ep);
            }
            t.retain(|r| !r.endpoints.is_empty());
            t
        };
        let cmd: Cmd = match &op {
            Op::Arm { secs, .. } => {
                state_changing = false;
                Cmd::ArmFailSafe { secs: *secs, breadcrumb: 1 + op_no as u64 }
            }
            Op::Csr { update, .. } => {
                state_changing = false;
                Cmd::CsrRequest { nonce: vec![op_no as u8 ^ 0x5a; 32], for_update: if *update { Some(true) } else { None } }
            }
            Op::AddRoot { .. } => {
                state_changing = false;
                Cmd::AddTrustedRoot { rcac: w.kits[new_kit].ca.rcac.clone() }
            }
            Op::AddNoc { .. } => {
                let kit = &w.kits[new_kit];
                let csr = m.armed.as_ref().and_then(|c| c.csr.as_ref().map(|c| c.1.clone()));
                let noc = match &csr {
                    Some(csr) => kit.ca.issue(&gen, csr, w.dev_nodes[new_kit], &[]).ok(),
                    None => vh::sim::fabric::new_member(&gen, &kit.ca, w.dev_nodes[new_kit], &[]).ok().map(|m| m.noc),
                };
                let Some(noc) = noc else {
                    p.verdict = Some(Case::inconclusive("cannot issue a NOC"));
                    return;
                };
                Cmd::AddNoc { noc, icac: kit.icac(), ipk: kit.ca.ipk.to_vec(), admin_subject: kit.admin_node, vendor_id: 0xFFF1 }
            }
            Op::UpdateNoc { .. } => {
                let kit_idx = m.fabrics.get(&af).copied().unwrap_or(KIT_A);
                let kit = &w.kits[kit_idx];
                let csr = m.armed.as_ref().and_then(|c| c.csr.as_ref().map(|c| c.1.clone()));
                let noc = match &csr {
                    Some(csr) => kit.ca.issue(&gen, csr, w.dev_nodes[kit_idx], &[]).ok(),
                    None => vh::sim::fabric::new_member(&gen, &kit.ca, w.dev_nodes[kit_idx], &[]).ok().map(|m| m.noc),
                };
                let Some(noc) = noc else {
                    p.verdict = Some(Case::inconclusive("cannot issue a NOC"));
                    return;
                };
                Cmd::UpdateNoc { noc, icac: kit.icac() }
            }
            Op::AddWifi { n, salt, .. } => Cmd::AddWifi {
                ssid: format!("net{n}").into_bytes(),
                pass: format!("password{salt:03}").into_bytes(),
                breadcrumb: if salt & 1 == 0 { Some(100 + op_no as u64) } else { None },
            },
            Op::RemoveWifi { n, .. } => Cmd::RemoveNetwork { id: format!("net{n}").into_bytes(), breadcrumb: None },
            Op::Complete { .. } => Cmd::CommissioningComplete,
            Op::Acl { extra, salt, .. } => {
                let e = acl_small(admin, *extra, *salt);
                effects.push((fab("acl"), Some(render_acl_spec(&e))));
                Cmd::WriteAcl { entries: to_small(&e) }
            }
            Op::AclFull { salt, .. } => {
                let e = acl_full(admin, *salt);
                effects.push((fab("acl"), Some(render_acl_spec(&e))));
                Cmd::WriteAclFull { entries: e }
            }
            Op::KeySet { id, salt, .. } => {
                contains.push((fab("keysets"), format!("{id}"), true));
                Cmd::KeySetWrite { id: *id as u16, epoch_key0: vec![*salt; 16], start0: 1 + *salt as u64 }
            }
            Op::KeySetRemove { id, .. } => {
                contains.push((fab("keysets"), format!("{id}"), false));
                Cmd::KeySetRemove { id: *id as u16 }
            }
            Op::KeyMap { n, salt, .. } => {
                let entries: Vec<(u16, u16)> = (0..*n as u16).map(|j| (1 + j + (*salt as u16 % 3) * 16, 1 + (j + *salt as u16) % 2)).collect();
                effects.push((fab("keymap"), Some(format!("{entries:?}"))));
                Cmd::WriteGroupKeyMap { entries }
            }
            Op::Group { ep, g, salt, len, .. } => {
                let (g, name) = (GROUP_IDS[*g as usize % 6], text_of(*salt, *len, 'G'));
                effects.push((fab("groups"), Some(render_groups(&with_group(*ep as u16, g, &name)))));
                Cmd::AddGroup { ep: *ep as u16, group: g, name }
            }
            Op::GroupIfIdentifying { ep, g, salt, len, .. } => {
                let (g, name) = (GROUP_IDS[*g as usize % 6], text_of(*salt, *len, 'I'));
                // takes effect only while the endpoint is identifying: both outcomes are fine
                one_of.push((fab("groups"), vec![Some(render_groups(&groups_before)), Some(render_groups(&with_group(*ep as u16, g, &name)))]));
                Cmd::AddGroupIfIdentifying { ep: *ep as u16, group: g, name }
            }
            Op::GroupRemove { ep, g, .. } => {
                let (ep, g) = pick_membership(&groups_before, *ep, *g, &GROUP_IDS);
                effects.push((fab("groups"), Some(render_groups(&without_group(ep, Some(g))))));
                Cmd::RemoveGroup { ep, group: g }
            }
            Op::GroupRemoveAll { ep, .. } => {
                effects.push((fab("groups"), Some(render_groups(&without_group(*ep as u16, None)))));
                Cmd::RemoveAllGroups { ep: *ep as u16 }
            }
            Op::GroupView { ep, g, .. } => {
                state_changing = false;
                let (ep, g) = pick_membership(&groups_before, *ep, *g, &GROUP_IDS);
                view_expect = Some(groups_before.iter().find(|r| r.group_id == g && r.endpoints.contains(&ep)).map(|r| r.name.clone()));
                Cmd::ViewGroup { ep, group: g }
            }
            Op::Identify { ep, secs, .. } => {
                state_changing = false;
                Cmd::Identify { ep: *ep as u16, secs: *secs as u16 }
            }
            Op::Label { salt, len, .. } => {
                let l = text_of(*salt % 8, *len, 'L');
                effects.push((fab("label"), Some(l.clone())));
                Cmd::UpdateFabricLabel { label: l }
            }
            Op::NodeLabel { salt, len, .. } => {
                let l = text_of(*salt, *len, 'N');
                effects.push(("basic/node_label".into(), Some(l.clone())));
                Cmd::WriteNodeLabel { label: l }
            }
            Op::Location { salt, .. } => {
                let c = format!("{}{}", (b'A' + salt % 26) as char, (b'A' + (salt / 26) % 26) as char);
                effects.push(("basic/location".into(), Some(format!("{:?}", Some(c.clone())))));
                Cmd::WriteLocation { country: c }
            }
            Op::LocalCfg { value, .. } => {
                effects.push(("basic/local_cfg_disabled".into(), Some(format!("{value}"))));
                Cmd::WriteLocalConfigDisabled { value: *value }
            }
            Op::SetReg { salt, .. } => {
                let c = format!("{}{}", (b'A' + salt % 26) as char, (b'Z' - (salt / 26) % 26) as char);
                effects.push(("basic/location".into(), Some(format!("{:?}", Some(c.clone())))));
                Cmd::SetRegulatoryConfig { config: salt % 3, country: c, breadcrumb: 200 + op_no as u64 }
            }
            Op::RemoveFabric { target, .. } => {
                let t = match target {
                    0 => af,
                    1 => 1,
                    2 => 2,
                    _ => m.newest_new.unwrap_or(af),
                };
                if m.armed.is_some() {
                    // removing a fabric while a fail-safe is armed is C08's subject
                    p.labels.push("skipped:remove-fabric-under-failsafe".into());
                    continue;
                }
                Cmd::RemoveFabric { idx: t }
            }
            _ => unreachable!(),
        };

        // ---- execute
        let (before, _) = boot_view(b);
        let armed_before = m.armed.is_some() || b.failsafe_armed();
        let begin = b.kv.log_len();
        let out = b.invoke(ctrl, sp.ctrl_sid, &cmd);
        let end = b.kv.log_len();
        let accepted = out.accepted();
        let name = cmd.name().to_string();
        if accepted && state_changing {
            b.kv.marker(format!("acked: #{op_no} {name}"));
        }
        let (after, _) = boot_view(b);
        let armed_after = b.failsafe_armed();
        if trace() {
            eprintln!("[t={}] op #{op_no} {op:?} af={af} -> {} log[{begin}..{end}] armed {armed_before}->{armed_after}", clock::now(), out.brief());
        }
        p.labels.push(format!("{}:{}", name, if accepted { "acked" } else if out.answered() { "refused" } else { "no-answer" }));
        if let (Op::Group { .. }, true) = (&op, accepted) {
            let had = groups_before.iter().map(|r| r.group_id).collect::<Vec<_>>();
            if let Cmd::AddGroup { ep, group, name } = &cmd {
                match groups_before.iter().find(|r| r.group_id == *group) {
                    Some(r) if r.endpoints.contains(ep) && r.name != *name => p.labels.push("group:re-added-with-another-name".into()),
                    Some(r) if r.endpoints.contains(ep) => p.labels.push("group:re-added-same-name".into()),
                    Some(_) => p.labels.push("group:another-endpoint-joined".into()),
                    None => p.labels.push(format!("group:new-row-{}", had.len() + 1)),
                }
                if name.len() == 16 {
                    p.labels.push("group:name-16-chars".into());
                }
            }
        }
        if let (Op::Group { .. }, false, Outcome::Response { code: 0x89, .. }) = (&op, accepted, &out) {
            p.labels.push("group:table-full".into());
        }
        // what a peer is told by ViewGroup is what the view holds
        if let (Some(expect), Outcome::Response { code, raw, .. }) = (&view_expect, &out) {
            // (`raw` is the value part of the response struct: re-wrap it as an anonymous struct)
            let mut wrapped = vec![0x15u8];
            wrapped.extend_from_slice(raw);
            wrapped.push(0x18);
            let told = TLVElement::new(&wrapped).structure().and_then(|s| s.ctx(2)).and_then(|e| e.utf8()).ok().map(|n| n.to_string());
            let ok = match expect {
                Some(n) => *code == 0 && told.as_deref() == Some(n.as_str()),
                None => *code != 0,
            };
            if !ok {
                fail(p, "view-group-differs-from-table", format!("op #{op_no}: ViewGroup answered status {code:#x} name {told:?}; the group table holds {expect:?} for that endpoint and group"));
                return;
            }
        }

        // ---- classify and update the model
        let now = clock::now();
        let mut a = rec.cur().clone();
        let mut kind = if !out.answered() {
            Kind::Unknown
        } else if !accepted || !state_changing {
            Kind::Nothing
        } else if armed_before || armed_after {
            Kind::Staged
        } else {
            Kind::Committed
        };
        if accepted {
            match &op {
                Op::Arm { secs, .. } => match &mut m.armed {
                    None if *secs > 0 => {
                        let net_base = ["net/ids", "net/blob"].iter().filter_map(|k| a.get(*k).map(|s| (k.to_string(), s.clone()))).collect();
                        m.armed = Some(Ctx { owner: af, added: None, csr: None, root: None, noc_done: false, expires_at: now + *secs as u64 * SEC, net_base, nets: m.nets.clone() });
                    }
                    Some(c) if *secs > 0 => c.expires_at = now + *secs as u64 * SEC,
                    Some(_) => kind = Kind::Rollback,
                    None => {}
                },
                Op::Csr { update, .. } => {
                    if let (Some(c), Outcome::Response { csr: Some(bytes), .. }) = (&mut m.armed, &out) {
                        c.csr = Some((*update, bytes.clone()));
                    }
                }
                Op::AddRoot { .. } => {
                    if let Some(c) = &mut m.armed {
                        c.root = Some(new_kit);
                    }
                }
                Op::AddNoc { .. } => {
                    let idx = match &out {
                        Outcome::Response { fabric_index: Some(i), .. } => *i,
                        _ => 0,
                    };
                    if idx == 0 || m.fabrics.contains_key(&idx) || m.armed.is_none() {
                        p.labels.push("stopped:addnoc-out-of-model".into());
                        p.stop = true;
                    } else {
                        let c = m.armed.as_mut().unwrap();
                        c.owner = idx;
                        c.added = Some(idx);
                        c.noc_done = true;
                        m.fabrics.insert(idx, new_kit);
                        m.newest_new = Some(idx);
                        if who == Who::Pase {
                            m.pase_af = idx;
                        }
                        p.labels.push("reached-addnoc".into());
                    }
                }
                Op::UpdateNoc { .. } => {
                    if let Some(c) = &mut m.armed {
                        c.noc_done = true;
                    }
                    p.labels.push("reached-updatenoc".into());
                }
                Op::AddWifi { n, .. } => {
                    if let Some(c) = &mut m.armed {
                        let id = format!("net{n}");
                        if !c.nets.contains(&id) {
                            c.nets.push(id);
                        }
                    }
                }
                Op::RemoveWifi { n, .. } => {
                    if let Some(c) = &mut m.armed {
                        let id = format!("net{n}");
                        c.nets.retain(|x| *x != id);
                    }
                }
                Op::Complete { .. } => {
                    kind = Kind::Commit;
                    if let Some(c) = m.armed.take() {
                        if case.wifi {
                            effects.push(("net/ids".into(), Some(format!("{:?}", c.nets))));
                        }
                        m.nets = c.nets;
                        if let Some(idx) = c.added {
                            let kit = m.fabrics[&idx];
                            contains.push((format!("fab/{idx}/identity"), format!("node={:#x} fabric_id={:#x} ", w.dev_nodes[kit], w.kits[kit].fabric_id), true));
                            if kit == KIT_N0 + m.next_new_kit {
                                m.next_new_kit += 1;
                            }
                        }
                    }
                    m.pase_af = 0;
                    sess.pase = None;
                    p.labels.push("commit".into());
                }
                Op::RemoveFabric { .. } => {
                    if let Cmd::RemoveFabric { idx } = &cmd {
                        for k in fabric_keys(&before, *idx) {
                            effects.push((k, None));
                        }
                        m.fabrics.remove(idx);
                        if m.newest_new == Some(*idx) {
                            m.newest_new = m.fabrics.iter().filter(|(_, k)| **k >= KIT_N0).map(|(i, _)| *i).max();
                        }
                        match idx {
                            1 => sess.case_a = None,
                            2 => sess.case_b = None,
                            _ => {}
                        }
                        if matches!(sess.case_new, Some((f, _)) if f == *idx) {
                            sess.case_new = None;
                        }
                        p.labels.push("fabric-removed".into());
                    }
                }
                _ => {}
            }
        }
        // the device's fail-safe must agree with the history
        if m.armed.is_some() != armed_after && !matches!(kind, Kind::Rollback) {
            if m.armed.is_some() && !armed_after {
                kind = Kind::Rollback;
                p.labels.push("context-ended-by-device".into());
            } else {
                p.labels.push("stopped:armed-mismatch".into());
                p.stop = true;
                kind = Kind::Unknown;
            }
        }

        let mut committed_change = false;
        match kind {
            Kind::Nothing => rec.note_uncommitted(&before, &after),
            Kind::Unknown => {
                for k in keys_of(&before, &after) {
                    if before.get(&k) != after.get(&k) {
                        rec.add_value(&mut a, &k, after.get(&k).cloned());
                    }
                }
                p.labels.push(format!("stopped:no-answer:{name}"));
                p.stop = true;
            }
            Kind::Staged => {
                for k in keys_of(&before, &after) {
                    if before.get(&k) != after.get(&k) {
                        rec.add_value(&mut a, &k, after.get(&k).cloned());
                    }
                }
                p.labels.push("staged-write".into());
            }
            Kind::Committed | Kind::Commit => {
                for (k, v) in &effects {
                    if after.get(k) != v.as_ref() {
                        fail(p, &format!("ack-without-effect:{name}"), format!("op #{op_no}: {name} was acknowledged, but {k} is {:?} instead of {v:?}", after.get(k)));
                        return;
                    }
                }
                for (k, vals) in &one_of {
                    if !vals.contains(&after.get(k).cloned()) {
                        fail(p, &format!("ack-without-effect:{name}"), format!("op #{op_no}: {name} was acknowledged, but {k} is {:?}, none of {vals:?}", after.get(k)));
                        return;
                    }
                }
                for (k, needle, must) in &contains {
                    let has = after.get(k).map(|v| v.contains(needle.as_str())).unwrap_or(false);
                    if has != *must {
                        fail(p, &format!("ack-without-effect:{name}"), format!("op #{op_no}: {name} was acknowledged, but {k} is {:?} (expected {}to contain {needle:?})", after.get(k), if *must { "" } else { "not " }));
                        return;
                    }
                }
                let all_keys: BTreeSet<String> = keys_of(&before, &after).into_iter().chain(a.keys().cloned()).collect();
                for k in all_keys {
                    let v = after.get(&k).cloned();
                    // CommissioningComplete commits the fabric of its context and the networks;
                    // what was open (old or new) elsewhere is settled as what memory shows
                    let in_commit = matches!(kind, Kind::Commit)
                        && (k.starts_with(&format!("fab/{af}/")) || k.starts_with("net/") || (a.get(&k).map(|s| s.len() > 1 && s.contains(&v)).unwrap_or(false)));
                    if in_commit || before.get(&k) != v.as_ref() {
                        if rec.cur().get(&k) != Some(&singleton(v.clone())) {
                            committed_change = true;
                        }
                        rec.commit_value(&mut a, &k, v);
                    }
                }
            }
            Kind::Rollback => {
                end_context(rec, &mut a, m, &mut sess, &after, p);
                p.labels.push("rollback-by-command".into());
            }
        }
        rec.checkpoints.push(a);
        rec.ops.push(OpRec { op_no, name, begin, end, acked: accepted && state_changing, committed_change, cp: rec.checkpoints.len() - 1 });
    }
}

fn check_history(case: &HistCase) -> Case {
    vh::sim::reset_universe();
    let net = Net::new(4);
    let gen = mk_crypto(case.seed ^ 0x5eed);

    let mut kits = Vec::new();
    let mut dev_nodes = Vec::new();
    for (i, (fid, icac, admin)) in
        [(0xA1u64, false, 0x1001u64), (0xB2, true, 0x1002), (0xC3, false, 0x1003), (0xD4, true, 0x1004), (0xE5, false, 0x1005)].iter().enumerate()
    {
        match FabricKit::new(&gen, *fid, *icac, *admin, 3 + i as u8) {
            Ok(k) => kits.push(k),
            Err(e) => return Case::inconclusive(format!("fabric kit: {:?}", e.code())),
        }
        dev_nodes.push(0x2000 + i as u64);
    }
    let w = World { kits, dev_nodes };
    let mut pre: Vec<(&FabricKit, vh::sim::fabric::Member)> = Vec::new();
    for i in 0..case.preexisting as usize {
        match w.kits[i].device_member(&gen, w.dev_nodes[i]) {
            Ok(mm) => pre.push((&w.kits[i], mm)),
            Err(e) => return Case::inconclusive(format!("device member: {:?}", e.code())),
        }
    }
    let pre_refs: Vec<(&FabricKit, &vh::sim::fabric::Member)> = pre.iter().map(|(k, mm)| (*k, mm)).collect();
    let kv = match initial_kv(&gen, &pre_refs) {
        Ok(map) => MemKv::from_map(map),
        Err(e) => return Case::inconclusive(format!("initial kv: {:?}", e.code())),
    };
    let netkind = if case.wifi { NetKind::Wifi } else { NetKind::Eth };

    // what a never-commissioned node looks like
    let fresh = {
        let none = vec![new_controller(case.seed, 0)];
        let cfg = BootCfg { seed: case.seed ^ 0xf4e5, net: netkind, resume: true, open_window_secs: None, sched: Sched::Fifo };
        match boot_app(&cfg, &BootOpts::default(), &MemKv::new(), &net, &none[..0], |b| boot_view(b).0) {
            Ok(v) => v,
            Err(e) => return Case::inconclusive(format!("fresh boot failed: {e}")),
        }
    };

    let mut m = Model {
        armed: None,
        fabrics: (0..case.preexisting).map(|i| (i + 1, i as usize)).collect(),
        pase_af: 0,
        next_new_kit: 0,
        newest_new: None,
        nets: Vec::new(),
    };
    let mut rec = Recording {
        checkpoints: Vec::new(),
        ops: Vec::new(),
        ever_committed: Allowed::new(),
        ever_uncommitted: Allowed::new(),
        fresh,
        subs_ever: BTreeSet::new(),
        subs_final: Vec::new(),
    };
    let mut p = Progress { pos: 0, boot_no: 0, verdict: None, labels: Vec::new(), restart_pending: false, stop: false, pending: None, kv_fail_for: None };

    loop {
        let ctrls = vec![new_controller(case.seed ^ p.boot_no, 0), new_controller(case.seed ^ p.boot_no, 1), new_controller(case.seed ^ p.boot_no, 2)];
        let mut ctrl_fab_idx = Vec::new();
        for k in 0..N_NEW_KITS {
            match ctrls[0].install(&w.kits[KIT_N0 + k]) {
                Ok(i) => ctrl_fab_idx.push(i),
                Err(e) => return Case::inconclusive(format!("controller fabric: {:?}", e.code())),
            }
        }
        let mut ctrl_ab_idx = Vec::new();
        for (c, k) in [(1usize, KIT_A), (2, KIT_B)] {
            match ctrls[c].install(&w.kits[k]) {
                Ok(i) => ctrl_ab_idx.push(i),
                Err(e) => return Case::inconclusive(format!("controller fabric: {:?}", e.code())),
            }
        }
        let cfg = BootCfg { seed: case.seed.wrapping_add(p.boot_no.wrapping_mul(0x9e37)), net: netkind, resume: true, open_window_secs: None, sched: Sched::Fifo };
        p.restart_pending = false;
        let r = boot_app(&cfg, &BootOpts::default(), &kv, &net, &ctrls, |b| {
            run_segment(b, case, &w, &mut m, &mut rec, &mut p, &ctrl_fab_idx, &ctrl_ab_idx);
            if p.verdict.is_none() && !p.restart_pending {
                // let background writers (resumption flush, subscription table) finish
                b.run_for(800 * MS);
                rec.subs_final = b.subscriptions();
                rec.subs_final.sort();
            }
        });
        if let Err(e) = r {
            if p.boot_no == 0 {
                return Case::inconclusive(format!("first boot failed: {e}"));
            }
            return Case::fail("restart:node-does-not-boot", format!("restart #{}: {e}", p.boot_no));
        }
        for i in 0..4 {
            net.set_up(i, false);
            net.set_up(i, true);
        }
        if p.verdict.is_some() || !p.restart_pending {
            break;
        }
        p.boot_no += 1;
        if p.boot_no > 12 {
            break;
        }
    }
    if let Some(v) = p.verdict {
        return v;
    }
    if rec.checkpoints.is_empty() {
        return Case::inconclusive("nothing was recorded");
    }
    check_prefixes(case, &kv, &net, &rec, p.labels)
}
// ------------------------------------------------------------------------------------------ crash prefixes

fn describe(op: &KvOp) -> String {
    match op {
        KvOp::Store { key, data } => format!("store key {key:#x} ({} bytes)", data.len()),
        KvOp::Remove { key } => format!("remove key {key:#x}"),
        KvOp::Marker(m) => format!("marker {m:?}"),
        KvOp::Failed { key } => format!("failed write key {key:#x}"),
    }
}

/// Boot a fresh device from every prefix of the store-operation log and compare.
fn check_prefixes(case: &HistCase, kv: &MemKv, _net: &Net, rec: &Recording, mut labels: Vec<String>) -> Case {
    let log = kv.log();
    let netkind = if case.wifi { NetKind::Wifi } else { NetKind::Eth };
    let none_ctrl = vec![new_controller(case.seed, 0)];
    let none: BTreeSet<Val> = singleton(None);
    let mut nontrivial = false;
    let mut examined = 0usize;
    let mut last: Option<(BTreeMap<u16, Vec<u8>>, usize, usize)> = None;

    if trace() {
        for (i, e) in log.iter().enumerate() {
            eprintln!("log[{i}] t={} {}", e.t_us, describe(&e.op));
        }
    }
    let mut candidates = vec![0usize];
    for (i, e) in log.iter().enumerate() {
        if matches!(e.op, KvOp::Store { .. } | KvOp::Remove { .. }) {
            candidates.push(i + 1);
        }
    }
    // ... and the end of every acknowledged operation that committed something: the store as of
    // the acknowledgement must hold the change even if the operation wrote nothing at all
    for o in rec.ops.iter().filter(|o| o.acked && o.committed_change) {
        candidates.push(o.end);
    }
    candidates.sort();
    candidates.dedup();
    for p in candidates {
        // ---- which acknowledgements precede this prefix
        let inflight = rec.ops.iter().find(|o| o.begin < p && p < o.end);
        let done = rec.ops.iter().filter(|o| o.end <= p).last();
        let (cp_lo, cp_hi) = match (inflight, done) {
            (Some(o), _) => (o.cp - 1, o.cp),
            (None, Some(o)) => (o.cp, o.cp),
            (None, None) => (0, 0),
        };
        let map = kv.materialize(p);
        if let Some((m0, lo0, hi0)) = &last {
            if *m0 == map && *lo0 == cp_lo && *hi0 == cp_hi {
                continue;
            }
        }
        last = Some((map.clone(), cp_lo, cp_hi));
        examined += 1;

        let writes_of = |o: &OpRec| log[o.begin..o.end].iter().filter(|e| matches!(e.op, KvOp::Store { .. } | KvOp::Remove { .. })).count();
        let where_ = match (inflight, done) {
            (Some(o), _) => {
                if writes_of(o) >= 2 {
                    nontrivial = true;
                    labels.push(format!("prefix:inside-multi-write:{}", o.name));
                } else {
                    labels.push("prefix:inside-op".into());
                }
                format!("inside op #{} {} (writes log[{}..{}])", o.op_no, o.name, o.begin, o.end)
            }
            (None, Some(o)) => {
                if p == o.end && o.acked && o.committed_change {
                    nontrivial = true;
                    labels.push(format!("prefix:right-after-ack:{}", o.name));
                } else {
                    labels.push("prefix:between-ops".into());
                }
                format!("after op #{} {} ({})", o.op_no, o.name, if o.acked { "acknowledged" } else { "not acknowledged" })
            }
            (None, None) => {
                labels.push("prefix:before-first-op".into());
                "before the first operation".to_string()
            }
        };
        let at = if p == 0 { "the initial store".to_string() } else { format!("log entry {} = {}", p - 1, describe(&log[p - 1].op)) };

        // ---- boot from the prefix
        vh::sim::clock::advance_by(SEC);
        let pnet = Net::new(1);
        let cfg = BootCfg { seed: case.seed ^ 0xc4a5 ^ (p as u32) << 4, net: netkind, resume: true, open_window_secs: None, sched: Sched::Fifo };
        let pmap = map.clone();
        let pkv = MemKv::from_map(map);
        let r = boot_app(&cfg, &BootOpts::default(), &pkv, &pnet, &none_ctrl[..0], |b| {
            let mut subs = b.subscriptions();
            subs.sort();
            b.run_for(SEC);
            (boot_view(b), b.dm_run_exited(), subs)
        });
        let ((view, extra), exited, subs) = match r {
            Ok(x) => x,
            Err(e) => {
                return Case::fail("crash:node-does-not-boot", format!("a node restarted from the store as of prefix {p} ({at}; {where_}) does not start: {e}"));
            }
        };
        if trace() {
            eprintln!("prefix {p} ({at}; {where_}): booted, {} fabrics, resumption {:?}, {} subscriptions resumed", view.keys().filter(|k| k.ends_with("/identity")).count(), extra.resumption, subs.len());
        }
        if let Some(e) = exited {
            return Case::fail("crash:dm-run-terminated", format!("prefix {p} ({at}; {where_}): InteractionModel::run returned {e} within 1 s after the restart"));
        }

        // ---- every resumption record belongs to a fabric the node has
        // (while a factory reset is in flight the statement does not say in which order things go)
        let in_reset = inflight.map(|o| o.name == "FactoryReset").unwrap_or(false);
        for (f, peer) in extra.resumption.iter().filter(|_| !in_reset) {
            if !view.contains_key(&format!("fab/{f}/identity")) {
                return Case::fail(
                    "crash:resumption-record-for-missing-fabric",
                    format!(
                        "prefix {p} ({at}; {where_}): the restarted node holds a CASE resumption record (fabric index {f}, peer node {peer:#x}) although it has no fabric {f} (fabrics: {:?})",
                        view.keys().filter(|k| k.ends_with("/identity")).collect::<Vec<_>>()
                    ),
                );
            }
        }

        // ---- subscriptions to resume: only ones the node really had; all of them at the end
        let same = |a: &SubInfo, b: &SubInfo| {
            (a.fab_idx, a.peer_node_id, a.min_int_secs, a.max_int_secs) == (b.fab_idx, b.peer_node_id, b.min_int_secs, b.max_int_secs)
                && (a.request.is_empty() || b.request.is_empty() || a.request == b.request)
        };
        for s in &subs {
            if !rec.subs_ever.iter().any(|e| same(e, s)) {
                return Case::fail(
                    "crash:resumed-subscription-never-existed",
                    format!("prefix {p} ({at}; {where_}): the restarted node resumes a subscription (fabric {}, peer {:#x}, {}..{} s, {} request bytes) it never held", s.fab_idx, s.peer_node_id, s.min_int_secs, s.max_int_secs, s.request.len()),
                );
            }
        }
        // each record written to the subscription key range (persist.rs: one record per key,
        // contiguous from PERSISTENT_SUBSCRIPTIONS_START) reads back as one subscription
        // carrying the stored request bytes; records of fabrics that are gone may be skipped
        let mut recs: Vec<&Vec<u8>> = Vec::new();
        for slot in 0..rs_matter::persist::MAX_PERSISTED_SUBSCRIPTIONS as u16 {
            match pmap.get(&(rs_matter::persist::PERSISTENT_SUBSCRIPTIONS_START + slot)) {
                Some(r) => recs.push(r),
                None => break,
            }
        }
        let fabric_gone = rec.subs_ever.iter().any(|s| !view.contains_key(&format!("fab/{}/identity", s.fab_idx)));
        let contains = |hay: &[u8], needle: &[u8]| needle.is_empty() || hay.windows(needle.len()).any(|w| w == needle);
        let readback_ok = subs.iter().all(|s| recs.iter().any(|r| contains(r, &s.request))) && (subs.len() == recs.len() || (fabric_gone && subs.len() < recs.len()));
        if !readback_ok {
            return Case::fail(
                "crash:subscription-records-do-not-read-back",
                format!("prefix {p} ({at}; {where_}): the store holds {} subscription records ({:?} bytes), the restarted node resumes {} subscriptions {:?}", recs.len(), recs.iter().map(|r| r.len()).collect::<Vec<_>>(), subs.len(), subs.iter().map(|s| (s.fab_idx, s.peer_node_id, s.request.len())).collect::<Vec<_>>()),
            );
        }
        if !subs.is_empty() {
            labels.push("prefix:resumes-subscriptions".into());
        }

        // ---- visible state vs acknowledgements
        let (lo, hi) = (&rec.checkpoints[cp_lo], &rec.checkpoints[cp_hi]);
        let keys: BTreeSet<String> = view.keys().chain(lo.keys()).chain(hi.keys()).cloned().collect();
        // (a fabric that is there or not there at all is reported as such, not by its first detail)
        let ordered: Vec<String> = keys.iter().filter(|k| k.ends_with("/identity")).chain(keys.iter().filter(|k| !k.ends_with("/identity"))).cloned().collect();
        for k in ordered {
            let v = view.get(&k).cloned();
            let (a, b) = (allowed_get(lo, &k, &none), allowed_get(hi, &k, &none));
            if a.contains(&v) || b.contains(&v) {
                continue;
            }
            let class = key_class(&k);
            // one signature per kind of state; how the value got there goes into the detail
            let sig = format!("crash:restarted-state-differs:{class}");
            let how = if rec.ever_committed.get(&k).map(|s| s.contains(&v)).unwrap_or(v.is_none()) {
                "an older committed value: a later acknowledged change is lost, or something nobody acknowledged undid it"
            } else if rec.ever_uncommitted.get(&k).map(|s| s.contains(&v)).unwrap_or(false) {
                "a value that was only ever seen while uncommitted (staged under a fail-safe, or left behind by a refused request)"
            } else {
                "a value the running node never showed"
            };
            let acc: BTreeSet<&Val> = a.iter().chain(b.iter()).collect();
            return Case::fail(sig, format!("a node restarted from the store as of prefix {p} ({at}; {where_}) has {k} = {v:?} ({how}); by the acknowledgements received up to there it must be one of {acc:?}"));
        }
    }
    labels.push(format!("prefixes:{}", match examined { 0..=4 => "1-4", 5..=9 => "5-9", 10..=19 => "10-19", 20..=39 => "20-39", _ => "40+" }));
    labels.sort();
    labels.dedup();
    Case::pass(nontrivial).labels(labels)
}
// ------------------------------------------------------------------------------------------ blobs

use rs_matter::crypto::CryptoSensitive;
use rs_matter::dm::clusters::basic_info::{BasicInfoSettings, DeviceLocation};
use rs_matter::dm::clusters::net_comm::{Networks, WirelessCreds};
use rs_matter::dm::networks::wireless::WifiNetworks;
use rs_matter::persist::{Persist, BASIC_INFO_KEY, CASE_RESUMPTION_KEY, EVENT_EPOCH_KEY, GROUP_DATA_COUNTER_KEY, KV_BUF_SIZE};
use rs_matter::sc::case::{ResumableSession, ResumableSessions, MAX_RESUMPTION_RECORDS};
use rs_matter::tlv::Nullable;

thread_local! {
    /// KV image of a device with two commissioned fabrics (indices 1, 2); built once per thread
    /// from a fixed seed (certificate generation is the expensive part).
    static TWO_FABRICS: BTreeMap<u16, Vec<u8>> = {
        let gen = mk_crypto(0x11c0_ffee);
        let a = FabricKit::new(&gen, 0xA1, false, 0x1001, 3).expect("kit");
        let b = FabricKit::new(&gen, 0xB2, true, 0x1002, 4).expect("kit");
        let da = a.device_member(&gen, 0x2000).expect("member");
        let db = b.device_member(&gen, 0x2001).expect("member");
        initial_kv(&gen, &[(&a, &da), (&b, &db)]).expect("kv image")
    };
}

fn two_fabrics() -> BTreeMap<u16, Vec<u8>> {
    TWO_FABRICS.with(|m| m.clone())
}

#[derive(Debug, Clone, PartialEq, Eq, Serialize, Deserialize)]
struct RecSpec {
    fab: u8,
    peer: u64,
    cats: [u32; 3],
    rid: [u8; 16],
    secret: Vec<u8>,
}

fn rec_spec(max_fab: u8) -> impl Strategy<Value = RecSpec> {
    (1u8..=max_fab, prop_oneof![1u64..8, any::<u64>()], any::<[u32; 3]>(), any::<[u8; 16]>(), prop::collection::vec(any::<u8>(), 32))
        .prop_map(|(fab, peer, cats, rid, secret)| RecSpec { fab, peer, cats, rid, secret })
}

fn mk_record(r: &RecSpec) -> ResumableSession {
    let mut resumption_id = CryptoSensitive::<16>::new();
    resumption_id.access_mut().copy_from_slice(&r.rid);
    let mut shared_secret = CryptoSensitive::<32>::new();
    shared_secret.access_mut().copy_from_slice(&r.secret[..32]);
    ResumableSession { fab_idx: core::num::NonZeroU8::new(r.fab.max(1)).unwrap(), peer_nodeid: r.peer, peer_cat_ids: r.cats, resumption_id, shared_secret }
}

fn rec_tuple(r: &ResumableSession) -> (u8, u64, [u32; 3], Vec<u8>, Vec<u8>) {
    (r.fab_idx.get(), r.peer_nodeid, r.peer_cat_ids, r.resumption_id.access().to_vec(), r.shared_secret.access().to_vec())
}

fn cache_of(specs: &[RecSpec]) -> ResumableSessions {
    let mut c = ResumableSessions::new();
    for s in specs {
        c.insert_or_update(mk_record(s));
    }
    c
}

fn cache_blob(c: &ResumableSessions) -> Result<Vec<u8>, String> {
    let mut kv = MemKv::new();
    let mut buf = vec![0u8; KV_BUF_SIZE];
    c.store_persist(&mut kv, &mut buf).map_err(|e| format!("{:?}", e.code()))?;
    kv.get(CASE_RESUMPTION_KEY).ok_or_else(|| "nothing stored".to_string())
}

// ---- corruption of the resumption blob

#[derive(Debug, Clone, Serialize, Deserialize)]
enum ByteEdit {
    Set(u16, u8),
    Flip(u16, u8),
    Truncate(u16),
    Insert(u16, Vec<u8>),
    Delete(u16, u8),
    Dup(u16, u8),
}

#[derive(Debug, Clone, Serialize, Deserialize)]
struct CorruptCase {
    records: Vec<RecSpec>,
    edits: Vec<ByteEdit>,
    /// replace the blob by these bytes altogether
    random: Option<Vec<u8>>,
}

fn byte_edit() -> impl Strategy<Value = ByteEdit> {
    prop_oneof![
        3 => (any::<u16>(), any::<u8>()).prop_map(|(p, v)| ByteEdit::Set(p, v)),
        3 => (any::<u16>(), 0u8..8).prop_map(|(p, b)| ByteEdit::Flip(p, b)),
        2 => any::<u16>().prop_map(ByteEdit::Truncate),
        1 => (any::<u16>(), prop::collection::vec(any::<u8>(), 1..12)).prop_map(|(p, v)| ByteEdit::Insert(p, v)),
        1 => (any::<u16>(), 1u8..40).prop_map(|(p, n)| ByteEdit::Delete(p, n)),
        1 => (any::<u16>(), 1u8..120).prop_map(|(p, n)| ByteEdit::Dup(p, n)),
    ]
}

fn corrupt_strategy() -> impl Strategy<Value = CorruptCase> {
    (
        prop::collection::vec(rec_spec(2), 0..=MAX_RESUMPTION_RECORDS),
        prop::collection::vec(byte_edit(), 0..5),
        prop_oneof![6 => Just(None), 1 => prop::collection::vec(any::<u8>(), 0..300).prop_map(Some)],
    )
        .prop_map(|(records, edits, random)| CorruptCase { records, edits, random })
}

fn apply_byte_edits(mut b: Vec<u8>, edits: &[ByteEdit]) -> Vec<u8> {
    for e in edits {
        let n = b.len();
        match e {
            ByteEdit::Set(p, v) if n > 0 => b[vh::util::pick(*p, n)] = *v,
            ByteEdit::Flip(p, bit) if n > 0 => b[vh::util::pick(*p, n)] ^= 1 << bit,
            ByteEdit::Truncate(p) => b.truncate(vh::util::pick(*p, n + 1)),
            ByteEdit::Insert(p, v) => {
                let i = vh::util::pick(*p, n + 1);
                b.splice(i..i, v.iter().copied());
            }
            ByteEdit::Delete(p, k) if n > 0 => {
                let i = vh::util::pick(*p, n);
                let j = (i + *k as usize).min(n);
                b.drain(i..j);
            }
            ByteEdit::Dup(p, k) if n > 0 => {
                let i = vh::util::pick(*p, n);
                let j = (i + *k as usize).min(n);
                let d: Vec<u8> = b[i..j].to_vec();
                b.splice(j..j, d);
            }
            _ => {}
        }
    }
    b.truncate(KV_BUF_SIZE);
    b
}

fn check_corruption(case: &CorruptCase) -> Case {
    let cache = cache_of(&case.records);
    let valid = match cache_blob(&cache) {
        Ok(b) => b,
        Err(e) => return Case::fail("resumption:store-failed", format!("a cache of {} records cannot be stored: {e}", cache.len())),
    };
    let blob = match &case.random {
        Some(r) => r.clone(),
        None => apply_byte_edits(valid.clone(), &case.edits),
    };
    let damaged = blob != valid;

    let mut map = two_fabrics();
    map.insert(CASE_RESUMPTION_KEY, blob.clone());
    let kv = MemKv::from_map(map);
    let scratch = Box::new(new_matter(5540));
    {
        let access = scratch.kv(kv.clone());
        if let Err(e) = scratch.startup(&access) {
            return Case::fail(
                "resumption:damaged-blob-prevents-startup",
                format!("Matter::startup failed with {:?} on a store whose resumption blob is {}", e.code(), vh::util::hex(&blob)),
            );
        }
    }
    let loaded: Vec<_> = scratch.with_state(|s| s.resumption.iter().map(rec_tuple).collect());
    let fabrics = scratch.with_state(|s| s.fabrics.iter().count());
    if fabrics != 2 {
        return Case::fail("resumption:damaged-blob-affects-fabrics", format!("{fabrics} fabrics instead of 2 after start-up with resumption blob {}", vh::util::hex(&blob)));
    }
    let after = kv.get(CASE_RESUMPTION_KEY);
    if !damaged {
        let want: Vec<_> = cache.iter().map(rec_tuple).collect();
        if loaded != want {
            return Case::fail("resumption:valid-blob-not-loaded", format!("an undamaged blob of {} records loaded as {} records", want.len(), loaded.len()));
        }
        return Case::pass(false).label("undamaged");
    }
    let label;
    match &after {
        None => {
            // "the unparseable blob is dropped from storage" and the cache stays empty
            if !loaded.is_empty() {
                return Case::fail("resumption:cache-not-empty-after-drop", format!("the blob was removed but the cache holds {} records (blob {})", loaded.len(), vh::util::hex(&blob)));
            }
            label = "dropped";
        }
        Some(_) => {
            // accepted as a cache: then it must be one that survives its own store -> load
            let mut c2 = ResumableSessions::new();
            let mut kv2 = MemKv::new();
            let mut buf = vec![0u8; KV_BUF_SIZE];
            let stored = scratch.with_state(|s| s.resumption.store_persist(&mut kv2, &mut buf));
            if let Err(e) = stored {
                return Case::fail("resumption:loaded-cache-cannot-be-stored", format!("{:?} (blob {})", e.code(), vh::util::hex(&blob)));
            }
            if let Err(e) = c2.load_persist(&mut kv2, &mut buf) {
                return Case::fail("resumption:loaded-cache-does-not-reload", format!("{:?} (blob {})", e.code(), vh::util::hex(&blob)));
            }
            let again: Vec<_> = c2.iter().map(rec_tuple).collect();
            if again != loaded {
                return Case::fail("resumption:loaded-cache-not-stable", format!("cache loaded from the damaged blob {} changes when stored and loaded again", vh::util::hex(&blob)));
            }
            label = if loaded.is_empty() { "accepted-empty" } else { "accepted-records" };
        }
    }
    Case::pass(true).label(label).label(if case.random.is_some() { "random-bytes" } else { "edited-valid-blob" })
}

// ---- round trips

fn resumption_rt_strategy() -> impl Strategy<Value = Vec<RecSpec>> {
    prop::collection::vec(rec_spec(5), 0..=(MAX_RESUMPTION_RECORDS + 4))
}

fn check_resumption_rt(specs: &Vec<RecSpec>) -> Case {
    let cache = cache_of(specs);
    if cache.len() > MAX_RESUMPTION_RECORDS {
        return Case::fail("roundtrip-resumption:over-capacity", format!("{} records", cache.len()));
    }
    let want: Vec<_> = cache.iter().map(rec_tuple).collect();
    let mut kv = MemKv::new();
    let mut buf = vec![0u8; KV_BUF_SIZE];
    if let Err(e) = cache.store_persist(&mut kv, &mut buf) {
        return Case::fail("roundtrip-resumption:store-failed", format!("{} records: {:?}", cache.len(), e.code()));
    }
    let mut c2 = ResumableSessions::new();
    if let Err(e) = c2.load_persist(&mut kv, &mut buf) {
        return Case::fail("roundtrip-resumption:load-failed", format!("{:?}", e.code()));
    }
    let got: Vec<_> = c2.iter().map(rec_tuple).collect();
    if got != want {
        return Case::fail("roundtrip-resumption:differs", format!("stored {} records, loaded {} (first difference at {:?})", want.len(), got.len(), want.iter().zip(got.iter()).position(|(a, b)| a != b)));
    }
    if kv.get(CASE_RESUMPTION_KEY).is_none() {
        return Case::fail("roundtrip-resumption:blob-removed", "a valid blob was removed by the load".to_string());
    }
    Case::pass(!want.is_empty()).label(if want.len() == MAX_RESUMPTION_RECORDS { "at-capacity" } else { "below-capacity" })
}

#[derive(Debug, Clone, Serialize, Deserialize)]
struct BasicCase {
    node_label: String,
    location: Option<String>,
    location_type: Option<u8>,
    local_config_disabled: bool,
    configuration_version: u32,
    /// None = never written, Some(None) = written null
    device_location: Option<Option<(String, Option<i16>, Option<u8>)>>,
    recovery_identifier: Option<u64>,
}

fn utf8_up_to(max: usize) -> impl Strategy<Value = String> {
    prop_oneof![
        3 => prop::collection::vec(prop_oneof![4 => prop::char::range('a', 'z'), 1 => prop::char::range('\u{a1}', '\u{17f}'), 1 => prop::char::range('\u{4e00}', '\u{4e40}'), 1 => Just('\u{1F600}')], 0..=max),
        1 => prop::collection::vec(prop::char::range('A', 'Z'), max..=max),
    ]
    .prop_map(move |cs| {
        let mut s = String::new();
        for c in cs {
            if s.len() + c.len_utf8() > max {
                break;
            }
            s.push(c);
        }
        s
    })
}

fn basic_rt_strategy() -> impl Strategy<Value = BasicCase> {
    (
        utf8_up_to(32),
        prop::option::of("[A-Z]{2}"),
        prop::option::of(0u8..3),
        any::<bool>(),
        any::<u32>(),
        prop::option::of(prop::option::of((utf8_up_to(128), prop::option::of(any::<i16>()), prop::option::of(0u8..95)))),
        prop::option::of(any::<u64>()),
    )
        .prop_map(|(node_label, location, location_type, local_config_disabled, configuration_version, device_location, recovery_identifier)| BasicCase {
            node_label,
            location,
            location_type,
            local_config_disabled,
            configuration_version,
            device_location,
            recovery_identifier,
        })
}

fn check_basic_rt(c: &BasicCase) -> Case {
    use rs_matter::tlv::FromTLV;
    let mut s = BasicInfoSettings::new();
    if s.node_label.push_str(&c.node_label).is_err() {
        return Case::inconclusive("node label does not fit");
    }
    if let Some(l) = &c.location {
        s.set_location(l);
    }
    // the enum values of the General Commissioning cluster: 0 Indoor, 1 Outdoor, 2 IndoorOutdoor
    if let Some(t) = c.location_type {
        let tlv = [0x04u8, t]; // anonymous u8
        match FromTLV::from_tlv(&TLVElement::new(&tlv)) {
            Ok(v) => s.location_type = Some(v),
            Err(_) => return Case::inconclusive("regulatory location type does not decode"),
        }
    }
    s.local_config_disabled = c.local_config_disabled;
    s.configuration_version = c.configuration_version;
    let mut area_known = true;
    s.device_location = c.device_location.as_ref().map(|d| match d {
        None => Nullable::none(),
        Some((name, floor, area)) => {
            let mut dl = DeviceLocation::new();
            let _ = dl.location_name.push_str(name);
            dl.floor_number = *floor;
            if let Some(a) = area {
                let tlv = [0x04u8, *a];
                match FromTLV::from_tlv(&TLVElement::new(&tlv)) {
                    Ok(v) => dl.area_type = Some(v),
                    Err(_) => area_known = false,
                }
            }
            Nullable::some(dl)
        }
    });
    s.recovery_identifier = c.recovery_identifier;

    let kv = MemKv::new();
    let scratch = Box::new(new_matter(5540));
    {
        let mut persist = Persist::new(scratch.kv(kv.clone()));
        if let Err(e) = s.store_persist(&mut persist) {
            return Case::fail("roundtrip-basic-info:store-failed", format!("{s:?}: {:?}", e.code()));
        }
    }
    let Some(blob) = kv.get(BASIC_INFO_KEY) else {
        return Case::fail("roundtrip-basic-info:nothing-stored", format!("{s:?}"));
    };
    let mut l = BasicInfoSettings::new();
    l.node_label.push_str("junk").ok();
    l.recovery_identifier = Some(7);
    let mut buf = vec![0u8; KV_BUF_SIZE];
    let mut kv2 = kv.clone();
    if let Err(e) = l.load_persist(&mut kv2, &mut buf) {
        return Case::fail("roundtrip-basic-info:load-failed", format!("{s:?} stored as {} does not load: {:?}", vh::util::hex(&blob), e.code()));
    }
    if l != s {
        return Case::fail("roundtrip-basic-info:differs", format!("stored {s:?}, loaded {l:?}"));
    }
    // ... and through a start-up of the node
    let node = Box::new(new_matter(5540));
    {
        let access = node.kv(kv.clone());
        if let Err(e) = node.startup(&access) {
            return Case::fail("roundtrip-basic-info:startup-failed", format!("{s:?}: {:?}", e.code()));
        }
    }
    let same = node.with_state(|st| *st.verif_basic_info() == s);
    if !same {
        return Case::fail("roundtrip-basic-info:startup-differs", format!("stored {s:?}"));
    }
    let full = c.node_label.len() == 32 || matches!(&c.device_location, Some(Some((n, _, _))) if n.len() >= 120);
    Case::pass(true).label(if full { "at-capacity" } else { "below-capacity" }).label(if area_known { "area-known" } else { "area-unknown" })
}

#[derive(Debug, Clone, Serialize, Deserialize)]
struct NetCase {
    nets: Vec<(Vec<u8>, Vec<u8>)>,
    remove: Option<u16>,
}

fn net_rt_strategy() -> impl Strategy<Value = NetCase> {
    (
        prop::collection::vec(
            (
                prop_oneof![3 => prop::collection::vec(any::<u8>(), 1..=32), 1 => prop::collection::vec(any::<u8>(), 32..=32)],
                prop_oneof![3 => prop::collection::vec(any::<u8>(), 0..=64), 1 => prop::collection::vec(any::<u8>(), 64..=64)],
            ),
            0..=5,
        ),
        prop::option::of(any::<u16>()),
    )
        .prop_map(|(nets, remove)| NetCase { nets, remove })
}

fn net_dump(n: &WifiNetworks<4>) -> Vec<(Vec<u8>, Vec<u8>)> {
    let mut ids = Vec::new();
    let _ = Networks::networks(n, &mut |id| {
        ids.push(id.to_vec());
        Ok(())
    });
    ids.into_iter()
        .map(|id| {
            let mut pass = Vec::new();
            let _ = Networks::creds(n, &id, &mut |c| {
                if let WirelessCreds::Wifi { pass: p, .. } = c {
                    pass = p.to_vec();
                }
                Ok(())
            });
            (id, pass)
        })
        .collect()
}

fn check_net_rt(c: &NetCase) -> Case {
    let mut n: WifiNetworks<4> = WifiNetworks::new();
    let mut accepted = 0;
    for (ssid, pass) in &c.nets {
        if Networks::add_or_update(&mut n, &WirelessCreds::Wifi { ssid, pass }).is_ok() {
            accepted += 1;
        }
    }
    if let Some(r) = c.remove {
        let d = net_dump(&n);
        if !d.is_empty() {
            let id = d[vh::util::pick(r, d.len())].0.clone();
            let _ = Networks::remove(&mut n, &id);
        }
    }
    let want = net_dump(&n);
    let mut buf = vec![0u8; KV_BUF_SIZE];
    let len = match Networks::save(&n, &mut buf) {
        Ok(Some(l)) => l,
        Ok(None) => return Case::fail("roundtrip-networks:not-saved", "the Wi-Fi store reports nothing to persist".to_string()),
        Err(e) => return Case::fail("roundtrip-networks:store-failed", format!("{} networks: {:?}", want.len(), e.code())),
    };
    let blob = buf[..len].to_vec();
    let mut l: WifiNetworks<4> = WifiNetworks::new();
    let _ = Networks::add_or_update(&mut l, &WirelessCreds::Wifi { ssid: b"junk", pass: b"junk" });
    if let Err(e) = Networks::load(&mut l, &blob) {
        return Case::fail("roundtrip-networks:load-failed", format!("{} networks stored as {} bytes: {:?}", want.len(), blob.len(), e.code()));
    }
    let got = net_dump(&l);
    if got != want {
        return Case::fail("roundtrip-networks:differs", format!("stored {want:x?}, loaded {got:x?}"));
    }
    let mut buf2 = vec![0u8; KV_BUF_SIZE];
    match Networks::save(&l, &mut buf2) {
        Ok(Some(l2)) if buf2[..l2] == blob[..] => {}
        _ => return Case::fail("roundtrip-networks:second-store-differs", format!("{want:x?}")),
    }
    Case::pass(accepted > 0).label(format!("networks:{}", want.len()))
}

// ---- fabric at capacity

#[derive(Debug, Clone, Serialize, Deserialize)]
struct FabricCase {
    which: bool,
    label: String,
    /// (privilege selector, group auth, subjects, targets as (cluster, endpoint, device type))
    acl: Vec<(u8, bool, Vec<u64>, Vec<(Option<u32>, Option<u16>, Option<u32>)>)>,
    key_sets: Vec<(u16, u8, Vec<(Vec<u8>, u64)>)>,
    key_map: Vec<(u16, u16)>,
    groups: Vec<(u16, Vec<u16>, String)>,
    vendor: Option<u16>,
    vvs: Option<Vec<u8>>,
}

fn fabric_rt_strategy() -> impl Strategy<Value = FabricCase> {
    let target = (prop::option::of(any::<u32>()), prop::option::of(any::<u16>()), prop::option::of(any::<u32>()));
    let acl = (0u8..4, any::<bool>(), prop::collection::vec(any::<u64>(), 0..=4), prop::collection::vec(target.clone(), 0..=3));
    let acl_full = (0u8..4, any::<bool>(), prop::collection::vec(any::<u64>(), 4..=4), prop::collection::vec(target, 3..=3));
    (
        any::<bool>(),
        utf8_up_to(32),
        prop_oneof![2 => prop::collection::vec(acl, 0..=4), 1 => prop::collection::vec(acl_full, 4..=4)],
        prop::collection::vec((1u16..0xFFFF, 0u8..2, prop::collection::vec((prop::collection::vec(any::<u8>(), 16), any::<u64>()), 1..=3)), 0..=2),
        prop::collection::vec((any::<u16>(), any::<u16>()), 0..=4),
        prop_oneof![
            2 => prop::collection::vec((any::<u16>(), prop::collection::vec(any::<u16>(), 0..=3), utf8_up_to(16)), 0..=4),
            // the group table at capacity: 4 groups, 3 endpoints each, 16-byte names
            1 => (any::<u16>(), any::<u16>(), prop::collection::vec(prop::collection::vec(prop::char::range('a', 'z'), 16..=16), 4..=4)).prop_map(|(g0, e0, names)| {
                names.into_iter().enumerate().map(|(i, n)| (g0.wrapping_add(i as u16 * 7 + 1), (0..3u16).map(|j| e0.wrapping_add(j * 3 + i as u16)).collect(), n.into_iter().collect())).collect()
            }),
        ],
        prop::option::of(1u16..0xFFF5),
        prop::option::of(prop::collection::vec(any::<u8>(), 85)),
    )
        .prop_map(|(which, label, acl, key_sets, key_map, groups, vendor, vvs)| FabricCase { which, label, acl, key_sets, key_map, groups, vendor, vvs })
}

fn check_fabric_rt(c: &FabricCase) -> Case {
    use rs_matter::acl::{AclEntry, AuthMode, Target};
    use rs_matter::dm::Privilege;
    use rs_matter::fabric::{FabricPersist, GroupKeyMapping};
    use rs_matter::group_keys::{GroupEpochKeyEntry, GroupKeySet};

    let idx = core::num::NonZeroU8::new(if c.which { 1 } else { 2 }).unwrap();
    let kv = MemKv::from_map(two_fabrics());
    let node = Box::new(new_matter(5540));
    {
        let access = node.kv(kv.clone());
        if let Err(e) = node.startup(&access) {
            return Case::inconclusive(format!("start-up from the fabric image failed: {:?}", e.code()));
        }
    }
    // fill the fabric through the public API of the fabric table
    let filled: Result<(), String> = node.with_state(|st| {
        st.fabrics.update_label(idx, &c.label).map_err(|e| format!("label: {:?}", e.code()))?;
        let f = st.fabrics.fabric_mut(idx).map_err(|e| format!("{:?}", e.code()))?;
        f.acl_remove_all();
        for (p, group, subjects, targets) in &c.acl {
            let privilege = [Privilege::VIEW, Privilege::OPERATE, Privilege::MANAGE, Privilege::ADMIN][*p as usize % 4];
            let mut e = AclEntry::new(None, privilege, if *group { AuthMode::Group } else { AuthMode::Case });
            for s in subjects {
                e.add_subject(*s).map_err(|e| format!("subject: {:?}", e.code()))?;
            }
            for (cl, ep, dt) in targets {
                e.add_target(Target::new(*ep, *cl, *dt)).map_err(|e| format!("target: {:?}", e.code()))?;
            }
            f.acl_add(e).map_err(|e| format!("acl_add: {:?}", e.code()))?;
        }
        let g = f.groups_mut();
        for (id, policy, keys) in &c.key_sets {
            let mut ks = GroupKeySet { group_key_set_id: *id, group_key_security_policy: *policy, epoch_keys: Default::default() };
            for (k, start) in keys {
                let mut ek = GroupEpochKeyEntry::default();
                ek.epoch_key.access_mut().copy_from_slice(k);
                ek.epoch_start_time = *start;
                let _ = ks.epoch_keys.push(ek);
            }
            g.key_set_add(ks).map_err(|e| format!("key_set_add: {:?}", e.code()))?;
        }
        for (gid, ksid) in &c.key_map {
            g.key_map_add(GroupKeyMapping { group_id: *gid, group_key_set_id: *ksid }).map_err(|e| format!("key_map_add: {:?}", e.code()))?;
        }
        for (gid, eps, name) in &c.groups {
            if eps.is_empty() {
                g.add(0, *gid, name).map_err(|e| format!("group add: {:?}", e.code()))?;
            }
            for ep in eps {
                g.add(*ep, *gid, name).map_err(|e| format!("group add: {:?}", e.code()))?;
            }
        }
        if c.vendor.is_some() || c.vvs.is_some() {
            f.set_vid_verification(c.vendor, c.vvs.as_deref(), None).map_err(|e| format!("vid: {:?}", e.code()))?;
        }
        Ok(())
    });
    if let Err(e) = filled {
        // beyond a capacity limit (e.g. a 5th group with 4 groups per fabric): not a case
        return Case::pass(false).label(format!("rejected-by-api:{}", e.split(':').next().unwrap_or("")));
    }
    let (want_tlv, want_view) = (fabric_tlvs(&node), view_of(&node, &None, &[], &[]).0);
    let stored = node.with_state(|st| {
        let mut p = FabricPersist::new(node.kv(kv.clone()));
        st.fabrics.fabric(idx).and_then(|f| p.store(f))
    });
    if let Err(e) = stored {
        return Case::fail(
            "roundtrip-fabric:store-failed",
            format!("a fabric within its capacity limits ({} bytes of TLV) cannot be stored: {:?}", want_tlv.get(&idx.get()).map(|t| t.len()).unwrap_or(0), e.code()),
        );
    }
    let node2 = Box::new(new_matter(5540));
    {
        let access = node2.kv(kv.clone());
        if let Err(e) = node2.startup(&access) {
            return Case::fail(
                "roundtrip-fabric:load-failed",
                format!("a node does not start from a store holding a fabric it stored itself: {:?}; fabric: {:?}", e.code(), want_view.iter().filter(|(k, _)| k.starts_with(&format!("fab/{idx}/"))).collect::<Vec<_>>()),
            );
        }
    }
    let (got_tlv, got_view) = (fabric_tlvs(&node2), view_of(&node2, &None, &[], &[]).0);
    if got_tlv != want_tlv || got_view != want_view {
        let d: Vec<String> = keys_of(&want_view, &got_view).into_iter().filter(|k| want_view.get(k) != got_view.get(k)).map(|k| format!("{k}: stored {:?} loaded {:?}", want_view.get(&k), got_view.get(&k))).collect();
        return Case::fail("roundtrip-fabric:differs", d.join("; "));
    }
    let full = c.acl.len() == 4 && c.acl.iter().all(|a| a.2.len() == 4 && a.3.len() == 3);
    let groups_full = group_tables(&node2).get(&idx.get()).map(|t| t.len() == 4 && t.iter().all(|r| r.endpoints.len() == 3 && r.name.len() == 16)).unwrap_or(false);
    Case::pass(true).label(if full { "acl-at-capacity" } else { "acl-below-capacity" }).label(if groups_full { "groups-at-capacity" } else { "groups-below-capacity" }).label(format!("tlv-bytes:{}00+", want_tlv.get(&idx.get()).map(|t| t.len() / 100).unwrap_or(0)))
}

// ---- counters

#[derive(Debug, Clone, Serialize, Deserialize)]
struct CounterCase {
    group_boundary: Option<u32>,
    /// seed of the device whose StartUp event makes it store the event-number epoch
    events: u8,
}

fn counters_rt_strategy() -> impl Strategy<Value = CounterCase> {
    (prop::option::of(prop_oneof![1u32..=u32::MAX, 1u32..16, (0u32..4).prop_map(|x| u32::MAX - x), (0u32..4).prop_map(|x| 0x0FFF_FFFF - x)]), 0u8..40).prop_map(|(group_boundary, events)| CounterCase { group_boundary, events })
}

fn check_counters_rt(c: &CounterCase) -> Case {
    // group data counter: the stored boundary is what start-up resumes from
    let kv = MemKv::new();
    if let Some(b) = c.group_boundary {
        kv.put_raw(GROUP_DATA_COUNTER_KEY, b.to_le_bytes().to_vec());
    }
    let node = Box::new(new_matter(5540));
    {
        let access = node.kv(kv.clone());
        if let Err(e) = node.startup(&access) {
            return Case::fail("roundtrip-counters:startup-failed", format!("group counter boundary {:?}: {:?}", c.group_boundary, e.code()));
        }
    }
    let (ctr, boundary) = node.with_state(|s| s.verif_sessions().verif_global_group_data_ctr_state());
    if let Some(b) = c.group_boundary {
        if ctr != b {
            return Case::fail("roundtrip-counters:group-counter-differs", format!("stored boundary {b:#x}, the node resumes at {ctr:#x} (boundary {boundary:#x})"));
        }
    }
    // event epoch: what a device writes while emitting events is what a restart loads
    vh::sim::reset_universe();
    let net = Net::new(1);
    let none = vec![new_controller(1, 0)];
    let dkv = MemKv::new();
    let cfg = BootCfg { seed: 7 + c.events as u32, net: NetKind::Eth, resume: true, open_window_secs: None, sched: Sched::Fifo };
    let r = boot(&cfg, &dkv, &net, &none[..0], |b| {
        b.run_for(SEC);
    });
    if let Err(e) = r {
        return Case::inconclusive(format!("boot: {e}"));
    }
    if let Some(blob) = dkv.get(EVENT_EPOCH_KEY) {
        let r = boot(&cfg, &dkv, &Net::new(1), &none[..0], |b| {
            b.run_for(SEC);
            b.dm_run_exited()
        });
        match r {
            Err(e) => return Case::fail("roundtrip-counters:event-epoch-prevents-startup", format!("epoch blob {}: {e}", vh::util::hex(&blob))),
            Ok(Some(e)) => return Case::fail("roundtrip-counters:dm-run-terminated", e),
            Ok(None) => {}
        }
    }
    Case::pass(c.group_boundary.is_some())
}

fn trace() -> bool {
    std::env::var_os("C11_TRACE").is_some()
}

// ------------------------------------------------------------------------------------------
// aged-node: a node that has lived through many commissionings. Local fabric indices are handed
// out as max + 1, so after removals and re-commissionings the committed fabrics sit at indices
// far above the number of fabrics the table can hold. Such a node restarts with all of them and
// a factory reset leaves nothing behind.

#[derive(Debug, Clone, Serialize, Deserialize)]
struct AgedCase {
    /// add/remove cycles before the fabrics that stay are commissioned
    churn: u8,
    /// fabrics that stay (1-3)
    real: u8,
    seed: u32,
}

fn aged_strategy() -> impl Strategy<Value = AgedCase> {
    (
        prop_oneof![2 => 0u8..4, 4 => 2u8..9, 2 => 9u8..60, 2 => 60u8..=248],
        1u8..=3,
        any::<u32>(),
    )
        .prop_map(|(churn, real, seed)| AgedCase { churn, real, seed })
}

fn check_aged(c: &AgedCase) -> Case {
    use vh::sim::fabric::install;
    let crypto = mk_crypto(c.seed);
    let mk = |i: u8| -> Result<(FabricKit, vh::sim::fabric::Member), String> {
        let kit = FabricKit::new(&crypto, 0xA000 + i as u64, i % 2 == 0, 112233, i).map_err(|e| format!("kit: {:?}", e.code()))?;
        let dev = kit.device_member(&crypto, 0x2000 + i as u64).map_err(|e| format!("member: {:?}", e.code()))?;
        Ok((kit, dev))
    };
    let (dummies, reals) = match (|| -> Result<_, String> {
        let d = vec![mk(1)?, mk(2)?];
        let mut r = Vec::new();
        for i in 0..c.real {
            r.push(mk(10 + i)?);
        }
        Ok((d, r))
    })() {
        Ok(x) => x,
        Err(e) => return Case::inconclusive(e),
    };
    let node = Box::new(new_matter(5540));
    // life so far: two fabrics that keep being removed and commissioned again
    let lived: Result<(), String> = (|| {
        let mut present: Option<core::num::NonZeroU8> = None;
        for k in 0..=c.churn {
            let (kit, dev) = &dummies[k as usize % 2];
            let idx = install(&node, &crypto, &kit.ca, dev, kit.admin_node).map_err(|e| format!("install dummy: {:?}", e.code()))?;
            if let Some(old) = present.replace(idx) {
                node.with_state(|st| st.fabrics.remove(old)).map_err(|e| format!("remove dummy: {:?}", e.code()))?;
            }
        }
        for (kit, dev) in &reals {
            install(&node, &crypto, &kit.ca, dev, kit.admin_node).map_err(|e| format!("install: {:?}", e.code()))?;
        }
        if let Some(old) = present {
            node.with_state(|st| st.fabrics.remove(old)).map_err(|e| format!("remove dummy: {:?}", e.code()))?;
        }
        Ok(())
    })();
    if let Err(e) = lived {
        return Case::inconclusive(e);
    }
    let committed = fabric_tlvs(&node);
    let top = committed.keys().copied().max().unwrap_or(0);
    // the store of that node: every committed fabric under its key
    let mut map: BTreeMap<u16, Vec<u8>> = BTreeMap::new();
    for (idx, tlv) in &committed {
        map.insert(*idx as u16, tlv.clone());
    }
    // restart
    match fabrics_from_kv(&map) {
        Err(e) => return Case::fail("aged:restart-failed", e),
        Ok((tlvs, text)) => {
            if tlvs != committed {
                let missing: Vec<u8> = committed.keys().filter(|k| !tlvs.contains_key(k)).copied().collect();
                return Case::fail(
                    if missing.is_empty() { "aged:restarted-fabric-differs" } else { "aged:committed-fabric-missing-after-restart" },
                    format!("committed fabric indices {:?}, after the restart {:?} (missing {missing:?}); {text:?}", committed.keys().collect::<Vec<_>>(), tlvs.keys().collect::<Vec<_>>()),
                );
            }
        }
    }
    // factory reset
    let kv = MemKv::from_map(map.clone());
    let fresh = Box::new(new_matter(5540));
    {
        let access = fresh.kv(kv.clone());
        if let Err(e) = fresh.startup(&access) {
            return Case::fail("aged:restart-failed", format!("{:?}", e.code()));
        }
        if let Err(e) = fresh.factory_reset(&access) {
            return Case::fail("aged:factory-reset-failed", format!("{:?}", e.code()));
        }
    }
    let left: Vec<u16> = kv.snapshot().keys().copied().filter(|k| *k < rs_matter::persist::VENDOR_KEYS_START).collect();
    if !left.is_empty() {
        return Case::fail("factory-reset:keys-left", format!("after the factory reset of a node whose fabrics sat at indices {:?} the store still holds the keys {left:?}", committed.keys().collect::<Vec<_>>()));
    }
    Case::pass(top > 5).label(match top {
        0..=5 => "top-index<=5",
        6..=16 => "top-index-6..16",
        17..=99 => "top-index-17..99",
        _ => "top-index>=100",
    })
}

fn main() {
    let mut run = Run::new(
        "C11",
        "fault_enumeration",
        "histories of up to 40 administrative operations built from blocks (commissioning over PASE with 0-2 Wi-Fi networks, UpdateNOC, staged writes under a fail-safe ended by CommissioningComplete / ArmFailSafe(0) / expiry / restart, single ACL / ACL-at-capacity / key-set / key-map / group-table (AddGroup incl. re-adding a membership under another name, joining further endpoints, filling the table and a row beyond capacity, AddGroupIfIdentifying, RemoveGroup, RemoveAllGroups, ViewGroup on four application endpoints) / fabric-label / node-label / location / local-config / regulatory writes outside a fail-safe, RemoveFabric of the own or another fabric, real CASE handshakes + waits that let the resumption cache be flushed, subscriptions with 1-24 paths, restarts, factory reset) perturbed by insert/delete/swap edits, on a Wi-Fi or Ethernet device with 0-2 pre-existing fabrics; EVERY prefix of the resulting store-operation log is booted. Non-trivial: at least one examined prefix ends strictly inside an operation that issued two or more store/remove operations, or directly after the acknowledgement of an operation that changed the persisted state (i.e. between that acknowledgement and the next write); distinct = distinct serialized history",
    );
    run.assume("a failing key-value store is injected only at basic-information writes (NodeLabel, Location, LocalConfigDisabled, SetRegulatoryConfig) outside a fail-safe, one write at a time; the write must then be answered with an error and must not become durable later through another write; store failures at other writes are not generated here (inside a fail-safe context: C08)");
    run.assume("the KV store applies each store/remove atomically and in order (a crash leaves a prefix of the operation log); MemKv::materialize(prefix) is that model");
    run.assume("an operation whose success response reached the controller while no fail-safe was armed is committed; under a fail-safe, changes of the accessing fabric and network changes are committed by the acknowledged CommissioningComplete and discarded when the context ends otherwise (for writes to an existing fabric under its own fail-safe the statement is silent: old and new value are both accepted until the context ends)");
    run.assume("a prefix that ends inside an operation may show, per persisted component, the value from before or after that operation (the KvBlobStore interface has no multi-key transaction): in particular the network blob written by CommissioningComplete just before the fabric blob is accepted on its own; only changes of operations that were refused or rolled back in the full run must never be visible");
    run.assume("the values of the committed components are taken from the device's memory at the acknowledgement (what a peer would read) and tied to the request contents by per-operation effect checks (label, ACL, key sets, key map, group table, node label, location, networks, fabric identity)");
    run.assume("the device of crash-histories is admin::boot_app: root endpoint plus application endpoints 1-4 with Descriptor, Identify and Groups; the expected group table after AddGroup / RemoveGroup / RemoveAllGroups is computed from the table before the request by the Groups cluster specification (existing row renamed, endpoint appended; rows without endpoints dropped); AddGroupIfIdentifying may or may not take effect; the store is also examined at every committing acknowledgement that wrote nothing");
    run.assume("sessions are planted (ReservedSession) except for the Handshake operation, which runs a real CASE handshake; PASE sessions are planted without a commissioning window");
    run.assume("subscriptions are persisted best-effort (spec-optional): only 'what was written reads back' is required of them - every record in the subscription key range is resumed with its stored request bytes and nothing else is; the CASE resumption cache is a soft cache: it may lose records, but must never hold one of a fabric the restarted node does not have");
    run.assume("resumption-corruption: damaged blobs are at most KV_BUF_SIZE bytes long (a longer value is a store error, not a damaged blob); the E3 (libFuzzer) target of the design is replaced by proptest byte edits because a second target directory was not available");
    run.assume("hooks: MatterState::verif_basic_info, MatterState::verif_failsafe, InteractionModel::verif_for_each_subscription (all read-only)");

    let n = run.cases(10_000, 300_000);
    run.prop("crash-histories", n, hist_strategy, check_history);
    let n = run.cases(200_000, 5_000_000);
    run.prop("resumption-corruption", n, corrupt_strategy, check_corruption);
    let n = run.cases(20_000, 500_000);
    run.prop("roundtrip-fabric", n, fabric_rt_strategy, check_fabric_rt);
    let n2 = run.cases(3_000, 100_000);
    run.prop("aged-node", n2, aged_strategy, check_aged);
    let n = run.cases(50_000, 1_000_000);
    run.prop("roundtrip-basic-info", n, basic_rt_strategy, check_basic_rt);
    let n = run.cases(30_000, 1_000_000);
    run.prop("roundtrip-networks", n, net_rt_strategy, check_net_rt);
    let n = run.cases(30_000, 1_000_000);
    run.prop("roundtrip-resumption", n, resumption_rt_strategy, check_resumption_rt);
    let n = run.cases(10_000, 200_000);
    run.prop("roundtrip-counters", n, counters_rt_strategy, check_counters_rt);
    run.finish();
}
