//! C12 — Durable counters never hand out the same value twice, across restarts too.
//!
//! Three durable counters of rs-matter are driven through generated histories of
//! reservations, restarts, crashes placed before / after each individual store operation, and
//! failing store operations:
//!
//! * the Global Group Encrypted Data Message Counter (`Sessions::reserve_global_group_data_ctr`
//!   + `Sessions::load_persist`; the harness plays the one caller, `Exchange::initiate_group`:
//!   "store the returned boundary, and only when that succeeded use the value; when the store
//!   failed call `Sessions::uncover_global_group_data_ctr` and give up" - the stand-in mirrors
//!   the error path of `initiate_group` as repaired by `fixes/01-group-ctr-store-failure.patch`);
//! * the event number (`Events::push` with the logging KV store + the start-up load path);
//! * the ICD Check-In counter (`CheckInCounter` following its documented protocol, and the same
//!   through `Icd::{load,persist,advance,invalidate}_counter`, which issue the stores themselves).
//!
//! The harness is "the wire": a value counts as *used* when the code handed it out **and** every
//! store the interface demanded before its use has completed. Oracles (from the statement):
//!
//! * U1 — no value is used twice over all boots of one history (histories stay far below the
//!   counter period, so a legitimate wrap-around cannot produce a duplicate);
//! * U2 — at the moment of use the KV store holds a boundary that covers the value, i.e. a
//!   restart at that very moment would resume past it (modular half-range interval test; whether
//!   a restart resumes *at* or *after* the stored boundary is taken from the documentation of
//!   each counter);
//! * U3 (store precedes first use) coincides with U2 at component level, because the harness
//!   uses a value only after the call that handed it out has returned; it becomes a separate
//!   observation only end-to-end (datagram tap), which needs the simulator.
//!
//! A "restart" builds a fresh object from the KV contents; a "crash before store" rolls the KV
//! store back to the log prefix before the store operation of the interrupted reservation.
//!
//! Sub-checks (the generator domain is partitioned so that one finding cannot mask another):
//! `group-crash` (crashes and restarts only), `group-storefail` (plus failing store operations),
//! `group-matter-startup` (restart = a fresh `Matter` + `Matter::startup`), `event`,
//! `event-range-top` (start in the last three epochs below 2^64; signature prefix
//! `event@range-top`), `checkin` (raw `CheckInCounter` and `Icd`, with store failures and jumps),
//! `edge-table` (exhaustive placements around epoch edges and the range wrap).
//!
//! Failure signatures: `<counter>:U1-duplicate` / `<counter>:U2-uncovered`, with the suffix
//! `+after-store-failure` when a store operation of the current boot was made to fail and the KV
//! store still holds what it held then.
//!
//! `C12_TRACE=1 c12 --replay FILE` prints what happened in the replayed case.

use std::cell::RefCell;
use std::collections::BTreeMap;

use proptest::prelude::*;
use serde::{Deserialize, Serialize};

use rs_matter::crypto::{default_crypto, Crypto, CryptoRng, RngCore};
use rs_matter::dm::clusters::icd_mgmt::{Icd, IcdModeConfig};
use rs_matter::dm::devices::test::{DAC_PRIVKEY, TEST_DEV_ATT, TEST_DEV_COMM, TEST_DEV_DET};
use rs_matter::error::{Error, ErrorCode};
use rs_matter::im::events::{Events, EVENT_DATA_TAG};
use rs_matter::im::EventPriority;
use rs_matter::persist::{
    KvBlobStore, KvBlobStoreAccess, Persist, EVENT_EPOCH_KEY, GROUP_DATA_COUNTER_KEY,
    ICD_CHECK_IN_COUNTER_KEY,
};
use rs_matter::sc::checkin::CheckInCounter;
use rs_matter::tlv::{TLVElement, ToTLV};
use rs_matter::transport::session::{Sessions, GROUP_DATA_CTR_EPOCH};
use rs_matter::Matter;

use vh::sim::kv::MemKv;
use vh::{Case, Run};

// ---------------------------------------------------------------------------------------------
// Histories
// ---------------------------------------------------------------------------------------------

/// What happens to the one store operation (if any) that a reservation demands.
#[derive(Debug, Clone, Copy, PartialEq, Eq, Serialize, Deserialize)]
enum Fault {
    /// Nothing: the store (if demanded) completes, then the value is used.
    None,
    /// The store operation returns an error (the process lives on).
    StoreFails,
    /// The process dies immediately before the store operation (or, if the reservation demands
    /// no store, before the value is used). The value is not used. Then the node restarts.
    CrashBeforeStore,
    /// The process dies right after the store operation completed, before the value is used.
    /// Then the node restarts.
    CrashAfterStore,
}

#[derive(Debug, Clone, Serialize, Deserialize)]
enum Step {
    /// `n` complete reservations (store if demanded, then use).
    Reserve(u16),
    /// Complete reservations until the node is `off` reservations away from the one that is
    /// expected (by the documented epoch length) to demand the next store.
    ToEdge(i8),
    /// Complete reservations until the last used value is `top-of-range + off` (only when that
    /// is at most 3000 reservations away).
    ToWrap(i8),
    /// One reservation with a fault.
    One(Fault),
    /// Clean restart between two reservations.
    Restart,
    /// Group counter only: read the counter without reserving (`MsgCounterSyncRsp` path).
    Peek,
    /// Group counter only: `Sessions::reset` (transport reset; documented to keep the counter).
    SoftReset,
    /// Check-In counter only: jump forward (`advance_by` / `invalidate_counter`).
    Jump(u32),
    /// Event number only: the event payload closure fails after the number was allocated.
    PushFails,
}

// ---------------------------------------------------------------------------------------------
// The wire + the oracles
// ---------------------------------------------------------------------------------------------

#[derive(Clone, Copy)]
struct Space {
    /// signature prefix
    name: &'static str,
    /// the counter lives in `[0, 2^bits)`
    bits: u32,
    /// `true`: a restart hands out the stored boundary itself first (it covers `v < B`);
    /// `false`: a restart hands out boundary + 1 first (it covers `v <= B`).
    resume_at_boundary: bool,
}

impl Space {
    fn mask(&self) -> u64 {
        if self.bits >= 64 {
            u64::MAX
        } else {
            (1u64 << self.bits) - 1
        }
    }

    fn top(&self) -> u64 {
        self.mask()
    }

    /// Does a stored boundary `b` cover the value `v`: is `v` behind the point a restart would
    /// resume from, by less than half the range?
    fn covers(&self, b: u64, v: u64) -> bool {
        let d = b.wrapping_sub(v) & self.mask();
        let half = 1u64 << (self.bits - 1);
        if self.resume_at_boundary {
            d >= 1 && d < half
        } else {
            d < half
        }
    }
}

const GROUP_SPACE: Space = Space {
    name: "group",
    bits: 28,
    resume_at_boundary: true,
};
const EVENT_SPACE: Space = Space {
    name: "event",
    bits: 64,
    resume_at_boundary: true,
};
/// The same counter; a separate signature prefix for histories that start in the last epochs
/// below 2^64 (so that a finding there cannot mask, or be masked by, one in the ordinary range).
const EVENT_TOP_SPACE: Space = Space {
    name: "event@range-top",
    bits: 64,
    resume_at_boundary: true,
};
const CHECKIN_SPACE: Space = Space {
    name: "checkin",
    bits: 32,
    resume_at_boundary: false,
};

/// Documented epoch of the event number ("stored next-epoch start, step 10000").
const EVENT_EPOCH: u64 = 10_000;

/// A maximal run of consecutive values used within one boot.
struct UsedRun {
    lo: u64,
    hi: u64,
    boot: u32,
    step: usize,
}

struct World {
    space: Space,
    key: u16,
    kv: MemKv,
    decode: fn(&[u8]) -> Option<u64>,
    /// every value that went on the wire, as runs of consecutive values
    used: Vec<UsedRun>,
    uses: usize,
    /// decoded stored boundary, valid while the KV log has this length
    stored_cache: Option<(usize, Option<u64>)>,
    boot: u32,
    step: usize,
    max_uses: usize,
    // position within the current boot
    uses_this_boot: u32,
    last_used: Option<u64>,
    /// completed uses since the last store demand (or since boot)
    since_demand: u32,
    /// the most recent store demand of this boot came after at least one use of this boot
    demand_is_cross: bool,
    /// what the KV store held when a store operation of this boot was made to fail; the failure
    /// is "unresolved" for as long as the KV store still holds exactly that
    failed_while_stored: Option<Option<u64>>,
    // statistics for the non-trivial rule and the labels
    crash_before: u32,
    crash_after: u32,
    epoch_cross: u32,
    fault_at_cross: u32,
    wraps: u32,
    store_failed: u32,
    restarts: u32,
    first_boot_seed: bool,
    extra: Vec<&'static str>,
    trace: Vec<String>,
}

type Res<T> = Result<T, Box<Case>>;

/// `C12_TRACE=1` (with `--replay`): print what happened in the case, step by step.
fn tracing() -> bool {
    static T: std::sync::OnceLock<bool> = std::sync::OnceLock::new();
    *T.get_or_init(|| std::env::var("C12_TRACE").is_ok())
}

fn fail<T>(sig: String, detail: String) -> Res<T> {
    Err(Box::new(Case::fail(sig, detail)))
}

fn inconclusive<T>(why: String) -> Res<T> {
    Err(Box::new(Case::inconclusive(why)))
}

impl World {
    fn new(space: Space, key: u16, kv: MemKv, decode: fn(&[u8]) -> Option<u64>, max_uses: usize) -> Self {
        Self {
            space,
            key,
            kv,
            decode,
            used: Vec::new(),
            uses: 0,
            stored_cache: None,
            boot: 0,
            step: 0,
            max_uses,
            uses_this_boot: 0,
            last_used: None,
            since_demand: 0,
            demand_is_cross: false,
            failed_while_stored: None,
            crash_before: 0,
            crash_after: 0,
            epoch_cross: 0,
            fault_at_cross: 0,
            wraps: 0,
            store_failed: 0,
            restarts: 0,
            first_boot_seed: false,
            extra: Vec::new(),
            trace: Vec::new(),
        }
    }

    fn note(&mut self, s: String) {
        if self.trace.len() >= 14 && !tracing() {
            self.trace.remove(2);
        }
        self.trace.push(s);
    }

    /// The boundary the KV store holds right now.
    fn stored(&mut self) -> Res<Option<u64>> {
        let len = self.kv.log_len();
        if let Some((l, b)) = self.stored_cache {
            if l == len {
                return Ok(b);
            }
        }
        let b = match self.kv.get(self.key) {
            None => None,
            Some(data) => match (self.decode)(&data) {
                Some(b) => Some(b),
                None => {
                    return inconclusive(format!(
                        "{}: harness cannot decode the stored boundary {:02x?}",
                        self.space.name, data
                    ))
                }
            },
        };
        self.stored_cache = Some((len, b));
        Ok(b)
    }

    /// A crash rolled the storage back to `contents`.
    fn replace_kv(&mut self, contents: BTreeMap<u16, Vec<u8>>) {
        self.kv = MemKv::from_map(contents);
        self.stored_cache = None;
    }

    fn exhausted(&self) -> bool {
        self.uses >= self.max_uses
    }

    fn on_boot(&mut self) {
        self.boot += 1;
        self.uses_this_boot = 0;
        self.last_used = None;
        self.since_demand = 0;
        self.demand_is_cross = false;
        self.failed_while_stored = None;
        let s = format!("boot#{} with stored={:?}", self.boot, self.kv.get(self.key).map(|d| (self.decode)(&d)));
        self.note(s);
    }

    /// A reservation demanded a store (before any fault is applied to it).
    fn on_store_demand(&mut self) {
        self.demand_is_cross = self.uses_this_boot >= 1;
        if self.demand_is_cross {
            self.epoch_cross += 1;
        }
        self.since_demand = 0;
    }

    /// A fault hit a store operation that was actually demanded.
    fn fault_hit(&mut self, fault: Fault, what: String) {
        match fault {
            Fault::None => return,
            Fault::StoreFails => {
                self.store_failed += 1;
                self.failed_while_stored = self.stored().ok();
            }
            Fault::CrashBeforeStore => self.crash_before += 1,
            Fault::CrashAfterStore => self.crash_after += 1,
        }
        if self.demand_is_cross {
            self.fault_at_cross += 1;
        }
        let s = format!("step {}: {fault:?} hit {what}", self.step);
        self.note(s);
    }

    /// The value `v` goes on the wire now.
    fn use_value(&mut self, v: u64, ctx: &dyn Fn() -> String) -> Res<()> {
        let stored = self.stored()?;
        // a store failed in this boot and nothing has been stored successfully since
        let suffix = if self.failed_while_stored == Some(stored) {
            "+after-store-failure"
        } else {
            ""
        };
        if let Some(r) = self.used.iter().find(|r| r.lo <= v && v <= r.hi) {
            return fail(
                format!("{}:U1-duplicate{suffix}", self.space.name),
                format!(
                    "value {v} used in boot#{} (step {}) was already used in boot#{} (in the run {}..={} that began at step {}); stored boundary now {stored:?}; {}; trace: {}",
                    self.boot,
                    self.step,
                    r.boot,
                    r.lo,
                    r.hi,
                    r.step,
                    ctx(),
                    self.trace.join(" | ")
                ),
            );
        }
        let covered = stored.map(|b| self.space.covers(b, v)).unwrap_or(false);
        if !covered {
            return fail(
                format!("{}:U2-uncovered{suffix}", self.space.name),
                format!(
                    "value {v} is used in boot#{} (step {}) while the KV store holds boundary {stored:?}, which does not cover it (a restart now resumes {} the stored boundary and would hand the value out again); {}; trace: {}",
                    self.boot,
                    self.step,
                    if self.space.resume_at_boundary { "at" } else { "right after" },
                    ctx(),
                    self.trace.join(" | ")
                ),
            );
        }
        match self.used.last_mut() {
            Some(r) if r.boot == self.boot && r.hi.checked_add(1) == Some(v) => r.hi = v,
            _ => self.used.push(UsedRun {
                lo: v,
                hi: v,
                boot: self.boot,
                step: self.step,
            }),
        }
        self.uses += 1;
        if let Some(last) = self.last_used {
            if v < last {
                self.wraps += 1;
            }
        }
        if self.uses_this_boot == 0 {
            let s = format!("first use of boot#{}: {v} (stored {stored:?})", self.boot);
            self.note(s);
        } else if tracing() && self.uses < 60 {
            let s = format!("step {}: use {v} (stored {stored:?}; {})", self.step, ctx());
            self.note(s);
        }
        self.last_used = Some(v);
        self.uses_this_boot += 1;
        self.since_demand += 1;
        Ok(())
    }

    fn finish(self) -> Case {
        if tracing() {
            for l in &self.trace {
                eprintln!("  {l}");
            }
            eprintln!("  {} values used in {} boots", self.uses, self.boot);
        }
        let nontrivial = self.crash_before + self.crash_after > 0 || self.epoch_cross > 0 || self.wraps > 0;
        let mut labels: Vec<&'static str> = Vec::new();
        if self.crash_before > 0 {
            labels.push("crash-between-reserve-and-store");
        }
        if self.crash_after > 0 {
            labels.push("crash-between-store-and-use");
        }
        if self.epoch_cross > 0 {
            labels.push("epoch-cross");
        }
        if self.fault_at_cross > 0 {
            labels.push("fault-at-epoch-cross");
        }
        if self.wraps > 0 {
            labels.push("range-wrap");
        }
        if self.store_failed > 0 {
            labels.push("store-failed");
        }
        if self.restarts > 0 {
            labels.push("restart");
        }
        if self.first_boot_seed {
            labels.push("first-boot-random-seed");
        }
        labels.push(match self.uses {
            0 => "uses=0",
            1..=9 => "uses=1..9",
            10..=999 => "uses=10..999",
            _ => "uses>=1000",
        });
        labels.extend(self.extra.iter().copied());
        if !nontrivial {
            labels.push("trivial");
        }
        Case::pass(nontrivial).labels(labels)
    }
}

fn decode_le32(d: &[u8]) -> Option<u64> {
    let a: [u8; 4] = d.try_into().ok()?;
    Some(u32::from_le_bytes(a) as u64)
}

fn decode_tlv_u64(d: &[u8]) -> Option<u64> {
    TLVElement::new(d).u64().ok()
}

/// `KvBlobStoreAccess` over the logging store: what `Matter::kv` gives the application.
struct KvAccess {
    kv: MemKv,
    buf: RefCell<Vec<u8>>,
}

impl KvAccess {
    fn new(kv: &MemKv, buf_len: usize) -> Self {
        Self {
            kv: kv.clone(),
            buf: RefCell::new(vec![0u8; buf_len]),
        }
    }
}

impl KvBlobStoreAccess for KvAccess {
    fn access<F, R>(&self, f: F) -> R
    where
        F: FnOnce(&mut dyn KvBlobStore, &mut [u8]) -> R,
    {
        let mut kv = self.kv.clone();
        let mut buf = self.buf.borrow_mut();
        f(&mut kv, &mut buf[..])
    }
}

/// Was a store operation logged since the log had `from` entries? `Some(true)`: a successful
/// one, `Some(false)`: one that was made to fail. (Every write of these histories goes to the
/// one key of the counter under test; `injected` tells whether failure injection was on.)
fn store_since(kv: &MemKv, from: usize, injected: bool) -> Option<bool> {
    if kv.log_len() > from {
        Some(!injected)
    } else {
        None
    }
}

/// The hardware RNG of the simulated device: hands out the scripted words (it survives
/// restarts, as a hardware RNG does not replay).
struct ScriptRng {
    words: Vec<u32>,
    idx: usize,
}

impl RngCore for ScriptRng {
    fn next_u32(&mut self) -> u32 {
        let w = if self.words.is_empty() {
            0x0123_4567
        } else {
            self.words[self.idx % self.words.len()].wrapping_add((self.idx / self.words.len()) as u32 * 0x0101_0101)
        };
        self.idx += 1;
        w
    }

    fn next_u64(&mut self) -> u64 {
        ((self.next_u32() as u64) << 32) | self.next_u32() as u64
    }

    fn fill_bytes(&mut self, dest: &mut [u8]) {
        for c in dest.chunks_mut(4) {
            let w = self.next_u32().to_le_bytes();
            c.copy_from_slice(&w[..c.len()]);
        }
    }

    fn try_fill_bytes(&mut self, dest: &mut [u8]) -> Result<(), rand_core::Error> {
        self.fill_bytes(dest);
        Ok(())
    }
}

impl CryptoRng for ScriptRng {}

// ---------------------------------------------------------------------------------------------
// Group data message counter
// ---------------------------------------------------------------------------------------------

#[derive(Debug, Clone, Serialize, Deserialize)]
struct GroupCase {
    /// boundary found in storage at the first boot (`None`: key absent, first boot ever)
    start: Option<u32>,
    /// words the RNG hands out (first-use seeds of the counter)
    seeds: Vec<u32>,
    steps: Vec<Step>,
}

enum GroupNode {
    Bare(Box<Sessions>),
    Full(Box<Matter<'static>>),
}

impl GroupNode {
    /// Build a fresh node from the KV contents.
    fn boot(kv: &MemKv, via_matter: bool) -> Res<Self> {
        if via_matter {
            let matter = Box::new(Matter::new(&TEST_DEV_DET, TEST_DEV_COMM, &TEST_DEV_ATT, 5540));
            let access = KvAccess::new(kv, 4096);
            if let Err(e) = matter.startup(&access) {
                return inconclusive(format!("Matter::startup failed: {e:?}"));
            }
            Ok(Self::Full(matter))
        } else {
            let mut s = Box::new(Sessions::new());
            let mut h = kv.clone();
            let mut buf = [0u8; 64];
            if let Err(e) = s.load_persist(&mut h, &mut buf) {
                return inconclusive(format!("Sessions::load_persist failed: {e:?}"));
            }
            Ok(Self::Bare(s))
        }
    }

    fn with<R>(&mut self, f: impl FnOnce(&mut Sessions) -> R) -> R {
        match self {
            Self::Bare(s) => f(s),
            Self::Full(m) => m.with_state(|st| f(st.verif_sessions_mut())),
        }
    }
}

struct GroupSim<'a, C: Crypto> {
    w: World,
    node: GroupNode,
    crypto: &'a C,
    via_matter: bool,
}

impl<C: Crypto> GroupSim<'_, C> {
    fn reboot(&mut self) -> Res<()> {
        self.node = GroupNode::boot(&self.w.kv, self.via_matter)?;
        self.w.on_boot();
        Ok(())
    }

    /// What `Exchange::initiate_group` does with the counter: reserve, store the boundary if one
    /// is handed back, give up on a store error, else send.
    fn one(&mut self, fault: Fault) -> Res<()> {
        let absent_before = self.w.kv.get(self.w.key).is_none();
        let crypto = self.crypto;
        let (v, b) = match self.node.with(|s| s.verif_reserve_global_group_data_ctr(crypto)) {
            Ok(x) => x,
            Err(e) => return inconclusive(format!("group counter reservation failed: {e:?}")),
        };
        let state = self.node.with(|s| s.verif_global_group_data_ctr_state());
        if absent_before && self.w.uses_this_boot == 0 {
            self.w.first_boot_seed = true;
        }
        if b.is_some() {
            self.w.on_store_demand();
        }
        let ctx = move || format!("reservation returned ({v}, {b:?}), in-memory (counter, boundary) = {state:?}");
        let v = v as u64;
        let mut h = self.w.kv.clone();
        let mut buf = [0u8; 16];
        match fault {
            Fault::None => {
                if let Some(b) = b {
                    if let Err(e) = h.store(self.w.key, &b.to_le_bytes(), &mut buf) {
                        return inconclusive(format!("MemKv store failed unexpectedly: {e:?}"));
                    }
                }
                self.w.use_value(v, &ctx)?;
            }
            Fault::StoreFails => {
                if let Some(b) = b {
                    self.w.kv.fail_write_at(0);
                    if h.store(self.w.key, &b.to_le_bytes(), &mut buf).is_ok() {
                        return inconclusive("MemKv did not inject the failure".into());
                    }
                    self.w.fault_hit(fault, format!("the store of boundary {b} demanded for value {v}: value not used"));
                    // Mirror of the error path of `initiate_group` (fixes/01): on a store error
                    // it calls `Sessions::uncover_global_group_data_ctr` and returns the error:
                    // no exchange, the value is not used.
                    self.node.with(|s| s.verif_uncover_global_group_data_ctr());
                } else {
                    self.w.use_value(v, &ctx)?;
                }
            }
            Fault::CrashBeforeStore => {
                if b.is_some() {
                    self.w.fault_hit(fault, format!("the store of boundary {b:?} demanded for value {v}: value not used"));
                }
                self.w.restarts += 1;
                self.reboot()?;
            }
            Fault::CrashAfterStore => {
                if let Some(b) = b {
                    if let Err(e) = h.store(self.w.key, &b.to_le_bytes(), &mut buf) {
                        return inconclusive(format!("MemKv store failed unexpectedly: {e:?}"));
                    }
                    self.w.fault_hit(fault, format!("the store of boundary {b} demanded for value {v}: value not used"));
                }
                self.w.restarts += 1;
                self.reboot()?;
            }
        }
        Ok(())
    }

    fn many(&mut self, n: u64) -> Res<()> {
        for _ in 0..n {
            if self.w.exhausted() {
                break;
            }
            self.one(Fault::None)?;
        }
        Ok(())
    }

    fn step(&mut self, s: &Step) -> Res<()> {
        match s {
            Step::Reserve(n) => self.many(*n as u64),
            Step::ToEdge(off) => {
                if self.w.uses_this_boot == 0 {
                    self.many(1)?;
                }
                let n = GROUP_DATA_CTR_EPOCH as i64 - self.w.since_demand as i64 + *off as i64;
                self.many(n.clamp(0, 1100) as u64)
            }
            Step::ToWrap(off) => {
                if self.w.last_used.is_none() {
                    self.many(1)?;
                }
                let last = self.w.last_used.unwrap_or(0);
                if let Some(d) = self.w.space.top().checked_sub(last) {
                    let n = d.min(1 << 40) as i64 + *off as i64;
                    if (1..=3000).contains(&n) {
                        self.many(n as u64)?;
                    }
                }
                Ok(())
            }
            Step::One(f) => self.one(*f),
            Step::Restart => {
                self.w.restarts += 1;
                self.reboot()
            }
            Step::Peek => {
                let crypto = self.crypto;
                match self.node.with(|s| s.verif_get_or_init_global_group_data_ctr(crypto)) {
                    Ok(_) => {
                        self.w.extra.push("peek");
                        Ok(())
                    }
                    Err(e) => inconclusive(format!("get_or_init failed: {e:?}")),
                }
            }
            Step::SoftReset => {
                self.node.with(|s| s.reset());
                self.w.extra.push("soft-reset");
                Ok(())
            }
            Step::Jump(_) | Step::PushFails => Ok(()),
        }
    }
}

fn check_group(c: &GroupCase, via_matter: bool) -> Case {
    let kv = match c.start {
        Some(b) => {
            let mut m = BTreeMap::new();
            m.insert(GROUP_DATA_COUNTER_KEY, b.to_le_bytes().to_vec());
            MemKv::from_map(m)
        }
        None => MemKv::new(),
    };
    let crypto = default_crypto(
        ScriptRng {
            words: c.seeds.clone(),
            idx: 0,
        },
        DAC_PRIVKEY,
    );
    let mut w = World::new(GROUP_SPACE, GROUP_DATA_COUNTER_KEY, kv, decode_le32, 5000);
    let node = match GroupNode::boot(&w.kv, via_matter) {
        Ok(n) => n,
        Err(c) => return *c,
    };
    w.on_boot();
    let mut sim = GroupSim {
        w,
        node,
        crypto: &crypto,
        via_matter,
    };
    for (i, s) in c.steps.iter().enumerate() {
        sim.w.step = i;
        if let Err(c) = sim.step(s) {
            return *c;
        }
    }
    sim.w.finish()
}

// ---------------------------------------------------------------------------------------------
// Event number
// ---------------------------------------------------------------------------------------------

#[derive(Debug, Clone, Serialize, Deserialize)]
struct EventCase {
    /// next-epoch start found in storage at the first boot (`None`: key absent)
    start: Option<u64>,
    steps: Vec<Step>,
}

type Ev = Events<256>;

struct EventSim {
    w: World,
    events: Box<Ev>,
    /// rebuilt at every boot (the KV handle changes when a crash rolls a store back)
    access: KvAccess,
}

fn boot_events(kv: &MemKv) -> Res<Box<Ev>> {
    let ev: Box<Ev> = Box::new(Events::new());
    let mut h = kv.clone();
    let mut buf = [0u8; 64];
    if let Err(e) = ev.verif_load_persist(&mut h, &mut buf) {
        return inconclusive(format!("Events::load_persist failed: {e:?}"));
    }
    Ok(ev)
}

impl EventSim {
    fn reboot(&mut self) -> Res<()> {
        self.events = boot_events(&self.w.kv)?;
        self.access = KvAccess::new(&self.w.kv, 64);
        self.w.on_boot();
        Ok(())
    }

    fn push(&self, payload_fails: bool) -> Result<u64, Error> {
        let access = &self.access;
        let prio = match self.w.uses % 3 {
            0 => EventPriority::Debug,
            1 => EventPriority::Info,
            _ => EventPriority::Critical,
        };
        self.events.push(1, 0x28, 0, prio, access, |tw| {
            if payload_fails {
                Err(ErrorCode::Invalid.into())
            } else {
                7u8.to_tlv(&EVENT_DATA_TAG, tw)
            }
        })
    }

    fn one(&mut self, fault: Fault) -> Res<()> {
        let before = self.w.kv.log_len();
        if fault == Fault::StoreFails {
            self.w.kv.set_fail_all(true);
        }
        let r = self.push(false);
        self.w.kv.set_fail_all(false);
        let stored = store_since(&self.w.kv, before, fault == Fault::StoreFails);
        if stored.is_some() {
            self.w.on_store_demand();
        }
        let next = self.events.verif_next_event_number();
        let ctx = move || format!("store logged during push: {stored:?}, next event number in memory {next}");
        match fault {
            Fault::None | Fault::StoreFails => match r {
                Ok(v) => {
                    if stored == Some(false) {
                        self.w.fault_hit(fault, format!("the store inside push, which nevertheless returned Ok({v})"));
                    }
                    self.w.use_value(v, &ctx)?;
                }
                Err(e) => {
                    if stored == Some(false) {
                        self.w.fault_hit(fault, "the store inside push, which returned an error: nothing used".into());
                    } else {
                        return inconclusive(format!("Events::push failed without an injected fault: {e:?}"));
                    }
                }
            },
            Fault::CrashBeforeStore => {
                if stored == Some(true) {
                    // the process died right before the store: roll the store back
                    let rolled_back = self.w.kv.materialize(before);
                    self.w.replace_kv(rolled_back);
                    self.w.fault_hit(fault, format!("the store inside push -> {r:?} (not used, store rolled back)"));
                }
                self.w.restarts += 1;
                self.reboot()?;
            }
            Fault::CrashAfterStore => {
                if stored == Some(true) {
                    self.w.fault_hit(fault, format!("the store inside push -> {r:?} (not used)"));
                }
                self.w.restarts += 1;
                self.reboot()?;
            }
        }
        Ok(())
    }

    fn many(&mut self, n: u64) -> Res<()> {
        for _ in 0..n {
            if self.w.exhausted() {
                break;
            }
            self.one(Fault::None)?;
        }
        Ok(())
    }

    fn step(&mut self, s: &Step) -> Res<()> {
        match s {
            Step::Reserve(n) => self.many(*n as u64),
            Step::ToEdge(off) => {
                if self.w.last_used.is_none() {
                    self.many(1)?;
                }
                let last = self.w.last_used.unwrap_or(1);
                // the next multiple of the epoch strictly above `last` (none near the very top)
                let Some(edge) = (last / EVENT_EPOCH + 1).checked_mul(EVENT_EPOCH) else {
                    return Ok(());
                };
                let n = (edge - 1 - last) as i64 + *off as i64;
                self.many(n.clamp(0, EVENT_EPOCH as i64 + 10) as u64)
            }
            Step::ToWrap(off) => {
                if self.w.last_used.is_none() {
                    self.many(1)?;
                }
                let last = self.w.last_used.unwrap_or(0);
                let d = self.w.space.top() - last;
                if d <= 3000 {
                    let n = d as i64 + *off as i64;
                    if n >= 1 {
                        self.many(n as u64)?;
                    }
                }
                Ok(())
            }
            Step::One(f) => self.one(*f),
            Step::Restart => {
                self.w.restarts += 1;
                self.reboot()
            }
            Step::PushFails => {
                let before = self.w.kv.log_len();
                match self.push(true) {
                    Err(_) => {
                        if store_since(&self.w.kv, before, false).is_some() {
                            self.w.on_store_demand();
                        }
                        self.w.extra.push("payload-failed");
                        Ok(())
                    }
                    Ok(v) => inconclusive(format!("push returned Ok({v}) although the payload closure failed")),
                }
            }
            Step::Peek | Step::SoftReset | Step::Jump(_) => Ok(()),
        }
    }
}

fn check_event(c: &EventCase) -> Case {
    let kv = MemKv::new();
    if let Some(b) = c.start {
        // written the way the code itself writes it
        let access = KvAccess::new(&kv, 64);
        if let Err(e) = Persist::new(&access).store_tlv(EVENT_EPOCH_KEY, b) {
            return Case::inconclusive(format!("cannot prepare the stored epoch: {e:?}"));
        }
    }
    let kv = MemKv::from_map(kv.snapshot());
    let space = match c.start {
        Some(b) if b >= EVENT_TOP_EPOCH - 2 * EVENT_EPOCH => EVENT_TOP_SPACE,
        _ => EVENT_SPACE,
    };
    let mut w = World::new(space, EVENT_EPOCH_KEY, kv, decode_tlv_u64, 25_000);
    let events = match boot_events(&w.kv) {
        Ok(e) => e,
        Err(c) => return *c,
    };
    w.on_boot();
    let access = KvAccess::new(&w.kv, 64);
    let mut sim = EventSim { w, events, access };
    for (i, s) in c.steps.iter().enumerate() {
        sim.w.step = i;
        if let Err(c) = sim.step(s) {
            return *c;
        }
    }
    sim.w.finish()
}

// ---------------------------------------------------------------------------------------------
// ICD Check-In counter
// ---------------------------------------------------------------------------------------------

#[derive(Debug, Clone, Serialize, Deserialize)]
struct CheckInCase {
    /// `false`: `CheckInCounter` with the harness as the application that owns the storage;
    /// `true`: through `Icd::{load,persist,advance,invalidate}_counter`.
    via_icd: bool,
    epoch: u32,
    /// boundary found in storage at the first boot (`None`: key absent)
    start: Option<u32>,
    /// fresh random initial values the application picks when nothing is stored
    fresh: Vec<u32>,
    steps: Vec<Step>,
}

const ICD_MODE: IcdModeConfig = IcdModeConfig {
    idle_mode_duration_s: 60,
    active_mode_duration_ms: 300,
    active_mode_threshold_ms: 500,
    user_active_mode_trigger_hint: 0,
    user_active_mode_trigger_instruction: "",
};

enum CiNode {
    Raw(CheckInCounter),
    Icd(Box<Icd>),
}

struct CheckInSim<'a> {
    w: World,
    c: &'a CheckInCase,
    node: CiNode,
    fresh_idx: usize,
    /// the interface told the application to store a boundary and that has not succeeded yet
    /// (`Some(b)`: the value handed back, raw mode; in ICD mode `persist_counter` picks it)
    pending: Option<u32>,
}

enum StoreOutcome {
    Stored,
    Failed,
    Crashed,
}

impl CheckInSim<'_> {
    fn boot_node(&mut self) -> Res<()> {
        let fresh = if self.c.fresh.is_empty() {
            0x5eed_0001
        } else {
            self.c.fresh[self.fresh_idx % self.c.fresh.len()].wrapping_add((self.fresh_idx / self.c.fresh.len()) as u32 * 0x0100_0001)
        };
        let stored = self.w.stored()?;
        if stored.is_none() {
            self.fresh_idx += 1;
            self.w.first_boot_seed = true;
        }
        if self.c.via_icd {
            let icd = Box::new(Icd::new(CheckInCounter::new(fresh, self.c.epoch), ICD_MODE));
            let mut h = self.w.kv.clone();
            let mut buf = [0u8; 16];
            if let Err(e) = icd.load_counter(&mut h, self.c.epoch, &mut buf) {
                return inconclusive(format!("Icd::load_counter failed: {e:?}"));
            }
            self.pending = Some(0);
            self.node = CiNode::Icd(icd);
        } else {
            let start = stored.map(|b| b as u32).unwrap_or(fresh);
            let ctr = CheckInCounter::new(start, self.c.epoch);
            // "the caller MUST immediately persist the returned boundary (persist_value)"
            self.pending = Some(ctr.persist_value());
            self.node = CiNode::Raw(ctr);
        }
        self.w.on_boot();
        Ok(())
    }

    fn reboot(&mut self) -> Res<()> {
        self.w.restarts += 1;
        self.boot_node()
    }

    /// Issue the store operation the interface asked for, subject to `fault`.
    fn store_pending(&mut self, fault: Fault, what: &str) -> Res<StoreOutcome> {
        let Some(b) = self.pending else {
            return Ok(StoreOutcome::Stored);
        };
        if fault == Fault::CrashBeforeStore {
            self.w.fault_hit(fault, format!("the {what}"));
            self.reboot()?;
            return Ok(StoreOutcome::Crashed);
        }
        let mut h = self.w.kv.clone();
        let mut buf = [0u8; 16];
        if fault == Fault::StoreFails {
            self.w.kv.set_fail_all(true);
        }
        let r = match &self.node {
            CiNode::Raw(_) => h.store(self.w.key, &b.to_le_bytes(), &mut buf),
            CiNode::Icd(icd) => icd.persist_counter(&mut h, &mut buf),
        };
        self.w.kv.set_fail_all(false);
        match r {
            Ok(()) => {
                if fault == Fault::StoreFails {
                    return inconclusive("the injected store failure did not surface".into());
                }
                self.pending = None;
            }
            Err(e) => {
                if fault != Fault::StoreFails {
                    return inconclusive(format!("store failed without an injected fault: {e:?}"));
                }
                self.w.fault_hit(fault, format!("the {what} (to be retried before sending more)"));
                return Ok(StoreOutcome::Failed);
            }
        }
        if fault == Fault::CrashAfterStore {
            self.w.fault_hit(fault, format!("the {what}"));
            self.reboot()?;
            return Ok(StoreOutcome::Crashed);
        }
        Ok(StoreOutcome::Stored)
    }

    /// One Check-In batch: (finish the outstanding store), peek, send, advance, store.
    fn one(&mut self, fault: Fault) -> Res<()> {
        if self.pending.is_some() {
            match self.store_pending(fault, "store that was outstanding")? {
                StoreOutcome::Stored if fault == Fault::None => {}
                // the fault of this step has been spent on the outstanding store
                _ => return Ok(()),
            }
        }

        let v = match &self.node {
            CiNode::Raw(c) => c.next(),
            CiNode::Icd(icd) => icd.next_counter(),
        };
        let ctx = move || "value peeked with next()".to_string();
        self.w.use_value(v as u64, &ctx)?;

        match &mut self.node {
            CiNode::Raw(c) => {
                if let Some(b) = c.advance() {
                    self.w.on_store_demand();
                    self.pending = Some(b);
                    self.store_pending(fault, "store demanded by advance()")?;
                    return Ok(());
                }
            }
            CiNode::Icd(icd) => {
                // `advance_counter` stores by itself when `advance` asks for it
                let before = self.w.kv.log_len();
                let mut h = self.w.kv.clone();
                let mut buf = [0u8; 16];
                if fault == Fault::StoreFails {
                    self.w.kv.set_fail_all(true);
                }
                let r = icd.advance_counter(&mut h, &mut buf);
                self.w.kv.set_fail_all(false);
                let stored = store_since(&self.w.kv, before, fault == Fault::StoreFails);
                if stored.is_some() {
                    self.w.on_store_demand();
                }
                match (stored, &r) {
                    (Some(false), Err(_)) => {
                        // the application must get the boundary stored before sending more
                        self.w.fault_hit(fault, "the store inside advance_counter, which reported it".into());
                        self.pending = Some(0);
                        return Ok(());
                    }
                    (Some(false), Ok(())) => {
                        // the interface hid the failure from the application: it cannot react
                        self.w.fault_hit(fault, "the store inside advance_counter, which returned Ok nevertheless".into());
                    }
                    (_, Err(e)) => return inconclusive(format!("advance_counter failed without an injected fault: {e:?}")),
                    (_, Ok(())) => {}
                }
                if stored == Some(true) {
                    match fault {
                        Fault::CrashBeforeStore => {
                            let rolled_back = self.w.kv.materialize(before);
                            self.w.replace_kv(rolled_back);
                            self.w.fault_hit(fault, "the store inside advance_counter (rolled back)".into());
                            return self.reboot();
                        }
                        Fault::CrashAfterStore => {
                            self.w.fault_hit(fault, "the store inside advance_counter".into());
                            return self.reboot();
                        }
                        _ => return Ok(()),
                    }
                }
            }
        }
        // no store was demanded: a crash fault hits between the use and the next reservation
        if matches!(fault, Fault::CrashBeforeStore | Fault::CrashAfterStore) {
            self.reboot()?;
        }
        Ok(())
    }

    fn many(&mut self, n: u64) -> Res<()> {
        for _ in 0..n {
            if self.w.exhausted() {
                break;
            }
            self.one(Fault::None)?;
        }
        Ok(())
    }

    fn step(&mut self, s: &Step) -> Res<()> {
        match s {
            Step::Reserve(n) => self.many(*n as u64),
            Step::ToEdge(off) => {
                let n = self.c.epoch as i64 - self.w.since_demand as i64 - 1 + *off as i64;
                self.many(n.clamp(0, 1100) as u64)
            }
            Step::ToWrap(off) => {
                if self.w.last_used.is_none() {
                    self.many(1)?;
                }
                let last = self.w.last_used.unwrap_or(0);
                if let Some(d) = self.w.space.top().checked_sub(last) {
                    let n = d.min(1 << 40) as i64 + *off as i64;
                    if (1..=3000).contains(&n) {
                        self.many(n as u64)?;
                    }
                }
                Ok(())
            }
            Step::One(f) => self.one(*f),
            Step::Restart => self.reboot(),
            Step::Jump(delta) => {
                self.w.extra.push("jump");
                match &mut self.node {
                    CiNode::Raw(c) => {
                        if let Some(b) = c.advance_by(*delta) {
                            self.pending = Some(b);
                        }
                    }
                    CiNode::Icd(icd) => {
                        if icd.invalidate_counter(*delta) {
                            self.pending = Some(0);
                        }
                    }
                }
                Ok(())
            }
            Step::Peek | Step::SoftReset | Step::PushFails => Ok(()),
        }
    }
}

fn check_checkin(c: &CheckInCase) -> Case {
    if c.epoch == 0 {
        return Case::inconclusive("epoch 0 is outside the documented domain");
    }
    let kv = match c.start {
        Some(b) => {
            let mut m = BTreeMap::new();
            m.insert(ICD_CHECK_IN_COUNTER_KEY, b.to_le_bytes().to_vec());
            MemKv::from_map(m)
        }
        None => MemKv::new(),
    };
    let w = World::new(CHECKIN_SPACE, ICD_CHECK_IN_COUNTER_KEY, kv, decode_le32, 5000);
    let mut sim = CheckInSim {
        w,
        c,
        node: CiNode::Raw(CheckInCounter::new(0, 1)),
        fresh_idx: 0,
        pending: None,
    };
    if let Err(c) = sim.boot_node() {
        return *c;
    }
    for (i, s) in c.steps.iter().enumerate() {
        sim.w.step = i;
        if let Err(c) = sim.step(s) {
            return *c;
        }
    }
    if c.via_icd {
        sim.w.extra.push("via-icd");
    } else {
        sim.w.extra.push("raw-counter");
    }
    sim.w.finish()
}

// ---------------------------------------------------------------------------------------------
// Generators
// ---------------------------------------------------------------------------------------------

const GROUP_TOP: u32 = 0x0fff_ffff;

fn crash_fault() -> impl Strategy<Value = Fault> {
    prop::sample::select(vec![Fault::CrashBeforeStore, Fault::CrashAfterStore])
}

fn any_fault() -> impl Strategy<Value = Fault> {
    prop::sample::select(vec![
        Fault::StoreFails,
        Fault::StoreFails,
        Fault::CrashBeforeStore,
        Fault::CrashAfterStore,
    ])
}

/// One generated element of a history: a single step, or an approach immediately followed by a
/// faulty reservation (so that faults land exactly on epoch edges and on the range wrap).
type Chunk = Vec<Step>;

fn single(s: impl Strategy<Value = Step>) -> impl Strategy<Value = Chunk> {
    s.prop_map(|x| vec![x])
}

fn fault_at_edge(fault: impl Strategy<Value = Fault>) -> impl Strategy<Value = Chunk> {
    (-3i8..=3, fault).prop_map(|(off, f)| vec![Step::ToEdge(off), Step::One(f)])
}

fn fault_at_wrap(fault: impl Strategy<Value = Fault>) -> impl Strategy<Value = Chunk> {
    (-3i8..=3, fault).prop_map(|(off, f)| vec![Step::ToWrap(off), Step::One(f)])
}

fn flatten(chunks: Vec<Chunk>) -> Vec<Step> {
    chunks.into_iter().flatten().collect()
}

fn group_chunk(with_store_failures: bool) -> BoxedStrategy<Chunk> {
    let fault = move || {
        if with_store_failures {
            any_fault().boxed()
        } else {
            crash_fault().boxed()
        }
    };
    prop_oneof![
        5 => single((1u16..=4).prop_map(Step::Reserve)),
        1 => single((990u16..=1010).prop_map(Step::Reserve)),
        1 => single((1u16..=1100).prop_map(Step::Reserve)),
        2 => single((-3i8..=3).prop_map(Step::ToEdge)),
        1 => single((-3i8..=3).prop_map(Step::ToWrap)),
        6 => single(fault().prop_map(Step::One)),
        3 => single(Just(Step::Restart)),
        1 => single(prop::sample::select(vec![Step::Peek, Step::Peek, Step::SoftReset])),
        2 => fault_at_edge(fault()),
        2 => fault_at_wrap(fault()),
    ]
    .boxed()
}

fn group_start() -> impl Strategy<Value = Option<u32>> {
    prop_oneof![
        3 => Just(None),
        2 => (1u32..=2100).prop_map(Some),
        4 => ((GROUP_TOP - 2100)..=GROUP_TOP).prop_map(Some),
        2 => (1u32..=GROUP_TOP).prop_map(Some),
    ]
}

fn group_seed() -> impl Strategy<Value = u32> {
    prop_oneof![
        3 => any::<u32>(),
        1 => prop::sample::select(vec![0u32, 1, 0xf000_0000, 0x1000_0000, GROUP_TOP, 0xffff_ffff]),
        3 => (0u32..=2100).prop_map(|k| GROUP_TOP - k),
        1 => (0u32..=2100, 0u32..16).prop_map(|(k, hi)| (hi << 28) | (GROUP_TOP - k)),
        1 => 0u32..=1100,
    ]
}

fn group_case(with_store_failures: bool) -> impl Strategy<Value = GroupCase> {
    (
        group_start(),
        prop::collection::vec(group_seed(), 1..4),
        prop::collection::vec(group_chunk(with_store_failures), 1..24),
    )
        .prop_map(|(start, seeds, chunks)| GroupCase {
            start,
            seeds,
            steps: flatten(chunks),
        })
}

/// The largest multiple of the event epoch that fits the range: the highest "next-epoch start"
/// the code itself can have stored before the event number wraps.
const EVENT_TOP_EPOCH: u64 = u64::MAX / EVENT_EPOCH * EVENT_EPOCH;

fn event_chunk() -> impl Strategy<Value = Chunk> {
    prop_oneof![
        12 => single((1u16..=6).prop_map(Step::Reserve)),
        12 => single(any_fault().prop_map(Step::One)),
        4 => single(Just(Step::Restart)),
        2 => single(Just(Step::PushFails)),
        // ~10 000 pushes each: kept rare, the exact placements are enumerated in `edge-table`
        1 => fault_at_edge(any_fault()),
    ]
}

fn event_start() -> impl Strategy<Value = Option<u64>> {
    prop_oneof![
        3 => Just(None),
        3 => (1u64..=5).prop_map(|k| Some(k * EVENT_EPOCH)),
        2 => (1u64..=(u32::MAX as u64)).prop_map(|k| Some(k * EVENT_EPOCH)),
        2 => (3u64..=(u64::MAX / EVENT_EPOCH - 1000)).prop_map(|k| Some(k * EVENT_EPOCH)),
    ]
}

fn event_case() -> impl Strategy<Value = EventCase> {
    (event_start(), prop::collection::vec(event_chunk(), 1..20)).prop_map(|(start, chunks)| EventCase {
        start,
        steps: flatten(chunks),
    })
}

fn event_top_chunk() -> impl Strategy<Value = Chunk> {
    prop_oneof![
        6 => single((1u16..=6).prop_map(Step::Reserve)),
        2 => single((-3i8..=3).prop_map(Step::ToWrap)),
        6 => single(any_fault().prop_map(Step::One)),
        3 => single(Just(Step::Restart)),
        2 => fault_at_wrap(any_fault()),
        1 => fault_at_edge(any_fault()),
    ]
}

/// Event-number histories that start from the last epochs below 2^64.
fn event_top_case() -> impl Strategy<Value = EventCase> {
    (0u64..=2, prop::collection::vec(event_top_chunk(), 1..14)).prop_map(|(j, chunks)| EventCase {
        start: Some(EVENT_TOP_EPOCH - j * EVENT_EPOCH),
        steps: flatten(chunks),
    })
}

fn checkin_epoch() -> impl Strategy<Value = u32> {
    prop_oneof![
        6 => prop::sample::select(vec![1u32, 2, 3, 4, 5, 8, 10, 16, 100, 1000]),
        1 => 1u32..=1100,
    ]
}

fn checkin_value() -> impl Strategy<Value = u32> {
    prop_oneof![
        3 => any::<u32>(),
        4 => (0u32..=2100).prop_map(|k| u32::MAX - k),
        2 => 0u32..=1100,
    ]
}

fn checkin_case() -> impl Strategy<Value = CheckInCase> {
    (
        any::<bool>(),
        checkin_epoch(),
        prop_oneof![1 => Just(None), 3 => checkin_value().prop_map(Some)],
        prop::collection::vec(checkin_value(), 1..4),
    )
        .prop_flat_map(|(via_icd, epoch, start, fresh)| {
            let e = epoch;
            let jump = prop_oneof![
                3 => 0u32..=3,
                3 => (0u32..=4).prop_map(move |k| (e + 2).saturating_sub(k)),
                2 => 1u32..=2200,
                1 => 1u32..=(1 << 24),
            ];
            let chunk = prop_oneof![
                5 => single((1u16..=4).prop_map(Step::Reserve)),
                1 => single((1u16..=1100).prop_map(Step::Reserve)),
                2 => single((-3i8..=3).prop_map(Step::ToEdge)),
                1 => single((-3i8..=3).prop_map(Step::ToWrap)),
                6 => single(any_fault().prop_map(Step::One)),
                3 => single(Just(Step::Restart)),
                2 => single(jump.clone().prop_map(Step::Jump)),
                2 => fault_at_edge(any_fault()),
                2 => fault_at_wrap(any_fault()),
                1 => (jump, any_fault()).prop_map(|(d, f)| vec![Step::Jump(d), Step::One(f)]),
            ];
            prop::collection::vec(chunk, 1..24).prop_map(move |chunks| CheckInCase {
                via_icd,
                epoch,
                start,
                fresh: fresh.clone(),
                steps: flatten(chunks),
            })
        })
}

// ---------------------------------------------------------------------------------------------
// Exhaustive table: epoch-edge / range-wrap offsets -3..=+3  x  what happens there
// ---------------------------------------------------------------------------------------------

#[derive(Debug, Clone, Serialize, Deserialize)]
enum TableCase {
    Group { via_matter: bool, case: GroupCase },
    Event(EventCase),
    CheckIn(CheckInCase),
}

fn check_table(t: &TableCase) -> Case {
    match t {
        TableCase::Group { via_matter, case } => check_group(case, *via_matter),
        TableCase::Event(c) => check_event(c),
        TableCase::CheckIn(c) => check_checkin(c),
    }
}

/// `[first reservation, approach, X, tail reservations, restart, 2 reservations]`
fn table_steps(approach: Step, x: &Step, tail: u16) -> Vec<Step> {
    vec![
        Step::Reserve(1),
        approach,
        x.clone(),
        Step::Reserve(tail),
        Step::Restart,
        Step::Reserve(2),
    ]
}

fn table_items() -> Vec<TableCase> {
    let crash_or_restart = vec![
        Step::Restart,
        Step::One(Fault::CrashBeforeStore),
        Step::One(Fault::CrashAfterStore),
    ];
    let mut with_failure = crash_or_restart.clone();
    with_failure.push(Step::One(Fault::StoreFails));

    let mut items = Vec::new();
    for off in -3i8..=3 {
        for tail in [1u16, 3] {
            // group counter: epoch edge and range wrap, two load paths
            for x in &with_failure {
                for via_matter in [false, true] {
                    for start in [None, Some(1u32), Some(4242), Some(GROUP_TOP - 1500), Some(GROUP_TOP)] {
                        items.push(TableCase::Group {
                            via_matter,
                            case: GroupCase {
                                start,
                                seeds: vec![0x1234_5678, GROUP_TOP - 700],
                                steps: table_steps(Step::ToEdge(off), x, tail),
                            },
                        });
                    }
                    for start in [Some(GROUP_TOP - 400), Some(GROUP_TOP - 1001), Some(GROUP_TOP - 999)] {
                        items.push(TableCase::Group {
                            via_matter,
                            case: GroupCase {
                                start,
                                seeds: vec![GROUP_TOP - 300],
                                steps: table_steps(Step::ToWrap(off), x, tail),
                            },
                        });
                    }
                }
            }
            for x in &with_failure {
                // event number: epoch edge (the top of the range is left to `event-range-top`)
                if tail == 1 {
                    for start in [None, Some(EVENT_EPOCH), Some(7 * EVENT_EPOCH), Some((1u64 << 40) / EVENT_EPOCH * EVENT_EPOCH)] {
                        items.push(TableCase::Event(EventCase {
                            start,
                            steps: table_steps(Step::ToEdge(off), x, 2),
                        }));
                    }
                }
                // check-in counter: epoch edge and range wrap, raw and through `Icd`
                for via_icd in [false, true] {
                    for epoch in [1u32, 2, 3, 10, 100] {
                        for start in [None, Some(0u32), Some(99), Some(u32::MAX - 50), Some(u32::MAX)] {
                            items.push(TableCase::CheckIn(CheckInCase {
                                via_icd,
                                epoch,
                                start,
                                fresh: vec![u32::MAX - 5, 17],
                                steps: table_steps(Step::ToEdge(off), x, tail),
                            }));
                        }
                        for start in [Some(u32::MAX - 150), Some(u32::MAX - 7)] {
                            items.push(TableCase::CheckIn(CheckInCase {
                                via_icd,
                                epoch,
                                start,
                                fresh: vec![u32::MAX - 5],
                                steps: table_steps(Step::ToWrap(off), x, tail),
                            }));
                        }
                    }
                }
            }
        }
    }
    items
}

// ------------------------------------------------------------------------------------------
// group-tx-node: the group data counter through the REAL `Exchange::initiate_group` on a running
// node (the component sub-checks above play that caller themselves): every group message that
// reaches the wire carries a counter below the boundary the store held when it was sent, and no
// counter value is ever used twice - across refused sends (no free exchange slot, failing
// store) and restarts.

mod txnode {
    use super::*;
    use rs_matter::crypto::CanonAeadKey;
    use rs_matter::fabric::GroupKeyMapping;
    use rs_matter::group_keys::{GroupEpochKeyEntry, GroupKeySet};
    use rs_matter::transport::exchange::{Exchange, MessageMeta};
    use rs_matter::transport::network::NoNetwork;
    use std::rc::Rc;
    use vh::sim::fabric::{install, new_member, Ca, Member};
    use vh::sim::net::Net;
    use vh::sim::node::{mk_crypto, new_matter};
    use vh::sim::{Exec, Sched, Stop, MS};

    #[derive(Debug, Clone, Serialize, Deserialize)]
    pub enum Op {
        /// send that many group messages
        Send(u16),
        /// send until that many reservations are left before the in-memory boundary
        Approach(u8),
        /// open that many group exchanges and keep them (they occupy exchange slots)
        Hold(u8),
        Release,
        /// the next store operation fails
        FailNextStore,
        Restart,
    }

    #[derive(Debug, Clone, Serialize, Deserialize)]
    pub struct TxCase {
        /// boundary found in the store at the first boot (None = virgin store)
        pub stored: Option<u32>,
        pub ops: Vec<Op>,
    }

    pub fn tx_case() -> impl Strategy<Value = TxCase> {
        let op = prop_oneof![
            3 => (1u16..40).prop_map(Op::Send),
            4 => (0u8..4).prop_map(Op::Approach),
            3 => (1u8..7).prop_map(Op::Hold),
            2 => Just(Op::Release),
            2 => Just(Op::FailNextStore),
            2 => Just(Op::Restart),
        ];
        (
            prop_oneof![1 => Just(None), 3 => (0u32..100_000).prop_map(Some), 1 => ((1u32 << 28) - 3000..(1u32 << 28)).prop_map(Some)],
            prop::collection::vec(op, 2..14),
        )
            .prop_map(|(stored, ops)| TxCase { stored, ops })
    }

    thread_local! {
        static FAB: RefCell<Option<Rc<(Ca, Member)>>> = const { RefCell::new(None) };
    }

    fn fab() -> Result<Rc<(Ca, Member)>, String> {
        FAB.with(|f| {
            if let Some(x) = f.borrow().as_ref() {
                return Ok(x.clone());
            }
            let crypto = mk_crypto(0x7478_0001);
            let ca = Ca::new(&crypto, 0xFAB0_0012, false, 9).map_err(|e| format!("ca: {e:?}"))?;
            let m = new_member(&crypto, &ca, 0xD012, &[]).map_err(|e| format!("member: {e:?}"))?;
            let x = Rc::new((ca, m));
            *f.borrow_mut() = Some(x.clone());
            Ok(x)
        })
    }

    const GROUP: u16 = 0x0101;

    struct Wire {
        ctr: u32,
        durable: Option<u32>,
        boot: usize,
    }

    fn stored_boundary(kv: &MemKv) -> Option<u32> {
        kv.get(GROUP_DATA_COUNTER_KEY).and_then(|b| (b.len() == 4).then(|| u32::from_le_bytes([b[0], b[1], b[2], b[3]])))
    }

    type Ctrs = (std::cell::Cell<usize>, std::cell::Cell<usize>, std::cell::Cell<usize>);

    /// One group message through `Exchange::initiate_group`; records what reached the wire
    /// together with the boundary the store held when it was sent.
    #[allow(clippy::too_many_arguments)]
    async fn send_one<'m, C: Crypto, A>(
        node: &'m rs_matter::Matter<'m>,
        crypto: &C,
        access: &A,
        kv: &MemKv,
        net: &Net,
        seen: &std::cell::Cell<usize>,
        wire: &RefCell<Vec<Wire>>,
        ctrs: &Ctrs,
        fab_idx: core::num::NonZeroU8,
    ) -> Result<(), String>
    where
        for<'x> &'x A: KvBlobStoreAccess,
    {
        let durable_before = stored_boundary(kv);
        match Exchange::initiate_group(node, crypto, access, fab_idx, GROUP) {
            Ok(mut e) => {
                let durable = stored_boundary(kv);
                let r = e.send(MessageMeta::new(0x00F7, 1, false), &[1, 2, 3]).await;
                drop(e);
                embassy_time::Timer::after(embassy_time::Duration::from_millis(1)).await;
                let new: Vec<u32> = net.with_tap(|t| {
                    let v = t.sent.iter().skip(seen.get()).filter_map(|s| vh::sim::node::decode_plain(&s.bytes).map(|p| p.1)).collect();
                    seen.set(t.sent.len());
                    v
                });
                for ctr in new {
                    wire.borrow_mut().push(Wire { ctr, durable, boot: 0 });
                }
                if durable != durable_before {
                    ctrs.2.set(ctrs.2.get() + 1);
                }
                r.map_err(|e| format!("send: {:?}", e.code()))
            }
            Err(e) => {
                match e.code() {
                    ErrorCode::NoSpaceExchanges => ctrs.0.set(ctrs.0.get() + 1),
                    _ => ctrs.1.set(ctrs.1.get() + 1),
                }
                Ok(())
            }
        }
    }

    pub fn check(case: &TxCase) -> Case {
        vh::sim::reset_universe();
        let kv = MemKv::new();
        if let Some(b) = case.stored {
            kv.put_raw(GROUP_DATA_COUNTER_KEY, b.to_le_bytes().to_vec());
        }
        let world = match fab() {
            Ok(x) => x,
            Err(e) => return Case::inconclusive(e),
        };
        let (ca, member) = (&world.0, &world.1);
        let mut wire: Vec<Wire> = Vec::new();
        let mut labels: Vec<String> = Vec::new();
        let mut ops = case.ops.iter().peekable();
        let mut boot = 0usize;
        let mut refused_nospace = 0;
        let mut refused_store = 0;
        let mut crossed = 0;
        while ops.peek().is_some() {
            boot += 1;
            let crypto = mk_crypto(boot as u32 + 77);
            let node = Box::new(new_matter(5540));
            let access = node.kv(kv.clone());
            if let Err(e) = node.startup(&access) {
                return Case::fail("tx-node:start-up-failed", format!("boot #{boot}: {:?}", e.code()));
            }
            let fab_idx = match install(&node, &crypto, ca, member, 0x1000) {
                Ok(i) => i,
                Err(e) => return Case::inconclusive(format!("install: {e:?}")),
            };
            let keyed: Result<(), String> = node.with_state(|st| {
                let f = st.fabrics.fabric_mut(fab_idx).map_err(|e| format!("{e:?}"))?;
                let mut epoch_keys = rs_matter::utils::storage::Vec::new();
                let mut epoch_key = CanonAeadKey::new();
                epoch_key.load_from_array(&[0x42; 16]);
                epoch_keys.push(GroupEpochKeyEntry { epoch_key, epoch_start_time: 0 }).map_err(|_| "epoch keys".to_string())?;
                f.groups_mut()
                    .key_set_add(GroupKeySet { group_key_set_id: 1, group_key_security_policy: 0, epoch_keys })
                    .map_err(|e| format!("key_set_add: {e:?}"))?;
                f.groups_mut().key_map_add(GroupKeyMapping { group_id: GROUP, group_key_set_id: 1 }).map_err(|e| format!("key_map_add: {e:?}"))?;
                Ok(())
            });
            if let Err(e) = keyed {
                return Case::inconclusive(e);
            }
            let net = Net::new(1);
            let seen = std::cell::Cell::new(0usize);
            let restart = std::cell::Cell::new(false);
            let trouble: RefCell<Option<String>> = RefCell::new(None);
            let counters: Ctrs = (std::cell::Cell::new(0usize), std::cell::Cell::new(0usize), std::cell::Cell::new(0usize));
            let wire_cell: RefCell<Vec<Wire>> = RefCell::new(Vec::new());
            let done = std::cell::Cell::new(false);
            {
                let mut ex = Exec::new(Sched::Fifo);
                ex.add_time_source(&net);
                ex.spawn("dev.run", async {
                    let _ = node.run(&crypto, net.end(0), net.end(0), NoNetwork).await;
                });
                let (node_r, crypto_r, kv_r, net_r) = (&*node, &crypto, &kv, &net);
                let (ops_r, seen_r, restart_r, trouble_r, ctrs_r, wire_r) = (&mut ops, &seen, &restart, &trouble, &counters, &wire_cell);
                let done_r = &done;
                ex.spawn("app", async move {
                    let access = node_r.kv(kv_r.clone());
                    let mut held: Vec<Exchange<'_>> = Vec::new();
                    while let Some(op) = ops_r.next() {
                        match op {
                            Op::Send(n) => {
                                for _ in 0..*n {
                                    if let Err(e) = send_one(node_r, crypto_r, &access, kv_r, net_r, seen_r, wire_r, ctrs_r, fab_idx).await {
                                        *trouble_r.borrow_mut() = Some(e);
                                    }
                                }
                            }
                            Op::Approach(left) => {
                                let mut guard = 0;
                                loop {
                                    let (ctr, boundary) = node_r.with_state(|s| s.verif_sessions().verif_global_group_data_ctr_state());
                                    let remaining = boundary.wrapping_sub(ctr);
                                    guard += 1;
                                    if remaining <= *left as u32 || remaining > GROUP_DATA_CTR_EPOCH * 2 || guard > 1200 {
                                        break;
                                    }
                                    if let Err(e) = send_one(node_r, crypto_r, &access, kv_r, net_r, seen_r, wire_r, ctrs_r, fab_idx).await {
                                        *trouble_r.borrow_mut() = Some(e);
                                        break;
                                    }
                                }
                            }
                            Op::Hold(k) => {
                                for _ in 0..*k {
                                    match Exchange::initiate_group(node_r, crypto_r, &access, fab_idx, GROUP) {
                                        Ok(e) => held.push(e),
                                        Err(e) => match e.code() {
                                            ErrorCode::NoSpaceExchanges => ctrs_r.0.set(ctrs_r.0.get() + 1),
                                            _ => ctrs_r.1.set(ctrs_r.1.get() + 1),
                                        },
                                    }
                                }
                            }
                            Op::Release => held.clear(),
                            Op::FailNextStore => kv_r.fail_write_at(kv_r.write_count() + 1),
                            Op::Restart => {
                                restart_r.set(true);
                                break;
                            }
                        }
                    }
                    drop(held);
                    done_r.set(true);
                });
                let st = ex.run_until(vh::sim::clock::now() + 600_000 * MS, || done.get());
                if st == Stop::PollLimit {
                    return Case::inconclusive("poll watchdog");
                }
            }
            if let Some(t) = trouble.borrow().clone() {
                return Case::inconclusive(t);
            }
            refused_nospace += counters.0.get();
            refused_store += counters.1.get();
            crossed += counters.2.get();
            for mut w in wire_cell.into_inner() {
                w.boot = boot;
                wire.push(w);
            }
            let _ = restart.get();
        }
        // oracle
        let mut seen: BTreeMap<u32, usize> = BTreeMap::new();
        for w in &wire {
            let covered = w.durable.map(|b| GROUP_SPACE.covers(b as u64, w.ctr as u64)).unwrap_or(false);
            if !covered {
                return Case::fail(
                    "tx-node:counter-on-the-wire-not-covered-by-the-stored-boundary",
                    format!("boot #{}: a group message with counter {} went out while the store held boundary {:?} (a restart resumes at the stored boundary and would hand the value out again)", w.boot, w.ctr, w.durable),
                );
            }
            if let Some(prev) = seen.insert(w.ctr, w.boot) {
                return Case::fail(
                    "tx-node:counter-used-twice",
                    format!("group data counter {} was on the wire in boot #{prev} and again in boot #{}", w.ctr, w.boot),
                );
            }
        }
        if refused_nospace > 0 {
            labels.push("refused:no-exchange-slot".into());
        }
        if refused_store > 0 {
            labels.push("refused:other(store)".into());
        }
        if crossed > 0 {
            labels.push("boundary-moved".into());
        }
        labels.push(format!("boots={}", boot.min(4)));
        labels.push(match wire.len() {
            0 => "on-the-wire=0",
            1..=99 => "on-the-wire<100",
            100..=999 => "on-the-wire<1000",
            _ => "on-the-wire>=1000",
        }
        .to_string());
        Case::pass(crossed > 0 && (refused_nospace + refused_store > 0 || boot > 1)).labels(labels)
    }
}

fn main() {
    let mut run = Run::new(
        "C12",
        "exploration",
        "histories of 1..24 chunks (a chunk = one step, or an approach immediately followed by a faulty reservation) over {n complete reservations, approach the documented epoch edge or the range wrap to within -3..+3 reservations, one reservation whose store operation fails / is preceded by a crash / is followed by a crash, clean restart, peek / transport reset (group), jump (check-in), failing payload (event)}, starting from stored boundaries {absent, small, random, within 2100 of the top of the counter range (2^28 group, 2^32 check-in), multiples of the event epoch up to the last one below 2^64}; plus an exhaustive table of edge/wrap offset -3..+3 x {restart, crash before store, crash after store, store fails} x start x load path. Non-trivial: at least one crash placed between a reservation and the store it demanded (before or after the store operation), or a reservation that crosses an epoch boundary (a store demanded after at least one use in the same boot), or a used value that wrapped around the counter range; distinct = distinct serialized history",
    );
    run.assume("restart = a fresh Sessions/Matter/Events/CheckInCounter/Icd object initialised from the KV contents only; a crash before a store operation = KV contents without that store and the value of the interrupted reservation not used");
    run.assume("group counter: the harness plays Exchange::initiate_group (reserve; store the handed-back boundary under GROUP_DATA_COUNTER_KEY as 4 bytes LE; on a store error call Sessions::uncover_global_group_data_ctr and give up without using the value - exactly the error path of initiate_group after fixes/01-group-ctr-store-failure.patch, which the component harness cannot execute itself); the end-to-end path through initiate_group itself needs the simulator");
    run.assume("hooks verif_{reserve,get_or_init,resume,uncover}_global_group_data_ctr and Events::verif_load_persist are thin wrappers of the crate-private functions; InteractionModel::startup reaches Events::load_persist through InteractionModelState::load_persist only");
    run.assume("check-in: the application follows the documented protocol: persist persist_value() right after new()/load_counter(), persist what advance()/advance_by() hand back (retrying after a failed store) before sending any further Check-In; jumps stay below 2^24 so that no history comes near the counter period");
    run.assume("covering is decided by the documented resume rule: group counter and event number resume AT the stored boundary, the check-in counter resumes right AFTER it; half-range modular comparison");

    let n = run.cases(200_000, 4_000_000);
    run.prop("group-crash", n, || group_case(false), |c| check_group(c, false));
    let n = run.cases(60_000, 1_000_000);
    run.prop("group-storefail", n, || group_case(true), |c| check_group(c, false));
    let n = run.cases(6_000, 100_000);
    run.prop("group-matter-startup", n, || group_case(false), |c| check_group(c, true));
    let n = run.cases(24_000, 600_000);
    run.prop("event", n, event_case, check_event);
    let n = run.cases(8_000, 200_000);
    run.prop("event-range-top", n, event_top_case, check_event);
    let n = run.cases(200_000, 4_000_000);
    run.prop("checkin", n, checkin_case, check_checkin);
    let n2 = run.cases(1_500, 60_000);
    run.prop("group-tx-node", n2, txnode::tx_case, txnode::check);

    run.exhaustive("edge-table", table_items(), check_table);

    run.finish();
}
