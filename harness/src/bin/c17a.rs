//! C17 (first half) — headers, status reports, BDX, Check-In, MCSP messages and the
//! `ParseBuf`/`WriteBuf` primitives decode what was encoded.
//!
//! Oracles (all written from the property statement, never from a wire-layout transcription):
//! * round trip: `decode(encode(x)) == x` field by field for generated legal field values,
//!   plus the encoded length implied by the field widths of the Matter message format;
//! * hostile input: every decoder, fed arbitrary / truncated / mutated bytes, returns `Ok` or
//!   `Err` (a panic inside rs-matter is reported by the driver); whatever it accepts must
//!   re-encode to the bytes it was decoded from (modulo reserved bits) and decode again to the
//!   same fields;
//! * authenticated formats (encrypted protocol header, Check-In): wrong key, wrong nonce
//!   source (node id / counter), any flipped bit, truncation or extension => `Err`;
//! * `WriteBuf` / `ReadBuf`: reference model = byte image + cursors, compared after every step.

use std::fmt::Write as _;

use proptest::prelude::*;
use serde::{Deserialize, Serialize};

use rs_matter::bdx::{
    BdxStatus, Block, BlockQuery, BlockQueryWithSkip, RangeControl, TransferAccept,
    TransferControl, TransferInit, PROTO_ID_BDX,
};
use rs_matter::crypto::{
    test_only_crypto, Aead, CanonAeadKeyRef, Crypto, CryptoSensitiveRef, AEAD_NONCE_LEN,
    AEAD_TAG_LEN,
};
use rs_matter::sc::checkin::CheckIn;
use rs_matter::sc::mcsp::{MsgCounterSyncReq, MsgCounterSyncRsp};
use rs_matter::sc::{sc_write, GeneralCode, SCStatusCodes, StatusReport};
use rs_matter::transport::packet::PacketHdr;
use rs_matter::transport::plain_hdr::PlainHdr;
use rs_matter::utils::storage::{ParseBuf, ReadBuf, WriteBuf};

use vh::util::{hex, pick};
use vh::{Case, Run};

// ---------------------------------------------------------------------------------------------
// Shared generators
// ---------------------------------------------------------------------------------------------

fn ext_u8() -> impl Strategy<Value = u8> {
    prop_oneof![
        2 => Just(0u8), 2 => Just(u8::MAX), 1 => Just(1u8), 1 => Just(0x7fu8), 1 => Just(0x80u8),
        5 => any::<u8>(),
    ]
}

fn ext_u16() -> impl Strategy<Value = u16> {
    prop_oneof![
        2 => Just(0u16), 2 => Just(u16::MAX), 1 => Just(1u16), 1 => Just(0x00ffu16),
        1 => Just(0x0100u16), 1 => Just(0x8000u16), 5 => any::<u16>(),
    ]
}

fn ext_u32() -> impl Strategy<Value = u32> {
    prop_oneof![
        2 => Just(0u32), 2 => Just(u32::MAX), 1 => Just(1u32), 1 => Just(0xffffu32),
        1 => Just(0x1_0000u32), 1 => Just(0x8000_0000u32), 5 => any::<u32>(),
    ]
}

fn ext_u64() -> impl Strategy<Value = u64> {
    prop_oneof![
        2 => Just(0u64), 2 => Just(u64::MAX), 1 => Just(1u64), 1 => Just(0xffff_ffffu64),
        1 => Just(0x1_0000_0000u64), 1 => Just(0x8000_0000_0000_0000u64),
        1 => Just(0xffff_ffff_ffff_0001u64), 5 => any::<u64>(),
    ]
}

fn is_ext_u8(v: u8) -> bool {
    v == 0 || v == u8::MAX
}
fn is_ext_u16(v: u16) -> bool {
    v == 0 || v == u16::MAX
}
fn is_ext_u32(v: u32) -> bool {
    v == 0 || v == u32::MAX
}
fn is_ext_u64(v: u64) -> bool {
    v == 0 || v == u64::MAX
}

/// Payload-like blobs: mostly short, sometimes a few hundred bytes, rarely ~MTU sized.
fn blob() -> impl Strategy<Value = Vec<u8>> {
    prop_oneof![
        2 => Just(Vec::new()),
        12 => prop::collection::vec(any::<u8>(), 0..48),
        3 => prop::collection::vec(any::<u8>(), 48..300),
        1 => prop::collection::vec(any::<u8>(), 1100..=1200),
    ]
}

fn short_blob() -> impl Strategy<Value = Vec<u8>> {
    prop_oneof![
        1 => Just(Vec::new()),
        6 => prop::collection::vec(any::<u8>(), 0..40),
        1 => prop::collection::vec(any::<u8>(), 40..200),
    ]
}

fn key16() -> impl Strategy<Value = Vec<u8>> {
    prop_oneof![
        1 => Just(vec![0u8; 16]),
        1 => Just(vec![0xffu8; 16]),
        6 => prop::collection::vec(any::<u8>(), 16),
    ]
}

fn key_arr(k: &[u8]) -> Option<[u8; 16]> {
    <[u8; 16]>::try_from(k).ok()
}

/// One mutation of an encoded message.
#[derive(Debug, Clone, Serialize, Deserialize)]
enum Mut {
    Flip { pos: u16, bit: u8 },
    Set { pos: u16, val: u8 },
    Truncate { keep: u16 },
    Append(Vec<u8>),
    Insert { pos: u16, val: u8 },
    Remove { pos: u16 },
}

fn mutation() -> impl Strategy<Value = Mut> {
    prop_oneof![
        4 => (any::<u16>(), 0u8..8).prop_map(|(pos, bit)| Mut::Flip { pos, bit }),
        2 => (prop_oneof![Just(0u16), Just(1u16 << 11), any::<u16>()], 0u8..8)
            .prop_map(|(pos, bit)| Mut::Flip { pos, bit }),
        2 => (any::<u16>(), ext_u8()).prop_map(|(pos, val)| Mut::Set { pos, val }),
        3 => any::<u16>().prop_map(|keep| Mut::Truncate { keep }),
        1 => prop::collection::vec(any::<u8>(), 1..20).prop_map(Mut::Append),
        1 => (any::<u16>(), any::<u8>()).prop_map(|(pos, val)| Mut::Insert { pos, val }),
        1 => any::<u16>().prop_map(|pos| Mut::Remove { pos }),
    ]
}

fn apply_muts(bytes: &mut Vec<u8>, muts: &[Mut]) {
    for m in muts {
        match m {
            Mut::Flip { pos, bit } => {
                if !bytes.is_empty() {
                    let i = pick(*pos, bytes.len());
                    bytes[i] ^= 1 << (bit & 7);
                }
            }
            Mut::Set { pos, val } => {
                if !bytes.is_empty() {
                    let i = pick(*pos, bytes.len());
                    bytes[i] = *val;
                }
            }
            Mut::Truncate { keep } => {
                let k = pick(*keep, bytes.len() + 1);
                bytes.truncate(k);
            }
            Mut::Append(v) => bytes.extend_from_slice(v),
            Mut::Insert { pos, val } => {
                let i = pick(*pos, bytes.len() + 1);
                bytes.insert(i, *val);
            }
            Mut::Remove { pos } => {
                if !bytes.is_empty() {
                    let i = pick(*pos, bytes.len());
                    bytes.remove(i);
                }
            }
        }
    }
}

/// Input of a decoder fuzz case: raw bytes, or a legal message encoded by the code under test
/// and then mutated (so that the replay file stays self-contained without a wire reference).
#[derive(Debug, Clone, Serialize, Deserialize)]
enum Src<B> {
    Raw(Vec<u8>),
    Mutated { base: B, muts: Vec<Mut> },
}

fn src<B: std::fmt::Debug + Clone + 'static>(
    raw: impl Strategy<Value = Vec<u8>> + 'static,
    base: impl Strategy<Value = B> + 'static,
) -> impl Strategy<Value = Src<B>> {
    prop_oneof![
        1 => raw.prop_map(Src::Raw),
        1 => (base, prop::collection::vec(mutation(), 0..4))
            .prop_map(|(base, muts)| Src::Mutated { base, muts }),
    ]
}

macro_rules! ensure_eq {
    ($sig:expr, $what:expr, $got:expr, $exp:expr) => {
        if $got != $exp {
            return Case::fail(
                $sig,
                format!("{}: got {:?}, expected {:?}", $what, $got, $exp),
            );
        }
    };
}

// ---------------------------------------------------------------------------------------------
// Message + protocol header
// ---------------------------------------------------------------------------------------------

#[derive(Debug, Clone, Copy, PartialEq, Eq, Serialize, Deserialize)]
enum Dst {
    None,
    Unicast(u64),
    Group(u16),
}

#[derive(Debug, Clone, Serialize, Deserialize)]
struct HdrCase {
    sess_id: u16,
    ctr: u32,
    /// values set before the final ones (exercise flag clearing in the setters)
    src_prev: Option<u64>,
    dst_prev: Dst,
    vendor_prev: Option<u16>,
    ack_prev: Option<u32>,
    src: Option<u64>,
    dst: Dst,
    group_session: bool,
    control: bool,
    exch_id: u16,
    proto_id: u16,
    opcode: u8,
    vendor: Option<u16>,
    ack: Option<u32>,
    reliable: bool,
    initiator: bool,
    payload: Vec<u8>,
    /// 16-byte AEAD key; `None` = unencrypted path
    key: Option<Vec<u8>>,
    /// node id that goes into the nonce (sender's local id == receiver's peer id)
    node_id: u64,
    /// 0: PacketHdr::HDR_RESERVE (as the transport does), 1: exactly what is needed, 2: one less
    headroom: u8,
    /// 0: PacketHdr::TAIL_RESERVE, 1: exactly what is needed, 2: one less (only with a key)
    tailroom: u8,
    /// start from `PacketHdr::reset()` (as the transport does) rather than `new()`
    via_reset: bool,
    neg: HdrNeg,
}

/// Negative probe applied to an *encrypted* packet: all of them must be refused.
#[derive(Debug, Clone, Serialize, Deserialize)]
enum HdrNeg {
    None,
    WrongKey { idx: u8, xor: u8 },
    WrongNode { xor: u64 },
    Flip { pos: u16, bit: u8 },
    Truncate { by: u16 },
}

fn dst() -> impl Strategy<Value = Dst> {
    prop_oneof![
        2 => Just(Dst::None),
        3 => ext_u64().prop_map(Dst::Unicast),
        3 => ext_u16().prop_map(Dst::Group),
    ]
}

fn hdr_neg() -> impl Strategy<Value = HdrNeg> {
    prop_oneof![
        3 => Just(HdrNeg::None),
        1 => (0u8..16, 1u8..=255).prop_map(|(idx, xor)| HdrNeg::WrongKey { idx, xor }),
        1 => prop_oneof![Just(1u64), Just(1u64 << 63), 1u64..=u64::MAX]
            .prop_map(|xor| HdrNeg::WrongNode { xor }),
        3 => (any::<u16>(), 0u8..8).prop_map(|(pos, bit)| HdrNeg::Flip { pos, bit }),
        1 => prop_oneof![Just(0u16), any::<u16>()].prop_map(|by| HdrNeg::Truncate { by }),
    ]
}

fn hdr_case(encrypted: bool) -> impl Strategy<Value = HdrCase> {
    let plain = (
        ext_u16(),
        ext_u32(),
        prop::option::of(ext_u64()),
        dst(),
        prop::option::of(ext_u64()),
        dst(),
        any::<bool>(),
        any::<bool>(),
    );
    let proto = (
        ext_u16(),
        ext_u16(),
        ext_u8(),
        prop::option::of(ext_u16()),
        prop::option::of(ext_u32()),
        prop::option::of(ext_u16()),
        prop::option::of(ext_u32()),
        any::<bool>(),
        any::<bool>(),
    );
    let rest = (
        blob(),
        key16(),
        ext_u64(),
        prop_oneof![4 => Just(0u8), 2 => Just(1u8), 1 => Just(2u8)],
        prop_oneof![4 => Just(0u8), 2 => Just(1u8), 1 => Just(2u8)],
        any::<bool>(),
        hdr_neg(),
    );
    (plain, proto, rest).prop_map(move |(p, q, r)| HdrCase {
        sess_id: p.0,
        ctr: p.1,
        src_prev: p.2,
        dst_prev: p.3,
        src: p.4,
        dst: p.5,
        group_session: p.6,
        control: p.7,
        exch_id: q.0,
        proto_id: q.1,
        opcode: q.2,
        vendor_prev: q.3,
        ack_prev: q.4,
        vendor: q.5,
        ack: q.6,
        reliable: q.7,
        initiator: q.8,
        payload: r.0,
        key: if encrypted { Some(r.1) } else { None },
        node_id: r.2,
        headroom: r.3,
        tailroom: if encrypted { r.4 } else { r.4.min(1) },
        via_reset: r.5,
        neg: if encrypted { r.6 } else { HdrNeg::None },
    })
}

/// Everything observable about a packet header through the public API.
#[derive(Debug, Clone, PartialEq, Eq)]
struct HdrView {
    sess_id: u16,
    ctr: u32,
    src: Option<u64>,
    dst_unicast: Option<u64>,
    dst_group: Option<u16>,
    group_session: bool,
    control: bool,
    privacy: bool,
    encrypted: bool,
    exch_id: u16,
    proto_id: u16,
    opcode: u8,
    vendor: Option<u16>,
    ack: Option<u32>,
    reliable: bool,
    initiator: bool,
    secex: bool,
}

fn view(h: &PacketHdr) -> HdrView {
    HdrView {
        sess_id: h.plain.sess_id,
        ctr: h.plain.ctr,
        src: h.plain.get_src_nodeid(),
        dst_unicast: h.plain.get_dst_unicast_nodeid(),
        dst_group: h.plain.get_dst_groupcast_nodeid(),
        group_session: h.plain.is_group_session(),
        control: h.plain.is_control_msg(),
        privacy: h.plain.is_privacy(),
        encrypted: h.plain.is_encrypted(),
        exch_id: h.proto.exch_id,
        proto_id: h.proto.proto_id,
        opcode: h.proto.proto_opcode,
        vendor: h.proto.get_vendor(),
        ack: h.proto.get_ack(),
        reliable: h.proto.is_reliable(),
        initiator: h.proto.is_initiator(),
        secex: h.proto.is_security_ext(),
    }
}

/// Name of the first differing field.
fn view_diff(a: &HdrView, b: &HdrView) -> Option<&'static str> {
    macro_rules! d {
        ($($f:ident),*) => { $( if a.$f != b.$f { return Some(stringify!($f)); } )* };
    }
    d!(
        sess_id, ctr, src, dst_unicast, dst_group, group_session, control, privacy, encrypted,
        exch_id, proto_id, opcode, vendor, ack, reliable, initiator, secex
    );
    None
}

fn expected_view(c: &HdrCase) -> HdrView {
    HdrView {
        sess_id: c.sess_id,
        ctr: c.ctr,
        src: c.src,
        dst_unicast: if let Dst::Unicast(id) = c.dst { Some(id) } else { None },
        dst_group: if let Dst::Group(id) = c.dst { Some(id) } else { None },
        group_session: c.group_session,
        control: c.control,
        privacy: false,
        // an unsecured session is "unicast session type with session id 0"
        encrypted: c.sess_id != 0 || c.group_session,
        exch_id: c.exch_id,
        proto_id: c.proto_id,
        opcode: c.opcode,
        vendor: c.vendor,
        ack: c.ack,
        reliable: c.reliable,
        initiator: c.initiator,
        secex: false,
    }
}

fn set_dst(h: &mut PlainHdr, d: Dst) {
    match d {
        Dst::None => h.set_dst_unicast_nodeid(None),
        Dst::Unicast(id) => h.set_dst_unicast_nodeid(Some(id)),
        Dst::Group(id) => h.set_dst_groupcast_nodeid(Some(id)),
    }
}

fn build_hdr(c: &HdrCase) -> PacketHdr {
    let mut h = PacketHdr::new();
    if c.via_reset {
        h.reset();
    }
    h.plain.sess_id = c.sess_id;
    h.plain.ctr = c.ctr;
    h.plain.set_src_nodeid(c.src_prev);
    set_dst(&mut h.plain, c.dst_prev);
    h.plain.set_src_nodeid(c.src);
    set_dst(&mut h.plain, c.dst);
    h.plain.set_group_session(c.group_session);
    h.plain.set_control_msg(c.control);
    h.proto.exch_id = c.exch_id;
    h.proto.proto_id = c.proto_id;
    h.proto.proto_opcode = c.opcode;
    h.proto.set_vendor(c.vendor_prev);
    h.proto.set_ack(c.ack_prev);
    h.proto.set_vendor(c.vendor);
    h.proto.set_ack(c.ack);
    if c.reliable {
        h.proto.set_reliable();
    } else {
        h.proto.unset_reliable();
    }
    if c.initiator {
        h.proto.set_initiator();
    } else {
        h.proto.unset_initiator();
    }
    h
}

/// Header sizes implied by the field widths of the Matter message format.
fn plain_len(src: bool, dst: Dst) -> usize {
    1 + 2 + 1 + 4
        + if src { 8 } else { 0 }
        + match dst {
            Dst::None => 0,
            Dst::Unicast(_) => 8,
            Dst::Group(_) => 2,
        }
}

fn proto_len(vendor: bool, ack: bool) -> usize {
    1 + 1 + 2 + 2 + if vendor { 2 } else { 0 } + if ack { 4 } else { 0 }
}

/// Encode `hdr` + `payload` the way `TransportMgr::encode_packet` does.
/// Returns `Ok(None)` if the encoder reported an error.
#[allow(clippy::too_many_arguments)]
fn encode_packet(
    hdr: &PacketHdr,
    payload: &[u8],
    key: Option<&[u8; 16]>,
    node_id: u64,
    headroom: usize,
    tailroom: usize,
) -> Result<Vec<u8>, String> {
    let crypto = test_only_crypto();
    let mut buf = vec![0xa5u8; headroom + payload.len() + tailroom];
    buf[headroom..headroom + payload.len()].copy_from_slice(payload);
    let mut wb = WriteBuf::new_with(&mut buf, headroom, headroom + payload.len());
    let r = hdr.encode(&crypto, key.map(CanonAeadKeyRef::new), node_id, &mut wb);
    match r {
        Ok(()) => Ok(wb.as_slice().to_vec()),
        Err(e) => Err(format!("{:?}", e.code())),
    }
}

struct Decoded {
    view: HdrView,
    plain_len: usize,
    payload: Vec<u8>,
}

enum DecodeErr {
    Plain(String),
    Rest(String),
}

fn decode_packet(
    bytes: &[u8],
    key: Option<&[u8; 16]>,
    node_id: u64,
    via_reset: bool,
) -> Result<Decoded, DecodeErr> {
    let crypto = test_only_crypto();
    let mut copy = bytes.to_vec();
    let mut pb = ParseBuf::new(&mut copy);
    let mut h = PacketHdr::new();
    if via_reset {
        h.reset();
    }
    h.decode_plain_hdr(&mut pb)
        .map_err(|e| DecodeErr::Plain(format!("{:?}", e.code())))?;
    let plain_len = pb.read_off();
    h.decode_remaining(&crypto, key.map(CanonAeadKeyRef::new), node_id, &mut pb)
        .map_err(|e| DecodeErr::Rest(format!("{:?}", e.code())))?;
    // Display must not panic either (it is called on every received packet when tracing)
    let mut sink = String::new();
    let _ = write!(sink, "{}", h);
    Ok(Decoded {
        view: view(&h),
        plain_len,
        payload: pb.as_slice().to_vec(),
    })
}

fn hdr_nontrivial(c: &HdrCase) -> bool {
    let optional = c.src.is_some() || c.dst != Dst::None || c.vendor.is_some() || c.ack.is_some();
    let extreme = is_ext_u16(c.sess_id)
        || is_ext_u32(c.ctr)
        || c.src.map(is_ext_u64).unwrap_or(false)
        || matches!(c.dst, Dst::Unicast(v) if is_ext_u64(v))
        || matches!(c.dst, Dst::Group(v) if is_ext_u16(v))
        || is_ext_u16(c.exch_id)
        || is_ext_u16(c.proto_id)
        || is_ext_u8(c.opcode)
        || c.vendor.map(is_ext_u16).unwrap_or(false)
        || c.ack.map(is_ext_u32).unwrap_or(false)
        || c.payload.is_empty()
        || c.payload.len() >= 1100;
    optional && extreme
}

fn check_hdr_roundtrip(c: &HdrCase) -> Case {
    let key = match &c.key {
        Some(k) => match key_arr(k) {
            Some(k) => Some(k),
            None => return Case::inconclusive("key is not 16 bytes"),
        },
        None => None,
    };
    let hdr = build_hdr(c);
    let exp = expected_view(c);

    // 1. the setters/getters agree with the generated values
    let txv = view(&hdr);
    if let Some(f) = view_diff(&txv, &exp) {
        return Case::fail(
            format!("hdr:setter-getter:{f}"),
            format!("after the setters: {txv:?}, expected {exp:?}"),
        );
    }

    // 2. encode
    let need_head = plain_len(c.src.is_some(), c.dst) + proto_len(c.vendor.is_some(), c.ack.is_some());
    let need_tail = if key.is_some() { AEAD_TAG_LEN } else { 0 };
    let headroom = match c.headroom {
        0 => PacketHdr::HDR_RESERVE,
        1 => need_head,
        _ => need_head - 1,
    };
    let tailroom = match c.tailroom {
        0 => PacketHdr::TAIL_RESERVE,
        1 => need_tail,
        _ => need_tail.saturating_sub(1),
    };
    let enough = headroom >= need_head && tailroom >= need_tail;
    let bytes = match encode_packet(&hdr, &c.payload, key.as_ref(), c.node_id, headroom, tailroom) {
        Ok(b) => b,
        Err(e) => {
            if enough {
                return Case::fail(
                    "hdr:encode-failed",
                    format!("encode returned {e} with headroom {headroom} (need {need_head}) tailroom {tailroom} (need {need_tail})"),
                );
            }
            return Case::pass(false).label("no-room=>Err");
        }
    };
    if !enough {
        return Case::fail(
            "hdr:encode-without-room",
            format!("encode succeeded with headroom {headroom} (need {need_head}) tailroom {tailroom} (need {need_tail}): {}", hex(&bytes)),
        );
    }
    let exp_len = need_head + c.payload.len() + need_tail;
    ensure_eq!("hdr:encoded-length", "encoded packet length", bytes.len(), exp_len);

    // 3. decode
    let dec = match decode_packet(&bytes, key.as_ref(), c.node_id, c.via_reset) {
        Ok(d) => d,
        Err(DecodeErr::Plain(e)) => {
            return Case::fail("hdr:plain-decode-failed", format!("{e} on {}", hex(&bytes)))
        }
        Err(DecodeErr::Rest(e)) => {
            return Case::fail("hdr:proto-decode-failed", format!("{e} on {}", hex(&bytes)))
        }
    };
    if let Some(f) = view_diff(&dec.view, &exp) {
        return Case::fail(
            format!("hdr:field-mismatch:{f}"),
            format!("decoded {:?}, encoded {exp:?}, wire {}", dec.view, hex(&bytes)),
        );
    }
    ensure_eq!(
        "hdr:plain-length",
        "bytes consumed by the plain header",
        dec.plain_len,
        plain_len(c.src.is_some(), c.dst)
    );
    if dec.payload != c.payload {
        return Case::fail(
            "hdr:payload-mismatch",
            format!("payload after decode {} != {}", hex(&dec.payload), hex(&c.payload)),
        );
    }

    // 4. negative probes (encrypted packets only)
    let mut labels: Vec<&'static str> = Vec::new();
    if let Some(k) = key {
        labels.push("encrypted");
        let mut k2 = k;
        let mut node2 = c.node_id;
        let mut bytes2 = bytes.clone();
        let what = match &c.neg {
            HdrNeg::None => None,
            HdrNeg::WrongKey { idx, xor } => {
                k2[(*idx as usize) % 16] ^= (*xor).max(1);
                Some("wrong-key")
            }
            HdrNeg::WrongNode { xor } => {
                node2 ^= (*xor).max(1);
                Some("wrong-node-id")
            }
            HdrNeg::Flip { pos, bit } => {
                let i = pick(*pos, bytes2.len());
                bytes2[i] ^= 1 << (bit & 7);
                Some("bit-flip")
            }
            HdrNeg::Truncate { by } => {
                let by = 1 + pick(*by, bytes2.len());
                bytes2.truncate(bytes2.len() - by);
                Some("truncated")
            }
        };
        if let Some(what) = what {
            if let Ok(d) = decode_packet(&bytes2, Some(&k2), node2, c.via_reset) {
                return Case::fail(
                    format!("hdr:{what}-accepted"),
                    format!(
                        "{what}: {:?} on packet {} (original {}) decoded to {:?} payload {}",
                        c.neg, hex(&bytes2), hex(&bytes), d.view, hex(&d.payload)
                    ),
                );
            }
            labels.push(what);
        }
    }
    if c.src.is_some() {
        labels.push("src");
    }
    match c.dst {
        Dst::Unicast(_) => labels.push("dst-unicast"),
        Dst::Group(_) => labels.push("dst-group"),
        Dst::None => {}
    }
    if c.vendor.is_some() {
        labels.push("vendor");
    }
    if c.ack.is_some() {
        labels.push("ack");
    }
    Case::pass(hdr_nontrivial(c)).labels(labels)
}

/// Exhaustive table: every combination of the optional fields / flag bits, at three value sets.
fn hdr_table() -> Vec<HdrCase> {
    let mut v = Vec::new();
    for vals in 0..3u8 {
        let (u16v, u32v, u64v, u8v) = match vals {
            0 => (0u16, 0u32, 0u64, 0u8),
            1 => (u16::MAX, u32::MAX, u64::MAX, u8::MAX),
            _ => (0x1234, 0x89ab_cdef, 0x0102_0304_0506_0708, 0x5a),
        };
        for bits in 0..(1u32 << 8) {
            for dsel in 0..3 {
                let b = |i: u32| bits & (1 << i) != 0;
                v.push(HdrCase {
                    sess_id: u16v,
                    ctr: u32v,
                    src_prev: if b(7) { Some(!u64v) } else { None },
                    dst_prev: if b(7) { Dst::Group(!u16v) } else { Dst::Unicast(!u64v) },
                    vendor_prev: Some(!u16v),
                    ack_prev: None,
                    src: if b(0) { Some(u64v) } else { None },
                    dst: match dsel {
                        0 => Dst::None,
                        1 => Dst::Unicast(u64v.rotate_left(8)),
                        _ => Dst::Group(u16v.rotate_left(4)),
                    },
                    group_session: b(1),
                    control: b(2),
                    exch_id: u16v.rotate_left(8),
                    proto_id: u16v,
                    opcode: u8v,
                    vendor: if b(3) { Some(u16v.rotate_left(3)) } else { None },
                    ack: if b(4) { Some(u32v.rotate_left(8)) } else { None },
                    reliable: b(5),
                    initiator: b(6),
                    payload: if vals == 0 { vec![] } else { vec![u8v; 5] },
                    key: if b(7) { Some(vec![u8v; 16]) } else { None },
                    node_id: u64v,
                    headroom: (bits % 2) as u8,
                    tailroom: ((bits / 2) % 2) as u8,
                    via_reset: b(5),
                    neg: HdrNeg::None,
                });
            }
        }
    }
    v
}

// ----- header decoder on hostile input -------------------------------------------------------

#[derive(Debug, Clone, Serialize, Deserialize)]
struct HdrFuzz {
    src: Src<HdrCase>,
    /// key / node id used for `Src::Raw` (a mutated base uses its own)
    key: Option<Vec<u8>>,
    node_id: u64,
}

/// Bytes that look like a header: plausible flag bytes followed by noise.
fn raw_hdr_bytes() -> impl Strategy<Value = Vec<u8>> {
    let structured = (
        prop_oneof![6 => 0u8..8, 1 => any::<u8>()],
        ext_u16(),
        prop_oneof![
            6 => (any::<bool>(), any::<bool>(), any::<bool>(), any::<bool>()).prop_map(|(a, b, c, d)| {
                (a as u8) | (b as u8) << 5 | (c as u8) << 6 | (d as u8) << 7
            }),
            1 => any::<u8>()
        ],
        prop::collection::vec(any::<u8>(), 0..48),
        // plausible exchange flags at the position right after a minimal plain header
        prop_oneof![4 => 0u8..32, 1 => any::<u8>()],
    )
        .prop_map(|(flags, sess, sec, mut rest, exfl)| {
            let mut v = vec![flags];
            v.extend_from_slice(&sess.to_le_bytes());
            v.push(sec);
            // counter (4) + optional src (8) + optional dst (8/2), then the exchange flags
            let skip = 4
                + if flags & 4 != 0 { 8 } else { 0 }
                + match flags & 3 {
                    1 => 8,
                    2 => 2,
                    _ => 0,
                };
            if rest.len() > skip {
                rest[skip] = exfl;
            }
            v.extend_from_slice(&rest);
            v
        });
    prop_oneof![
        3 => structured,
        1 => prop::collection::vec(any::<u8>(), 0..64),
    ]
}

fn hdr_fuzz() -> impl Strategy<Value = HdrFuzz> {
    (
        src(
            raw_hdr_bytes(),
            prop_oneof![hdr_case(false).boxed(), hdr_case(true).boxed()],
        ),
        prop::option::of(key16()),
        ext_u64(),
    )
        .prop_map(|(src, key, node_id)| HdrFuzz { src, key, node_id })
}

fn check_hdr_fuzz(f: &HdrFuzz) -> Case {
    // Build the input
    let (bytes, key, node_id, pristine, base) = match &f.src {
        Src::Raw(b) => (b.clone(), f.key.clone(), f.node_id, false, None),
        Src::Mutated { base, muts } => {
            let key = base.key.as_deref().and_then(key_arr);
            let hdr = build_hdr(base);
            let orig = match encode_packet(
                &hdr,
                &base.payload,
                key.as_ref(),
                base.node_id,
                PacketHdr::HDR_RESERVE,
                PacketHdr::TAIL_RESERVE,
            ) {
                Ok(b) => b,
                Err(e) => return Case::fail("hdr:encode-failed", format!("encode of fuzz base failed: {e}")),
            };
            let mut b = orig.clone();
            apply_muts(&mut b, muts);
            let pristine = b == orig;
            (b, base.key.clone(), base.node_id, pristine, Some(base))
        }
    };
    let key = match &key {
        Some(k) => match key_arr(k) {
            Some(k) => Some(k),
            None => return Case::inconclusive("key is not 16 bytes"),
        },
        None => None,
    };

    // First stage alone: the plain header, and its canonical re-encoding
    let mut copy = bytes.clone();
    let mut pb = ParseBuf::new(&mut copy);
    let mut ph = PlainHdr::new();
    if ph.decode(&mut pb).is_err() {
        if pristine {
            return Case::fail("hdr:plain-decode-failed", format!("unmodified packet {} refused", hex(&bytes)));
        }
        return Case::pass(false).label("plain:Err");
    }
    let consumed = pb.read_off();
    let mut tmp = [0u8; 64];
    let mut wb = WriteBuf::new(&mut tmp);
    if let Err(e) = ph.encode(&mut wb) {
        return Case::fail(
            "hdr:plain-reencode-failed",
            format!("plain header decoded from {} does not encode: {:?}", hex(&bytes), e.code()),
        );
    }
    if consumed > bytes.len() || wb.as_slice() != &bytes[..consumed] {
        return Case::fail(
            "hdr:plain-reencode-differs",
            format!(
                "plain header decoded from {} (consumed {consumed}) re-encodes to {}",
                hex(&bytes),
                hex(wb.as_slice())
            ),
        );
    }
    let mut sink = String::new();
    let _ = write!(sink, "{}", ph);

    // Both stages
    let dec = match decode_packet(&bytes, key.as_ref(), node_id, false) {
        Ok(d) => d,
        Err(DecodeErr::Plain(e)) => {
            return Case::fail(
                "hdr:plain-decode-unstable",
                format!("plain header of {} decoded once and then failed with {e}", hex(&bytes)),
            )
        }
        Err(DecodeErr::Rest(e)) => {
            if pristine {
                return Case::fail("hdr:proto-decode-failed", format!("unmodified packet {} refused: {e}", hex(&bytes)));
            }
            return Case::pass(true).label(if key.is_some() { "plain:Ok,proto:Err(keyed)" } else { "plain:Ok,proto:Err" });
        }
    };

    if key.is_some() {
        // Authenticated: only the unmodified packet may be accepted.
        if !pristine {
            return Case::fail(
                "hdr:tampered-accepted",
                format!("packet {} is not what the encoder produced, yet it authenticated: {:?}", hex(&bytes), dec.view),
            );
        }
        if let Some(base) = base {
            let exp = expected_view(base);
            if let Some(fld) = view_diff(&dec.view, &exp) {
                return Case::fail(format!("hdr:field-mismatch:{fld}"), format!("decoded {:?}, encoded {exp:?}", dec.view));
            }
            if dec.payload != base.payload {
                return Case::fail("hdr:payload-mismatch", format!("{} != {}", hex(&dec.payload), hex(&base.payload)));
            }
        }
        return Case::pass(true).label("accepted(keyed)");
    }

    // Unauthenticated: what was accepted must be exactly what an encoder would emit for these
    // fields (the header formats have no redundancy: every accepted bit is a field bit).
    let crypto = test_only_crypto();
    let mut copy = bytes.clone();
    let mut pb = ParseBuf::new(&mut copy);
    let mut h = PacketHdr::new();
    let r1 = h.decode_plain_hdr(&mut pb);
    let r2 = h.decode_remaining(&crypto, None, node_id, &mut pb);
    if r1.is_err() || r2.is_err() {
        return Case::fail("hdr:decode-unstable", format!("second decode of {} failed", hex(&bytes)));
    }
    let re = match encode_packet(&h, &dec.payload, None, node_id, PacketHdr::HDR_RESERVE, 0) {
        Ok(b) => b,
        Err(e) => {
            return Case::fail(
                "hdr:reencode-failed",
                format!("header {:?} decoded from {} does not encode: {e}", dec.view, hex(&bytes)),
            )
        }
    };
    if re != bytes {
        return Case::fail(
            "hdr:reencode-differs",
            format!("{} decodes to {:?} + payload {}, which encodes to {}", hex(&bytes), dec.view, hex(&dec.payload), hex(&re)),
        );
    }
    let mut labels = vec!["accepted"];
    if dec.view.privacy {
        labels.push("privacy-bit");
    }
    if dec.view.secex {
        labels.push("secex-bit");
    }
    if dec.view.dst_unicast.is_none() && dec.view.dst_group.is_none() && bytes[0] & 3 == 3 {
        labels.push("dsiz=3");
    }
    Case::pass(true).labels(labels)
}

// ---------------------------------------------------------------------------------------------
// StatusReport
// ---------------------------------------------------------------------------------------------

const GENERAL_CODES: [GeneralCode; 17] = [
    GeneralCode::Success,
    GeneralCode::Failure,
    GeneralCode::BadPrecondition,
    GeneralCode::OutOfRange,
    GeneralCode::BadRequest,
    GeneralCode::Unsupported,
    GeneralCode::Unexpected,
    GeneralCode::ResourceExhausted,
    GeneralCode::Busy,
    GeneralCode::Timeout,
    GeneralCode::Continue,
    GeneralCode::Aborted,
    GeneralCode::InvalidArgument,
    GeneralCode::NotFound,
    GeneralCode::AlreadyExists,
    GeneralCode::PermissionDenied,
    GeneralCode::DataLoss,
];

#[derive(Debug, Clone, Serialize, Deserialize)]
struct StatusCase {
    /// index into the 17 general codes
    general: u8,
    proto_id: u32,
    proto_code: u16,
    data: Vec<u8>,
    /// 0: exact buffer, 1: larger, 2: one byte short
    room: u8,
}

fn status_case() -> impl Strategy<Value = StatusCase> {
    (
        prop_oneof![1 => Just(0u8), 1 => Just(16u8), 3 => 0u8..17],
        ext_u32(),
        ext_u16(),
        blob(),
        prop_oneof![3 => Just(0u8), 3 => Just(1u8), 1 => Just(2u8)],
    )
        .prop_map(|(general, proto_id, proto_code, data, room)| StatusCase {
            general,
            proto_id,
            proto_code,
            data,
            room,
        })
}

fn encode_status(c: &StatusCase, cap: usize) -> Result<Vec<u8>, String> {
    let sr = StatusReport {
        general_code: GENERAL_CODES[c.general as usize % 17],
        proto_id: c.proto_id,
        proto_code: c.proto_code,
        proto_data: &c.data,
    };
    let mut buf = vec![0u8; cap];
    let mut wb = WriteBuf::new(&mut buf);
    match sr.write(&mut wb) {
        Ok(()) => Ok(wb.as_slice().to_vec()),
        Err(e) => Err(format!("{:?}", e.code())),
    }
}

fn check_status_roundtrip(c: &StatusCase) -> Case {
    let need = 2 + 4 + 2 + c.data.len();
    let cap = match c.room {
        0 => need,
        1 => need + 17,
        _ => need - 1,
    };
    let bytes = match encode_status(c, cap) {
        Ok(b) => b,
        Err(e) => {
            if cap >= need {
                return Case::fail("status:encode-failed", format!("write returned {e} into {cap} bytes (need {need})"));
            }
            return Case::pass(false).label("no-room=>Err");
        }
    };
    if cap < need {
        return Case::fail("status:encode-without-room", format!("{need} bytes written into {cap}"));
    }
    ensure_eq!("status:encoded-length", "encoded length", bytes.len(), need);
    let mut rb = ReadBuf::new(&bytes[..]);
    let sr = match StatusReport::read(&mut rb) {
        Ok(sr) => sr,
        Err(e) => return Case::fail("status:decode-failed", format!("{:?} on {}", e.code(), hex(&bytes))),
    };
    ensure_eq!("status:field-mismatch:general_code", "general code", sr.general_code as u16, c.general as u16 % 17);
    ensure_eq!("status:field-mismatch:proto_id", "protocol id", sr.proto_id, c.proto_id);
    ensure_eq!("status:field-mismatch:proto_code", "protocol code", sr.proto_code, c.proto_code);
    if sr.proto_data != &c.data[..] {
        return Case::fail("status:field-mismatch:proto_data", format!("{} != {}", hex(sr.proto_data), hex(&c.data)));
    }
    let nt = !c.data.is_empty() && (is_ext_u32(c.proto_id) || is_ext_u16(c.proto_code) || c.general == 0 || c.general == 16);
    Case::pass(nt).label(if c.data.is_empty() { "no-data" } else { "data" })
}

fn check_status_fuzz(s: &Src<StatusCase>) -> Case {
    let (bytes, pristine) = match s {
        Src::Raw(b) => (b.clone(), false),
        Src::Mutated { base, muts } => {
            let orig = match encode_status(base, 8 + base.data.len()) {
                Ok(b) => b,
                Err(e) => return Case::fail("status:encode-failed", e),
            };
            let mut b = orig.clone();
            apply_muts(&mut b, muts);
            let p = b == orig;
            (b, p)
        }
    };
    let mut rb = ReadBuf::new(&bytes[..]);
    match StatusReport::read(&mut rb) {
        Err(_) => {
            if pristine {
                return Case::fail("status:decode-failed", format!("unmodified {} refused", hex(&bytes)));
            }
            Case::pass(false).label("Err")
        }
        Ok(sr) => {
            let mut sink = String::new();
            let _ = write!(sink, "{:?}", sr);
            let mut buf = vec![0u8; bytes.len() + 16];
            let mut wb = WriteBuf::new(&mut buf);
            if let Err(e) = sr.write(&mut wb) {
                return Case::fail("status:reencode-failed", format!("{:?}", e.code()));
            }
            if wb.as_slice() != &bytes[..] {
                return Case::fail(
                    "status:reencode-differs",
                    format!("{} decodes to {sr:?} which encodes to {}", hex(&bytes), hex(wb.as_slice())),
                );
            }
            Case::pass(true).label("accepted")
        }
    }
}

/// The two producers of status reports in the crate: secure-channel and BDX status codes.
#[derive(Debug, Clone, Serialize, Deserialize)]
struct StatusCodeItem {
    /// 0..6: SCStatusCodes, 6..20: BdxStatus
    idx: u8,
    payload: Vec<u8>,
}

const SC_CODES: [SCStatusCodes; 6] = [
    SCStatusCodes::SessionEstablishmentSuccess,
    SCStatusCodes::NoSharedTrustRoots,
    SCStatusCodes::InvalidParameter,
    SCStatusCodes::CloseSession,
    SCStatusCodes::Busy,
    SCStatusCodes::SessionNotFound,
];

const BDX_CODES: [BdxStatus; 14] = [
    BdxStatus::LengthTooLarge,
    BdxStatus::LengthTooShort,
    BdxStatus::LengthMismatch,
    BdxStatus::LengthRequired,
    BdxStatus::BadMessageContents,
    BdxStatus::BadBlockCounter,
    BdxStatus::UnexpectedMessage,
    BdxStatus::ResponderBusy,
    BdxStatus::TransferFailedUnknownError,
    BdxStatus::TransferMethodNotSupported,
    BdxStatus::FileDesignatorUnknown,
    BdxStatus::StartOffsetNotSupported,
    BdxStatus::VersionNotSupported,
    BdxStatus::Unknown,
];

fn check_status_codes(it: &StatusCodeItem) -> Case {
    let mut buf = vec![0u8; 64];
    let mut wb = WriteBuf::new(&mut buf);
    let (exp_proto, exp_code, exp_data): (u32, u16, &[u8]) = if (it.idx as usize) < 6 {
        let code = SC_CODES[it.idx as usize];
        if let Err(e) = sc_write(&mut wb, code, &it.payload) {
            return Case::fail("status:sc_write-failed", format!("{:?}", e.code()));
        }
        (0, code as u16, &it.payload)
    } else {
        let code = BDX_CODES[(it.idx as usize - 6) % 14];
        if let Err(e) = code.as_report().write(&mut wb) {
            return Case::fail("status:bdx-report-write-failed", format!("{:?}", e.code()));
        }
        (PROTO_ID_BDX as u32, code as u16, &[])
    };
    let bytes = wb.as_slice().to_vec();
    let mut rb = ReadBuf::new(&bytes[..]);
    let sr = match StatusReport::read(&mut rb) {
        Ok(sr) => sr,
        Err(e) => return Case::fail("status:decode-failed", format!("{:?} on {}", e.code(), hex(&bytes))),
    };
    ensure_eq!("status:field-mismatch:proto_id", "protocol id", sr.proto_id, exp_proto);
    ensure_eq!("status:field-mismatch:proto_code", "protocol code", sr.proto_code, exp_code);
    if sr.proto_data != exp_data {
        return Case::fail("status:field-mismatch:proto_data", format!("{} != {}", hex(sr.proto_data), hex(exp_data)));
    }
    if it.idx >= 6 {
        // documented on `BdxStatus::as_report`: GeneralCode FAILURE
        ensure_eq!("status:field-mismatch:general_code", "general code of a BDX failure report", sr.general_code as u16, 1u16);
    }
    Case::pass(!it.payload.is_empty() || it.idx >= 6)
}

// ---------------------------------------------------------------------------------------------
// MCSP
// ---------------------------------------------------------------------------------------------

#[derive(Debug, Clone, Serialize, Deserialize)]
struct McspCase {
    counter: u32,
    challenge: Vec<u8>,
    /// bytes offered to both decoders
    hostile: Vec<u8>,
}

fn mcsp_case() -> impl Strategy<Value = McspCase> {
    (
        ext_u32(),
        prop_oneof![1 => Just(vec![0u8; 8]), 1 => Just(vec![0xffu8; 8]), 4 => prop::collection::vec(any::<u8>(), 8)],
        prop_oneof![
            2 => prop::collection::vec(any::<u8>(), 0..20),
            1 => prop::collection::vec(any::<u8>(), 7..=9),
            1 => prop::collection::vec(any::<u8>(), 11..=13),
        ],
    )
        .prop_map(|(counter, challenge, hostile)| McspCase { counter, challenge, hostile })
}

fn check_mcsp(c: &McspCase) -> Case {
    let Ok(ch) = <[u8; 8]>::try_from(&c.challenge[..]) else {
        return Case::inconclusive("challenge is not 8 bytes");
    };
    // round trips
    let req = MsgCounterSyncReq { challenge: ch };
    let mut buf = [0u8; 8];
    let mut wb = WriteBuf::new(&mut buf);
    if let Err(e) = req.write(&mut wb) {
        return Case::fail("mcsp:req-encode-failed", format!("{:?}", e.code()));
    }
    let bytes = wb.as_slice().to_vec();
    ensure_eq!("mcsp:req-encoded-length", "request length", bytes.len(), 8usize);
    match MsgCounterSyncReq::read(&bytes) {
        Ok(r) => ensure_eq!("mcsp:req-field-mismatch", "challenge", r.challenge, ch),
        Err(e) => return Case::fail("mcsp:req-decode-failed", format!("{:?} on {}", e.code(), hex(&bytes))),
    }
    let rsp = MsgCounterSyncRsp { synchronized_counter: c.counter, response: ch };
    let mut buf = [0u8; 12];
    let mut wb = WriteBuf::new(&mut buf);
    if let Err(e) = rsp.write(&mut wb) {
        return Case::fail("mcsp:rsp-encode-failed", format!("{:?}", e.code()));
    }
    let bytes = wb.as_slice().to_vec();
    ensure_eq!("mcsp:rsp-encoded-length", "response length", bytes.len(), 12usize);
    match MsgCounterSyncRsp::read(&bytes) {
        Ok(r) => {
            ensure_eq!("mcsp:rsp-field-mismatch:counter", "counter", r.synchronized_counter, c.counter);
            ensure_eq!("mcsp:rsp-field-mismatch:response", "response", r.response, ch);
        }
        Err(e) => return Case::fail("mcsp:rsp-decode-failed", format!("{:?} on {}", e.code(), hex(&bytes))),
    }
    // a too small buffer is an error, not a panic
    let mut small = [0u8; 11];
    let mut wb = WriteBuf::new(&mut small);
    if rsp.write(&mut wb).is_ok() {
        return Case::fail("mcsp:rsp-encode-without-room", "12 bytes written into 11");
    }

    // hostile input: the documented contract is "rejects any other length"
    let h = &c.hostile;
    match MsgCounterSyncReq::read(h) {
        Ok(r) => {
            if h.len() != 8 || r.challenge[..] != h[..] {
                return Case::fail("mcsp:req-accepted-bad-input", format!("{} -> {r:?}", hex(h)));
            }
        }
        Err(_) => {
            if h.len() == 8 {
                return Case::fail("mcsp:req-decode-failed", format!("8 bytes {} refused", hex(h)));
            }
        }
    }
    match MsgCounterSyncRsp::read(h) {
        Ok(r) => {
            if h.len() != 12
                || r.synchronized_counter.to_le_bytes()[..] != h[..4]
                || r.response[..] != h[4..]
            {
                return Case::fail("mcsp:rsp-accepted-bad-input", format!("{} -> {r:?}", hex(h)));
            }
        }
        Err(_) => {
            if h.len() == 12 {
                return Case::fail("mcsp:rsp-decode-failed", format!("12 bytes {} refused", hex(h)));
            }
        }
    }
    let nt = is_ext_u32(c.counter) || h.len() == 8 || h.len() == 12;
    Case::pass(nt).label(match h.len() {
        8 => "hostile-len-8",
        12 => "hostile-len-12",
        _ => "hostile-other-len",
    })
}

// ---------------------------------------------------------------------------------------------
// BDX
// ---------------------------------------------------------------------------------------------

#[derive(Debug, Clone, Copy, PartialEq, Eq, Serialize, Deserialize)]
struct Tc {
    version: u8,
    sender_drive: bool,
    receiver_drive: bool,
    async_mode: bool,
}

#[derive(Debug, Clone, Copy, PartialEq, Eq, Serialize, Deserialize, Default)]
struct Rc {
    def_len: bool,
    start_offset: bool,
    wide_range: bool,
}

impl Tc {
    fn to_sut(self) -> TransferControl {
        TransferControl {
            version: self.version,
            sender_drive: self.sender_drive,
            receiver_drive: self.receiver_drive,
            async_mode: self.async_mode,
        }
    }
    fn of(t: &TransferControl) -> Self {
        Tc {
            version: t.version,
            sender_drive: t.sender_drive,
            receiver_drive: t.receiver_drive,
            async_mode: t.async_mode,
        }
    }
}

impl Rc {
    fn to_sut(self) -> RangeControl {
        RangeControl {
            def_len: self.def_len,
            start_offset: self.start_offset,
            wide_range: self.wide_range,
        }
    }
    fn of(r: &RangeControl) -> Self {
        Rc {
            def_len: r.def_len,
            start_offset: r.start_offset,
            wide_range: r.wide_range,
        }
    }
}

fn tc() -> impl Strategy<Value = Tc> {
    (
        prop_oneof![3 => Just(0u8), 1 => Just(15u8), 2 => 0u8..16],
        any::<bool>(),
        any::<bool>(),
        any::<bool>(),
    )
        .prop_map(|(version, sender_drive, receiver_drive, async_mode)| Tc {
            version,
            sender_drive,
            receiver_drive,
            async_mode,
        })
}

fn rc() -> impl Strategy<Value = Rc> {
    (any::<bool>(), any::<bool>(), any::<bool>()).prop_map(|(def_len, start_offset, wide_range)| Rc {
        def_len,
        start_offset,
        wide_range,
    })
}

/// An offset/length value that is legal for the given range control: absent => 0, 32-bit
/// unless the wide-range bit is set.
fn legal_range(present: bool, wide: bool, raw: u64) -> u64 {
    if !present {
        0
    } else if wide {
        raw
    } else {
        raw & 0xffff_ffff
    }
}

#[derive(Debug, Clone, Serialize, Deserialize)]
struct InitCase {
    tc: Tc,
    rc: Rc,
    max_block_size: u16,
    start_offset: u64,
    length: u64,
    file_designator: Vec<u8>,
    metadata: Vec<u8>,
    /// 0: exact buffer, 1: larger, 2: one byte short
    room: u8,
}

fn room() -> impl Strategy<Value = u8> {
    prop_oneof![3 => Just(0u8), 3 => Just(1u8), 1 => Just(2u8)]
}

fn init_case() -> impl Strategy<Value = InitCase> {
    (tc(), rc(), ext_u16(), ext_u64(), ext_u64(), short_blob(), short_blob(), room()).prop_map(
        |(tc, rc, max_block_size, so, len, file_designator, metadata, room)| InitCase {
            tc,
            rc,
            max_block_size,
            start_offset: legal_range(rc.start_offset, rc.wide_range, so),
            length: legal_range(rc.def_len, rc.wide_range, len),
            file_designator,
            metadata,
            room,
        },
    )
}

fn range_len(present: bool, wide: bool) -> usize {
    if !present {
        0
    } else if wide {
        8
    } else {
        4
    }
}

fn init_len(c: &InitCase) -> usize {
    1 + 1 + 2
        + range_len(c.rc.start_offset, c.rc.wide_range)
        + range_len(c.rc.def_len, c.rc.wide_range)
        + 2
        + c.file_designator.len()
        + c.metadata.len()
}

fn encode_init(c: &InitCase, cap: usize) -> Result<Vec<u8>, String> {
    let msg = TransferInit {
        transfer_control: c.tc.to_sut(),
        range_control: c.rc.to_sut(),
        max_block_size: c.max_block_size,
        start_offset: c.start_offset,
        length: c.length,
        file_designator: &c.file_designator,
        metadata: &c.metadata,
    };
    let mut buf = vec![0u8; cap];
    let mut wb = WriteBuf::new(&mut buf);
    match msg.write(&mut wb) {
        Ok(()) => Ok(wb.as_slice().to_vec()),
        Err(e) => Err(format!("{:?}", e.code())),
    }
}

fn cap_for(room: u8, need: usize) -> usize {
    match room {
        0 => need,
        1 => need + 23,
        _ => need.saturating_sub(1),
    }
}

fn check_bdx_init(c: &InitCase) -> Case {
    let need = init_len(c);
    let cap = cap_for(c.room, need);
    let bytes = match encode_init(c, cap) {
        Ok(b) => b,
        Err(e) => {
            if cap >= need {
                return Case::fail("bdx-init:encode-failed", format!("{e} into {cap} bytes (need {need})"));
            }
            return Case::pass(false).label("no-room=>Err");
        }
    };
    if cap < need {
        return Case::fail("bdx-init:encode-without-room", format!("{need} bytes written into {cap}"));
    }
    ensure_eq!("bdx-init:encoded-length", "encoded length", bytes.len(), need);
    let p = match TransferInit::parse(&bytes) {
        Ok(p) => p,
        Err(e) => return Case::fail("bdx-init:decode-failed", format!("{:?} on {}", e.code(), hex(&bytes))),
    };
    ensure_eq!("bdx-init:field-mismatch:transfer_control", "transfer control", Tc::of(&p.transfer_control), c.tc);
    ensure_eq!("bdx-init:field-mismatch:range_control", "range control", Rc::of(&p.range_control), c.rc);
    ensure_eq!("bdx-init:field-mismatch:max_block_size", "max block size", p.max_block_size, c.max_block_size);
    ensure_eq!("bdx-init:field-mismatch:start_offset", "start offset", p.start_offset, c.start_offset);
    ensure_eq!("bdx-init:field-mismatch:length", "length", p.length, c.length);
    if p.file_designator != &c.file_designator[..] {
        return Case::fail("bdx-init:field-mismatch:file_designator", format!("{} != {}", hex(p.file_designator), hex(&c.file_designator)));
    }
    if p.metadata != &c.metadata[..] {
        return Case::fail("bdx-init:field-mismatch:metadata", format!("{} != {}", hex(p.metadata), hex(&c.metadata)));
    }
    let optional = c.rc.start_offset || c.rc.def_len || !c.metadata.is_empty();
    let extreme = is_ext_u16(c.max_block_size)
        || (c.rc.start_offset && (c.start_offset == 0 || c.start_offset == u64::MAX || c.start_offset == 0xffff_ffff))
        || (c.rc.def_len && (c.length == 0 || c.length == u64::MAX || c.length == 0xffff_ffff))
        || c.file_designator.is_empty()
        || c.tc.version == 15;
    let mut labels = Vec::new();
    if c.rc.start_offset {
        labels.push(if c.rc.wide_range { "start-offset-64" } else { "start-offset-32" });
    }
    if c.rc.def_len {
        labels.push(if c.rc.wide_range { "length-64" } else { "length-32" });
    }
    if !c.metadata.is_empty() {
        labels.push("metadata");
    }
    Case::pass(optional && extreme).labels(labels)
}

#[derive(Debug, Clone, Serialize, Deserialize)]
struct AcceptCase {
    receive: bool,
    tc: Tc,
    rc: Rc,
    max_block_size: u16,
    length: u64,
    metadata: Vec<u8>,
    room: u8,
}

fn accept_case() -> impl Strategy<Value = AcceptCase> {
    (any::<bool>(), tc(), rc(), ext_u16(), ext_u64(), short_blob(), room()).prop_map(
        |(receive, tc, rc, max_block_size, len, metadata, room)| {
            // SendAccept carries no range control / length ("ignored for SendAccept": the legal
            // value is the default); the start-offset bit is not part of a ReceiveAccept.
            let rc = if receive {
                Rc { start_offset: false, ..rc }
            } else {
                Rc::default()
            };
            AcceptCase {
                receive,
                tc,
                rc,
                max_block_size,
                length: legal_range(rc.def_len, rc.wide_range, len),
                metadata,
                room,
            }
        },
    )
}

fn accept_len(c: &AcceptCase) -> usize {
    if c.receive {
        1 + 1 + 2 + range_len(c.rc.def_len, c.rc.wide_range) + c.metadata.len()
    } else {
        1 + 2 + c.metadata.len()
    }
}

fn encode_accept(c: &AcceptCase, cap: usize) -> Result<Vec<u8>, String> {
    let msg = TransferAccept {
        receive: c.receive,
        transfer_control: c.tc.to_sut(),
        range_control: c.rc.to_sut(),
        max_block_size: c.max_block_size,
        length: c.length,
        metadata: &c.metadata,
    };
    let mut buf = vec![0u8; cap];
    let mut wb = WriteBuf::new(&mut buf);
    match msg.write(&mut wb) {
        Ok(()) => Ok(wb.as_slice().to_vec()),
        Err(e) => Err(format!("{:?}", e.code())),
    }
}

fn check_bdx_accept(c: &AcceptCase) -> Case {
    let need = accept_len(c);
    let cap = cap_for(c.room, need);
    let bytes = match encode_accept(c, cap) {
        Ok(b) => b,
        Err(e) => {
            if cap >= need {
                return Case::fail("bdx-accept:encode-failed", format!("{e} into {cap} bytes (need {need})"));
            }
            return Case::pass(false).label("no-room=>Err");
        }
    };
    if cap < need {
        return Case::fail("bdx-accept:encode-without-room", format!("{need} bytes written into {cap}"));
    }
    ensure_eq!("bdx-accept:encoded-length", "encoded length", bytes.len(), need);
    let p = match TransferAccept::parse(c.receive, &bytes) {
        Ok(p) => p,
        Err(e) => return Case::fail("bdx-accept:decode-failed", format!("{:?} on {}", e.code(), hex(&bytes))),
    };
    ensure_eq!("bdx-accept:field-mismatch:receive", "receive", p.receive, c.receive);
    ensure_eq!("bdx-accept:field-mismatch:transfer_control", "transfer control", Tc::of(&p.transfer_control), c.tc);
    ensure_eq!("bdx-accept:field-mismatch:range_control", "range control", Rc::of(&p.range_control), c.rc);
    ensure_eq!("bdx-accept:field-mismatch:max_block_size", "max block size", p.max_block_size, c.max_block_size);
    ensure_eq!("bdx-accept:field-mismatch:length", "length", p.length, c.length);
    if p.metadata != &c.metadata[..] {
        return Case::fail("bdx-accept:field-mismatch:metadata", format!("{} != {}", hex(p.metadata), hex(&c.metadata)));
    }
    let optional = c.rc.def_len || !c.metadata.is_empty();
    let extreme = is_ext_u16(c.max_block_size)
        || (c.rc.def_len && (c.length == 0 || c.length == u64::MAX || c.length == 0xffff_ffff))
        || c.tc.version == 15;
    let mut labels = vec![if c.receive { "receive-accept" } else { "send-accept" }];
    if c.rc.def_len {
        labels.push(if c.rc.wide_range { "length-64" } else { "length-32" });
    }
    Case::pass(optional && extreme).labels(labels)
}

#[derive(Debug, Clone, Serialize, Deserialize)]
struct BlockCase {
    /// 0: Block/BlockEof, 1: BlockQuery/BlockAck/BlockAckEof, 2: BlockQueryWithSkip
    kind: u8,
    counter: u32,
    data: Vec<u8>,
    skip: u64,
    room: u8,
}

fn block_case() -> impl Strategy<Value = BlockCase> {
    (0u8..3, ext_u32(), blob(), ext_u64(), room()).prop_map(|(kind, counter, data, skip, room)| BlockCase {
        kind,
        counter,
        data: if kind == 0 { data } else { Vec::new() },
        skip: if kind == 2 { skip } else { 0 },
        room,
    })
}

fn encode_block(c: &BlockCase, cap: usize) -> Result<Vec<u8>, String> {
    let mut buf = vec![0u8; cap];
    let mut wb = WriteBuf::new(&mut buf);
    let r = match c.kind {
        0 => Block { block_counter: c.counter, data: &c.data }.write(&mut wb),
        1 => BlockQuery { block_counter: c.counter }.write(&mut wb),
        _ => BlockQueryWithSkip { block_counter: c.counter, bytes_to_skip: c.skip }.write(&mut wb),
    };
    match r {
        Ok(()) => Ok(wb.as_slice().to_vec()),
        Err(e) => Err(format!("{:?}", e.code())),
    }
}

fn block_len(c: &BlockCase) -> usize {
    match c.kind {
        0 => 4 + c.data.len(),
        1 => 4,
        _ => 12,
    }
}

fn check_bdx_block(c: &BlockCase) -> Case {
    let need = block_len(c);
    let cap = cap_for(c.room, need);
    let bytes = match encode_block(c, cap) {
        Ok(b) => b,
        Err(e) => {
            if cap >= need {
                return Case::fail("bdx-block:encode-failed", format!("{e} into {cap} bytes (need {need})"));
            }
            return Case::pass(false).label("no-room=>Err");
        }
    };
    if cap < need {
        return Case::fail("bdx-block:encode-without-room", format!("{need} bytes written into {cap}"));
    }
    ensure_eq!("bdx-block:encoded-length", "encoded length", bytes.len(), need);
    match c.kind {
        0 => match Block::parse(&bytes) {
            Ok(p) => {
                ensure_eq!("bdx-block:field-mismatch:block_counter", "block counter", p.block_counter, c.counter);
                if p.data != &c.data[..] {
                    return Case::fail("bdx-block:field-mismatch:data", format!("{} != {}", hex(p.data), hex(&c.data)));
                }
            }
            Err(e) => return Case::fail("bdx-block:decode-failed", format!("{:?} on {}", e.code(), hex(&bytes))),
        },
        1 => match BlockQuery::parse(&bytes) {
            Ok(p) => ensure_eq!("bdx-query:field-mismatch:block_counter", "block counter", p.block_counter, c.counter),
            Err(e) => return Case::fail("bdx-query:decode-failed", format!("{:?} on {}", e.code(), hex(&bytes))),
        },
        _ => match BlockQueryWithSkip::parse(&bytes) {
            Ok(p) => {
                ensure_eq!("bdx-skip:field-mismatch:block_counter", "block counter", p.block_counter, c.counter);
                ensure_eq!("bdx-skip:field-mismatch:bytes_to_skip", "bytes to skip", p.bytes_to_skip, c.skip);
            }
            Err(e) => return Case::fail("bdx-skip:decode-failed", format!("{:?} on {}", e.code(), hex(&bytes))),
        },
    }
    let extreme = is_ext_u32(c.counter) || (c.kind == 2 && is_ext_u64(c.skip)) || c.data.len() >= 1100;
    let optional = c.kind == 2 || (c.kind == 0 && !c.data.is_empty());
    Case::pass(optional && extreme).label(match c.kind {
        0 => "block",
        1 => "query/ack",
        _ => "query-with-skip",
    })
}

#[derive(Debug, Clone, Serialize, Deserialize)]
enum BdxMsg {
    Init(InitCase),
    Accept(AcceptCase),
    Block(BlockCase),
}

fn bdx_raw() -> impl Strategy<Value = Vec<u8>> {
    prop_oneof![
        // plausible control bytes, then noise
        3 => (any::<u8>(), prop_oneof![3 => prop::sample::select(vec![0u8, 1, 2, 3, 0x10, 0x11, 0x12, 0x13]), 1 => any::<u8>()],
              prop::collection::vec(any::<u8>(), 0..40))
            .prop_map(|(a, b, mut rest)| { let mut v = vec![a, b]; v.append(&mut rest); v }),
        // a file-designator length close to what remains
        2 => (prop::sample::select(vec![0u8, 1, 2, 3, 0x10, 0x11, 0x12, 0x13]), ext_u16(), 0u16..40, prop::collection::vec(any::<u8>(), 0..40), -2i32..3)
            .prop_map(|(rcb, mbs, pad, tail, delta)| {
                let mut v = vec![0x10, rcb];
                v.extend_from_slice(&mbs.to_le_bytes());
                let w = if rcb & 0x10 != 0 { 8 } else { 4 };
                let n = (if rcb & 1 != 0 { w } else { 0 }) + (if rcb & 2 != 0 { w } else { 0 });
                v.extend(std::iter::repeat(pad as u8).take(n));
                let fdl = (tail.len() as i32 + delta).clamp(0, 0xffff) as u16;
                v.extend_from_slice(&fdl.to_le_bytes());
                v.extend_from_slice(&tail);
                v
            }),
        1 => prop::collection::vec(any::<u8>(), 0..16),
        1 => (Just(0xffu8), Just(0xffu8)).prop_map(|(a, b)| vec![0x10, 0, 0, 2, a, b, 1, 2, 3]),
    ]
}

fn bdx_fuzz() -> impl Strategy<Value = Src<BdxMsg>> {
    src(
        bdx_raw(),
        prop_oneof![
            init_case().prop_map(BdxMsg::Init),
            accept_case().prop_map(BdxMsg::Accept),
            block_case().prop_map(BdxMsg::Block),
        ],
    )
}

/// `a == b` except for the reserved bits of the first control byte(s).
fn eq_modulo_reserved(a: &[u8], b: &[u8], masks: &[u8]) -> bool {
    a.len() == b.len()
        && a.iter()
            .zip(b.iter())
            .enumerate()
            .all(|(i, (x, y))| match masks.get(i) {
                Some(m) => x & m == y & m,
                None => x == y,
            })
}

fn check_bdx_fuzz(s: &Src<BdxMsg>) -> Case {
    let (bytes, pristine_kind) = match s {
        Src::Raw(b) => (b.clone(), None),
        Src::Mutated { base, muts } => {
            let orig = match base {
                BdxMsg::Init(c) => encode_init(c, init_len(c)),
                BdxMsg::Accept(c) => encode_accept(c, accept_len(c)),
                BdxMsg::Block(c) => encode_block(c, block_len(c)),
            };
            let orig = match orig {
                Ok(b) => b,
                Err(e) => return Case::fail("bdx:encode-failed", format!("fuzz base failed to encode: {e}")),
            };
            let mut b = orig.clone();
            apply_muts(&mut b, muts);
            let kind = if b == orig {
                Some(match base {
                    BdxMsg::Init(_) => 0u8,
                    BdxMsg::Accept(c) => 1 + c.receive as u8,
                    BdxMsg::Block(c) => 3 + c.kind,
                })
            } else {
                None
            };
            (b, kind)
        }
    };
    let mut labels: Vec<&'static str> = Vec::new();
    let mut buf = vec![0u8; bytes.len() + 32];

    // Every BDX parser sees every input.
    match TransferInit::parse(&bytes) {
        Ok(p) => {
            labels.push("init:Ok");
            if !vh::util::within(&bytes, p.file_designator) || !vh::util::within(&bytes, p.metadata) {
                return Case::fail("bdx-init:slice-outside-input", hex(&bytes));
            }
            let mut wb = WriteBuf::new(&mut buf);
            if let Err(e) = p.write(&mut wb) {
                return Case::fail("bdx-init:reencode-failed", format!("{:?} for {p:?}", e.code()));
            }
            if !eq_modulo_reserved(wb.as_slice(), &bytes, &[0x7f, 0x13]) {
                return Case::fail(
                    "bdx-init:reencode-differs",
                    format!("{} decodes to {p:?} which encodes to {}", hex(&bytes), hex(wb.as_slice())),
                );
            }
        }
        Err(_) => {
            if pristine_kind == Some(0) {
                return Case::fail("bdx-init:decode-failed", format!("unmodified {} refused", hex(&bytes)));
            }
        }
    }
    for receive in [false, true] {
        match TransferAccept::parse(receive, &bytes) {
            Ok(p) => {
                labels.push(if receive { "receive-accept:Ok" } else { "send-accept:Ok" });
                if p.receive != receive || !vh::util::within(&bytes, p.metadata) {
                    return Case::fail("bdx-accept:inconsistent", format!("{p:?} from {}", hex(&bytes)));
                }
                let mut wb = WriteBuf::new(&mut buf);
                if let Err(e) = p.write(&mut wb) {
                    return Case::fail("bdx-accept:reencode-failed", format!("{:?} for {p:?}", e.code()));
                }
                let masks: &[u8] = if receive { &[0x7f, 0x13] } else { &[0x7f] };
                if !eq_modulo_reserved(wb.as_slice(), &bytes, masks) {
                    return Case::fail(
                        "bdx-accept:reencode-differs",
                        format!("{} decodes to {p:?} which encodes to {}", hex(&bytes), hex(wb.as_slice())),
                    );
                }
            }
            Err(_) => {
                if pristine_kind == Some(1 + receive as u8) {
                    return Case::fail("bdx-accept:decode-failed", format!("unmodified {} refused", hex(&bytes)));
                }
            }
        }
    }
    match Block::parse(&bytes) {
        Ok(p) => {
            labels.push("block:Ok");
            let mut wb = WriteBuf::new(&mut buf);
            if let Err(e) = p.write(&mut wb) {
                return Case::fail("bdx-block:reencode-failed", format!("{:?}", e.code()));
            }
            if wb.as_slice() != &bytes[..] {
                return Case::fail("bdx-block:reencode-differs", format!("{} -> {p:?} -> {}", hex(&bytes), hex(wb.as_slice())));
            }
        }
        Err(_) => {
            if pristine_kind == Some(3) {
                return Case::fail("bdx-block:decode-failed", format!("unmodified {} refused", hex(&bytes)));
            }
        }
    }
    match BlockQuery::parse(&bytes) {
        Ok(p) => {
            labels.push("query:Ok");
            let mut wb = WriteBuf::new(&mut buf);
            if let Err(e) = p.write(&mut wb) {
                return Case::fail("bdx-query:reencode-failed", format!("{:?}", e.code()));
            }
            if bytes.len() < 4 || wb.as_slice() != &bytes[..4] {
                return Case::fail("bdx-query:reencode-differs", format!("{} -> {p:?} -> {}", hex(&bytes), hex(wb.as_slice())));
            }
        }
        Err(_) => {
            if pristine_kind == Some(4) {
                return Case::fail("bdx-query:decode-failed", format!("unmodified {} refused", hex(&bytes)));
            }
        }
    }
    match BlockQueryWithSkip::parse(&bytes) {
        Ok(p) => {
            labels.push("skip:Ok");
            let mut wb = WriteBuf::new(&mut buf);
            if let Err(e) = p.write(&mut wb) {
                return Case::fail("bdx-skip:reencode-failed", format!("{:?}", e.code()));
            }
            if bytes.len() < 12 || wb.as_slice() != &bytes[..12] {
                return Case::fail("bdx-skip:reencode-differs", format!("{} -> {p:?} -> {}", hex(&bytes), hex(wb.as_slice())));
            }
        }
        Err(_) => {
            if pristine_kind == Some(5) {
                return Case::fail("bdx-skip:decode-failed", format!("unmodified {} refused", hex(&bytes)));
            }
        }
    }
    let nt = !labels.is_empty();
    if labels.is_empty() {
        labels.push("all:Err");
    }
    Case::pass(nt).labels(labels)
}

// ---------------------------------------------------------------------------------------------
// Check-In
// ---------------------------------------------------------------------------------------------

#[derive(Debug, Clone, Serialize, Deserialize)]
enum CiNeg {
    None,
    WrongKey { idx: u8, xor: u8 },
    Flip { pos: u16, bit: u8 },
    Truncate { by: u16 },
    Extend(Vec<u8>),
    /// a message whose nonce was derived from another counter than the one it carries
    ForeignNonce { other_counter: u32 },
    /// a message whose nonce is arbitrary
    RandomNonce(Vec<u8>),
    /// a correctly authenticated message whose plaintext is too short to hold a counter
    ShortBody { nonce: Vec<u8>, body: Vec<u8> },
}

#[derive(Debug, Clone, Serialize, Deserialize)]
struct CheckInCase {
    key: Vec<u8>,
    counter: u32,
    app_data: Vec<u8>,
    /// output buffer = payload_len + extra_room, or payload_len - short_by if short_by > 0
    extra_room: u8,
    short_by: u8,
    neg: CiNeg,
}

fn checkin_case() -> impl Strategy<Value = CheckInCase> {
    let neg = prop_oneof![
        2 => Just(CiNeg::None),
        1 => (0u8..16, 1u8..=255).prop_map(|(idx, xor)| CiNeg::WrongKey { idx, xor }),
        3 => (any::<u16>(), 0u8..8).prop_map(|(pos, bit)| CiNeg::Flip { pos, bit }),
        1 => prop_oneof![Just(0u16), any::<u16>()].prop_map(|by| CiNeg::Truncate { by }),
        1 => prop::collection::vec(any::<u8>(), 1..20).prop_map(CiNeg::Extend),
        2 => ext_u32().prop_map(|other_counter| CiNeg::ForeignNonce { other_counter }),
        1 => prop::collection::vec(any::<u8>(), AEAD_NONCE_LEN).prop_map(CiNeg::RandomNonce),
        1 => (prop::collection::vec(any::<u8>(), AEAD_NONCE_LEN), prop::collection::vec(any::<u8>(), 0..4))
            .prop_map(|(nonce, body)| CiNeg::ShortBody { nonce, body }),
    ];
    (
        key16(),
        ext_u32(),
        prop_oneof![
            2 => Just(Vec::new()),
            8 => prop::collection::vec(any::<u8>(), 0..40),
            2 => prop::collection::vec(any::<u8>(), 40..200),
            1 => prop::collection::vec(any::<u8>(), 900..1000),
        ],
        prop_oneof![2 => Just(0u8), 1 => any::<u8>()],
        prop_oneof![5 => Just(0u8), 1 => 1u8..40],
        neg,
    )
        .prop_map(|(key, counter, app_data, extra_room, short_by, neg)| CheckInCase {
            key,
            counter,
            app_data,
            extra_room,
            short_by,
            neg,
        })
}

fn checkin_generate(key: &[u8; 16], counter: u32, app: &[u8], cap: usize) -> Result<Vec<u8>, String> {
    let crypto = test_only_crypto();
    let ci = CheckIn::new(CanonAeadKeyRef::new(key));
    let mut buf = vec![0x5au8; cap];
    let r = match ci.generate(&crypto, counter, app, &mut buf) {
        Ok(out) => Ok(out.to_vec()),
        Err(e) => Err(format!("{:?}", e.code())),
    };
    r
}

fn checkin_parse(key: &[u8; 16], msg: &[u8]) -> Result<(u32, Vec<u8>), String> {
    let crypto = test_only_crypto();
    let ci = CheckIn::new(CanonAeadKeyRef::new(key));
    let mut copy = msg.to_vec();
    let r = match ci.parse(&crypto, &mut copy) {
        Ok(p) => Ok((p.counter, p.app_data.to_vec())),
        Err(e) => Err(format!("{:?}", e.code())),
    };
    r
}

/// Encrypt `counter || app` under `nonce` exactly as a Check-In sender would, but with a nonce
/// of the harness's choice (uses only the public AEAD of the crypto backend).
fn checkin_forge(key: &[u8; 16], nonce: &[u8; AEAD_NONCE_LEN], counter: u32, app: &[u8]) -> Result<Vec<u8>, String> {
    let mut body = counter.to_le_bytes().to_vec();
    body.extend_from_slice(app);
    checkin_forge_raw(key, nonce, body)
}

fn checkin_forge_raw(key: &[u8; 16], nonce: &[u8; AEAD_NONCE_LEN], mut body: Vec<u8>) -> Result<Vec<u8>, String> {
    let crypto = test_only_crypto();
    let mut msg = nonce.to_vec();
    let plain_len = body.len();
    body.extend_from_slice(&[0u8; AEAD_TAG_LEN]);
    let mut aead = crypto.aead().map_err(|e| format!("{:?}", e.code()))?;
    aead.encrypt_in_place(
        CanonAeadKeyRef::new(key),
        CryptoSensitiveRef::new(nonce),
        &[],
        &mut body,
        plain_len,
    )
    .map_err(|e| format!("{:?}", e.code()))?;
    msg.extend_from_slice(&body);
    Ok(msg)
}

fn check_checkin(c: &CheckInCase) -> Case {
    let Some(key) = key_arr(&c.key) else {
        return Case::inconclusive("key is not 16 bytes");
    };
    let need = AEAD_NONCE_LEN + 4 + AEAD_TAG_LEN + c.app_data.len();
    ensure_eq!("checkin:payload_len", "CheckIn::payload_len", CheckIn::payload_len(c.app_data.len()), need);

    // too small an output buffer is an error
    if c.short_by > 0 {
        let cap = need.saturating_sub(c.short_by as usize);
        return match checkin_generate(&key, c.counter, &c.app_data, cap) {
            Ok(out) => Case::fail("checkin:generate-without-room", format!("{} bytes produced into {cap} (need {need})", out.len())),
            Err(_) => Case::pass(false).label("no-room=>Err"),
        };
    }

    let msg = match checkin_generate(&key, c.counter, &c.app_data, need + c.extra_room as usize) {
        Ok(m) => m,
        Err(e) => return Case::fail("checkin:generate-failed", e),
    };
    ensure_eq!("checkin:encoded-length", "message length", msg.len(), need);
    match checkin_parse(&key, &msg) {
        Ok((ctr, app)) => {
            ensure_eq!("checkin:field-mismatch:counter", "counter", ctr, c.counter);
            if app != c.app_data {
                return Case::fail("checkin:field-mismatch:app_data", format!("{} != {}", hex(&app), hex(&c.app_data)));
            }
        }
        Err(e) => return Case::fail("checkin:parse-failed", format!("{e} on {}", hex(&msg))),
    }
    // the generator is a function of (key, counter, app data)
    match checkin_generate(&key, c.counter, &c.app_data, need) {
        Ok(m2) => {
            if m2 != msg {
                return Case::fail("checkin:not-deterministic", format!("{} vs {}", hex(&msg), hex(&m2)));
            }
        }
        Err(e) => return Case::fail("checkin:generate-failed", e),
    }

    let mut key2 = key;
    let mut msg2 = msg.clone();
    let what = match &c.neg {
        CiNeg::None => None,
        CiNeg::WrongKey { idx, xor } => {
            key2[*idx as usize % 16] ^= (*xor).max(1);
            Some("wrong-key")
        }
        CiNeg::Flip { pos, bit } => {
            let i = pick(*pos, msg2.len());
            msg2[i] ^= 1 << (bit & 7);
            Some("bit-flip")
        }
        CiNeg::Truncate { by } => {
            let by = 1 + pick(*by, msg2.len());
            msg2.truncate(msg2.len() - by);
            Some("truncated")
        }
        CiNeg::Extend(v) => {
            msg2.extend_from_slice(v);
            Some("extended")
        }
        CiNeg::ForeignNonce { other_counter } => {
            if *other_counter == c.counter {
                None
            } else {
                // the nonce the sender derives for `other_counter` ...
                let other = match checkin_generate(&key, *other_counter, &[], need) {
                    Ok(m) => m,
                    Err(e) => return Case::fail("checkin:generate-failed", e),
                };
                let Ok(nonce) = <[u8; AEAD_NONCE_LEN]>::try_from(&other[..AEAD_NONCE_LEN]) else {
                    return Case::inconclusive("nonce slice");
                };
                // ... around a correctly encrypted and authenticated body carrying `counter`
                msg2 = match checkin_forge(&key, &nonce, c.counter, &c.app_data) {
                    Ok(m) => m,
                    Err(e) => return Case::inconclusive(format!("forge failed: {e}")),
                };
                Some("wrong-counter")
            }
        }
        CiNeg::RandomNonce(n) => {
            let Ok(nonce) = <[u8; AEAD_NONCE_LEN]>::try_from(&n[..]) else {
                return Case::inconclusive("nonce is not 13 bytes");
            };
            if nonce[..] == msg[..AEAD_NONCE_LEN] {
                None
            } else {
                msg2 = match checkin_forge(&key, &nonce, c.counter, &c.app_data) {
                    Ok(m) => m,
                    Err(e) => return Case::inconclusive(format!("forge failed: {e}")),
                };
                Some("wrong-nonce")
            }
        }
        CiNeg::ShortBody { nonce, body } => {
            let Ok(nonce) = <[u8; AEAD_NONCE_LEN]>::try_from(&nonce[..]) else {
                return Case::inconclusive("nonce is not 13 bytes");
            };
            msg2 = match checkin_forge_raw(&key, &nonce, body.iter().copied().take(3).collect()) {
                Ok(m) => m,
                Err(e) => return Case::inconclusive(format!("forge failed: {e}")),
            };
            Some("authentic-but-short")
        }
    };
    let mut labels = Vec::new();
    if let Some(what) = what {
        if let Ok((ctr, app)) = checkin_parse(&key2, &msg2) {
            return Case::fail(
                format!("checkin:{what}-accepted"),
                format!("{what} ({:?}): {} parsed to counter {ctr} app {}", c.neg, hex(&msg2), hex(&app)),
            );
        }
        labels.push(what);
        // sanity of the forgery: with the genuine nonce the forged message is the genuine one
        if what == "wrong-counter" || what == "wrong-nonce" {
            let Ok(nonce) = <[u8; AEAD_NONCE_LEN]>::try_from(&msg[..AEAD_NONCE_LEN]) else {
                return Case::inconclusive("nonce slice");
            };
            match checkin_forge(&key, &nonce, c.counter, &c.app_data) {
                Ok(m) if m == msg => {}
                Ok(_) => return Case::inconclusive("the harness's forger does not reproduce genuine messages"),
                Err(e) => return Case::inconclusive(format!("forge failed: {e}")),
            }
        }
    }
    labels.push(if c.app_data.is_empty() { "no-app-data" } else { "app-data" });
    let nt = !c.app_data.is_empty() && (is_ext_u32(c.counter) || c.app_data.len() >= 900 || what.is_some());
    Case::pass(nt).labels(labels)
}

#[derive(Debug, Clone, Serialize, Deserialize)]
struct CheckInFuzz {
    key: Vec<u8>,
    bytes: Vec<u8>,
}

fn checkin_fuzz() -> impl Strategy<Value = CheckInFuzz> {
    (
        key16(),
        prop_oneof![
            2 => prop::collection::vec(any::<u8>(), 0..40),
            3 => prop::collection::vec(any::<u8>(), 31..36),
            3 => prop::collection::vec(any::<u8>(), 33..90),
        ],
    )
        .prop_map(|(key, bytes)| CheckInFuzz { key, bytes })
}

fn check_checkin_fuzz(f: &CheckInFuzz) -> Case {
    let Some(key) = key_arr(&f.key) else {
        return Case::inconclusive("key is not 16 bytes");
    };
    let first_stage = f.bytes.len() >= AEAD_NONCE_LEN + 4 + AEAD_TAG_LEN;
    match checkin_parse(&key, &f.bytes) {
        Err(_) => Case::pass(first_stage).label(if first_stage { "long-enough:Err" } else { "short:Err" }),
        Ok((ctr, app)) => {
            // (practically unreachable) whatever authenticates must be what the generator emits
            match checkin_generate(&key, ctr, &app, f.bytes.len()) {
                Ok(m) if m == f.bytes => Case::pass(true).label("accepted"),
                other => Case::fail(
                    "checkin:accepted-foreign-bytes",
                    format!("{} parsed to ({ctr}, {}), which generates {other:?}", hex(&f.bytes), hex(&app)),
                ),
            }
        }
    }
}

// ---------------------------------------------------------------------------------------------
// WriteBuf against a byte-image + cursors model
// ---------------------------------------------------------------------------------------------

#[derive(Debug, Clone, Serialize, Deserialize)]
enum WOp {
    U8(u8),
    I8(i8),
    U16(u16),
    I16(i16),
    U32(u32),
    I32(i32),
    U64(u64),
    I64(i64),
    Append(Vec<u8>),
    CopyFromSlice(Vec<u8>),
    Prepend(Vec<u8>),
    /// `fmt::Write::write_str` of an ASCII string
    Str(Vec<u8>),
    /// `append_with_buf`: the callback fills `k` of the offered bytes (or fails)
    AppendWithBuf { k: u16, fill: u8, fail: bool },
    /// `append_with(size, f)` where `f` fills the first `size` empty bytes
    AppendWith { size: u8, fill: u8 },
    /// `prepend_with(size, f)` with a no-op `f`
    PrependWith { size: u8 },
    /// `rewind_tail_to(anchor)`, anchor inside the written data
    Rewind { anchor: u16 },
    /// fill `n` empty bytes through `empty_as_mut_slice`, then `forward_tail_by(n)`
    Forward { n: u16, fill: u8 },
    Shrink(u8),
    Expand(u8),
    Reset,
    /// `reserve` (only issued when the buffer is pristine)
    Reserve(u8),
    /// `load` from another buffer (reserve, then data)
    Load { cap: u8, reserve: u8, data: Vec<u8> },
    /// poke one written byte through `as_mut_slice`
    Poke { pos: u16, val: u8 },
}

#[derive(Debug, Clone, Serialize, Deserialize)]
struct WCase {
    cap: u8,
    fill: u8,
    reserve: Option<u8>,
    ops: Vec<WOp>,
    /// 0: into_buf, 1: split, 2: split_str (falls back to split if not ASCII)
    finish: u8,
}

fn small_bytes() -> impl Strategy<Value = Vec<u8>> {
    prop_oneof![
        1 => Just(Vec::new()),
        6 => prop::collection::vec(any::<u8>(), 0..10),
        1 => prop::collection::vec(any::<u8>(), 10..40),
    ]
}

fn wop() -> impl Strategy<Value = WOp> {
    prop_oneof![
        2 => any::<u8>().prop_map(WOp::U8),
        1 => any::<i8>().prop_map(WOp::I8),
        2 => ext_u16().prop_map(WOp::U16),
        1 => any::<i16>().prop_map(WOp::I16),
        2 => ext_u32().prop_map(WOp::U32),
        1 => any::<i32>().prop_map(WOp::I32),
        2 => ext_u64().prop_map(WOp::U64),
        1 => any::<i64>().prop_map(WOp::I64),
        3 => small_bytes().prop_map(WOp::Append),
        1 => small_bytes().prop_map(WOp::CopyFromSlice),
        3 => small_bytes().prop_map(WOp::Prepend),
        1 => prop::collection::vec(0x20u8..0x7f, 0..12).prop_map(WOp::Str),
        2 => (any::<u16>(), any::<u8>(), prop::bool::weighted(0.15)).prop_map(|(k, fill, fail)| WOp::AppendWithBuf { k, fill, fail }),
        1 => (0u8..12, any::<u8>()).prop_map(|(size, fill)| WOp::AppendWith { size, fill }),
        1 => (0u8..12).prop_map(|size| WOp::PrependWith { size }),
        2 => any::<u16>().prop_map(|anchor| WOp::Rewind { anchor }),
        1 => (any::<u16>(), any::<u8>()).prop_map(|(n, fill)| WOp::Forward { n, fill }),
        1 => (0u8..20).prop_map(WOp::Shrink),
        1 => (0u8..20).prop_map(WOp::Expand),
        1 => Just(WOp::Reset),
        1 => (0u8..70).prop_map(WOp::Reserve),
        1 => (0u8..70, 0u8..20, small_bytes()).prop_map(|(cap, reserve, data)| WOp::Load { cap, reserve, data }),
        1 => (any::<u16>(), any::<u8>()).prop_map(|(pos, val)| WOp::Poke { pos, val }),
    ]
}

fn wcase() -> impl Strategy<Value = WCase> {
    (
        prop_oneof![1 => Just(0u8), 1 => Just(1u8), 6 => 0u8..=64],
        any::<u8>(),
        prop::option::weighted(0.8, prop_oneof![3 => 0u8..=30, 1 => 0u8..=70]),
        prop::collection::vec(wop(), 0..24),
        0u8..3,
    )
        .prop_map(|(cap, fill, reserve, ops, finish)| WCase { cap, fill, reserve, ops, finish })
}

struct WModel {
    img: Vec<u8>,
    start: usize,
    end: usize,
    limit: usize,
}

impl WModel {
    fn append(&mut self, b: &[u8]) -> bool {
        if self.end + b.len() <= self.limit {
            self.img[self.end..self.end + b.len()].copy_from_slice(b);
            self.end += b.len();
            true
        } else {
            false
        }
    }
    fn prepend(&mut self, b: &[u8]) -> bool {
        if b.len() <= self.start {
            self.start -= b.len();
            self.img[self.start..self.start + b.len()].copy_from_slice(b);
            true
        } else {
            false
        }
    }
    fn pristine(&self) -> bool {
        self.start == 0 && self.end == 0 && self.limit == self.img.len()
    }
}

fn check_writebuf(c: &WCase) -> Case {
    let cap = c.cap as usize;
    let mut backing = vec![c.fill; cap];
    let mut m = WModel { img: backing.clone(), start: 0, end: 0, limit: cap };
    let mut wb = WriteBuf::new(&mut backing);
    let mut failed_ops = 0;
    let mut prepends = 0;
    let mut labels: Vec<&'static str> = Vec::new();

    macro_rules! outcome {
        ($i:expr, $name:expr, $got:expr, $exp:expr) => {
            let got: bool = $got;
            let exp: bool = $exp;
            if got != exp {
                return Case::fail(
                    format!("writebuf:{}:{}", $name, if got { "unexpected-ok" } else { "unexpected-err" }),
                    format!("step {}: {} returned ok={got}, model ok={exp} (start {}, end {}, limit {}, cap {cap})", $i, $name, m.start, m.end, m.limit),
                );
            }
            if !exp {
                failed_ops += 1;
            }
        };
    }

    if let Some(r) = c.reserve {
        let r = r as usize;
        let exp = r <= cap;
        if exp {
            m.start = r;
            m.end = r;
        }
        outcome!("init", "reserve", wb.reserve(r).is_ok(), exp);
    }

    for (i, op) in c.ops.iter().enumerate() {
        let name: &'static str;
        match op {
            WOp::U8(v) => { name = "le_u8"; let e = m.append(&v.to_le_bytes()); outcome!(i, name, wb.le_u8(*v).is_ok(), e); }
            WOp::I8(v) => { name = "le_i8"; let e = m.append(&v.to_le_bytes()); outcome!(i, name, wb.le_i8(*v).is_ok(), e); }
            WOp::U16(v) => { name = "le_u16"; let e = m.append(&v.to_le_bytes()); outcome!(i, name, wb.le_u16(*v).is_ok(), e); }
            WOp::I16(v) => { name = "le_i16"; let e = m.append(&v.to_le_bytes()); outcome!(i, name, wb.le_i16(*v).is_ok(), e); }
            WOp::U32(v) => { name = "le_u32"; let e = m.append(&v.to_le_bytes()); outcome!(i, name, wb.le_u32(*v).is_ok(), e); }
            WOp::I32(v) => { name = "le_i32"; let e = m.append(&v.to_le_bytes()); outcome!(i, name, wb.le_i32(*v).is_ok(), e); }
            WOp::U64(v) => { name = "le_u64"; let e = m.append(&v.to_le_bytes()); outcome!(i, name, wb.le_u64(*v).is_ok(), e); }
            WOp::I64(v) => { name = "le_i64"; let e = m.append(&v.to_le_bytes()); outcome!(i, name, wb.le_i64(*v).is_ok(), e); }
            WOp::Append(b) => { name = "append"; let e = m.append(b); outcome!(i, name, wb.append(b).is_ok(), e); }
            WOp::CopyFromSlice(b) => { name = "copy_from_slice"; let e = m.append(b); outcome!(i, name, wb.copy_from_slice(b).is_ok(), e); }
            WOp::Prepend(b) => {
                name = "prepend";
                let e = m.prepend(b);
                if e && !b.is_empty() { prepends += 1; }
                outcome!(i, name, wb.prepend(b).is_ok(), e);
            }
            WOp::Str(b) => {
                name = "write_str";
                let s = String::from_utf8_lossy(b).into_owned();
                let e = m.append(s.as_bytes());
                outcome!(i, name, wb.write_str(&s).is_ok(), e);
            }
            WOp::AppendWithBuf { k, fill, fail } => {
                name = "append_with_buf";
                let avail = m.limit - m.end;
                let k = pick(*k, avail + 1);
                let mut offered = usize::MAX;
                let r = wb.append_with_buf(|buf| {
                    offered = buf.len();
                    if *fail {
                        return Err(rs_matter::error::ErrorCode::Invalid.into());
                    }
                    let k = k.min(buf.len());
                    buf[..k].fill(*fill);
                    Ok(k)
                });
                ensure_eq!("writebuf:append_with_buf:offered-space", format!("step {i}: space offered to the callback"), offered, avail);
                if !*fail {
                    let e = m.append(&vec![*fill; k]);
                    if r.as_ref().ok() != Some(&k) || !e {
                        return Case::fail("writebuf:append_with_buf:result", format!("step {i}: returned {:?}, expected Ok({k})", r.map_err(|e| e.code())));
                    }
                } else if r.is_ok() {
                    return Case::fail("writebuf:append_with_buf:error-swallowed", format!("step {i}"));
                }
            }
            WOp::AppendWith { size, fill } => {
                name = "append_with";
                let size = *size as usize;
                let e = m.append(&vec![*fill; size]);
                let r = wb.append_with(size, |x| {
                    let s = x.empty_as_mut_slice();
                    s[..size].fill(*fill);
                });
                outcome!(i, name, r.is_ok(), e);
            }
            WOp::PrependWith { size } => {
                name = "prepend_with";
                let size = *size as usize;
                let e = size <= m.start;
                if e { m.start -= size; }
                outcome!(i, name, wb.prepend_with(size, |_| {}).is_ok(), e);
            }
            WOp::Rewind { anchor } => {
                name = "rewind_tail_to";
                let a = m.start + pick(*anchor, m.end - m.start + 1);
                m.end = a;
                wb.rewind_tail_to(a);
            }
            WOp::Forward { n, fill } => {
                name = "forward_tail_by";
                let n = pick(*n, m.limit - m.end + 1);
                wb.empty_as_mut_slice()[..n].fill(*fill);
                wb.forward_tail_by(n);
                m.img[m.end..m.end + n].fill(*fill);
                m.end += n;
            }
            WOp::Shrink(n) => {
                name = "shrink";
                let n = *n as usize;
                let e = m.end + n <= m.limit;
                if e { m.limit -= n; }
                outcome!(i, name, wb.shrink(n).is_ok(), e);
            }
            WOp::Expand(n) => {
                name = "expand";
                let n = *n as usize;
                let e = cap - m.limit >= n;
                if e { m.limit += n; }
                outcome!(i, name, wb.expand(n).is_ok(), e);
            }
            WOp::Reset => {
                name = "reset";
                wb.reset();
                m.start = 0;
                m.end = 0;
                m.limit = cap;
            }
            WOp::Reserve(r) => {
                name = "reserve";
                if !m.pristine() {
                    continue; // only meaningful (and only used) on a pristine buffer
                }
                let r = *r as usize;
                let e = r <= cap;
                if e { m.start = r; m.end = r; }
                outcome!(i, name, wb.reserve(r).is_ok(), e);
            }
            WOp::Load { cap: ocap, reserve, data } => {
                name = "load";
                let mut obuf = vec![!c.fill; *ocap as usize];
                let mut other = WriteBuf::new(&mut obuf);
                let _ = other.reserve(*reserve as usize);
                let _ = other.append(data);
                let (os, oe) = (other.get_start(), other.get_tail());
                let odata = other.as_slice().to_vec();
                let r = wb.load(&other).is_ok();
                if oe > cap {
                    outcome!(i, name, r, false);
                } else if oe > m.limit {
                    // more than the (shrunk) space but not more than the buffer: not specified
                    if r {
                        return Case::inconclusive("load beyond a shrunk limit accepted: unspecified, model cannot follow");
                    }
                } else {
                    outcome!(i, name, r, true);
                    // content outside [start, end) of the source is unspecified in the image:
                    // take what the implementation did for [0, start) and require the data
                    let ohead = other.into_buf()[..os].to_vec();
                    m.img[..os].copy_from_slice(&ohead);
                    m.img[os..oe].copy_from_slice(&odata);
                    m.start = os;
                    m.end = oe;
                    labels.push("load");
                }
            }
            WOp::Poke { pos, val } => {
                name = "as_mut_slice";
                if m.end > m.start {
                    let p = pick(*pos, m.end - m.start);
                    wb.as_mut_slice()[p] = *val;
                    m.img[m.start + p] = *val;
                }
            }
        }
        if wb.get_start() != m.start || wb.get_tail() != m.end {
            return Case::fail(
                format!("writebuf:{name}:cursors"),
                format!("step {i} ({op:?}): start/end = {}/{}, model {}/{}", wb.get_start(), wb.get_tail(), m.start, m.end),
            );
        }
        if wb.as_slice() != &m.img[m.start..m.end] {
            return Case::fail(
                format!("writebuf:{name}:content"),
                format!("step {i} ({op:?}): as_slice {} != model {}", hex(wb.as_slice()), hex(&m.img[m.start..m.end])),
            );
        }
        let avail = wb.empty_as_mut_slice().len();
        if avail != m.limit - m.end {
            return Case::fail(
                format!("writebuf:{name}:space"),
                format!("step {i} ({op:?}): empty space {avail}, model {}", m.limit - m.end),
            );
        }
    }

    let ascii = m.img[..m.end].iter().all(|b| b.is_ascii());
    match c.finish {
        0 => {
            let img = wb.into_buf();
            if img != &m.img[..] {
                return Case::fail("writebuf:into_buf:image", format!("buffer {} != model {}", hex(img), hex(&m.img)));
            }
        }
        f => {
            let (head, tail_len, tail_empty) = if f == 2 && ascii {
                let (s, t) = wb.split_str();
                labels.push("split_str");
                (s.as_bytes().to_vec(), t.as_slice().len(), { let mut t = t; t.empty_as_mut_slice().len() })
            } else {
                let (h, t) = wb.split();
                labels.push("split");
                (h.to_vec(), t.as_slice().len(), { let mut t = t; t.empty_as_mut_slice().len() })
            };
            if head != m.img[..m.end] {
                return Case::fail("writebuf:split:head", format!("head {} != model {}", hex(&head), hex(&m.img[..m.end])));
            }
            if tail_len != 0 || (m.limit == cap && tail_empty != cap - m.end) {
                return Case::fail("writebuf:split:tail", format!("tail has {tail_len} bytes of data and {tail_empty} of space; expected 0 and {}", cap - m.end));
            }
        }
    }
    if failed_ops > 0 {
        labels.push("some-op-refused");
    }
    if prepends > 0 {
        labels.push("prepend");
    }
    Case::pass(failed_ops > 0 && prepends > 0 && c.ops.len() >= 4).labels(labels)
}

// ---------------------------------------------------------------------------------------------
// ReadBuf / ParseBuf against a slice + cursors model
// ---------------------------------------------------------------------------------------------

#[derive(Debug, Clone, Serialize, Deserialize)]
enum POp {
    U8,
    U16,
    U32,
    U64,
    Arr3,
    Arr7,
    HeadWith(u8),
    Tail(u8),
    /// `set_len(n)` with n <= what is left
    SetLen(u16),
    Reset,
    Poke { pos: u16, val: u8 },
    /// `load` from another buffer that has consumed `head` bytes and dropped `tail` bytes
    Load { data: Vec<u8>, head: u8, tail: u8 },
}

#[derive(Debug, Clone, Serialize, Deserialize)]
struct PCase {
    data: Vec<u8>,
    ops: Vec<POp>,
}

fn pop() -> impl Strategy<Value = POp> {
    prop_oneof![
        3 => Just(POp::U8),
        3 => Just(POp::U16),
        3 => Just(POp::U32),
        3 => Just(POp::U64),
        1 => Just(POp::Arr3),
        1 => Just(POp::Arr7),
        2 => (0u8..12).prop_map(POp::HeadWith),
        3 => (0u8..20).prop_map(POp::Tail),
        1 => any::<u16>().prop_map(POp::SetLen),
        1 => Just(POp::Reset),
        1 => (any::<u16>(), any::<u8>()).prop_map(|(pos, val)| POp::Poke { pos, val }),
        1 => (small_bytes(), 0u8..8, 0u8..8).prop_map(|(data, head, tail)| POp::Load { data, head, tail }),
    ]
}

fn pcase() -> impl Strategy<Value = PCase> {
    (
        prop_oneof![
            1 => Just(Vec::new()),
            6 => prop::collection::vec(any::<u8>(), 0..40),
            1 => prop::collection::vec(any::<u8>(), 40..100),
        ],
        prop::collection::vec(pop(), 0..24),
    )
        .prop_map(|(data, ops)| PCase { data, ops })
}

fn check_parsebuf(c: &PCase) -> Case {
    let mut backing = c.data.clone();
    let mut data = c.data.clone(); // model image
    let (mut off, mut left) = (0usize, data.len());
    let mut pb = ParseBuf::new(&mut backing);
    let mut refused = 0;
    let mut tails = 0;

    macro_rules! read_int {
        ($i:expr, $name:expr, $n:expr, $call:expr, $ty:ty) => {{
            let r = $call;
            if left >= $n {
                let mut a = [0u8; $n];
                a.copy_from_slice(&data[off..off + $n]);
                let exp = <$ty>::from_le_bytes(a);
                match r {
                    Ok(v) if v == exp => {}
                    Ok(v) => return Case::fail(concat!("parsebuf:", $name, ":value"), format!("step {}: got {v:#x}, expected {exp:#x}", $i)),
                    Err(e) => return Case::fail(concat!("parsebuf:", $name, ":unexpected-err"), format!("step {}: {:?} with {left} bytes left", $i, e.code())),
                }
                off += $n;
                left -= $n;
            } else {
                if r.is_ok() {
                    return Case::fail(concat!("parsebuf:", $name, ":unexpected-ok"), format!("step {}: Ok with {left} bytes left", $i));
                }
                refused += 1;
            }
        }};
    }

    for (i, op) in c.ops.iter().enumerate() {
        match op {
            POp::U8 => read_int!(i, "le_u8", 1, pb.le_u8(), u8),
            POp::U16 => read_int!(i, "le_u16", 2, pb.le_u16(), u16),
            POp::U32 => read_int!(i, "le_u32", 4, pb.le_u32(), u32),
            POp::U64 => read_int!(i, "le_u64", 8, pb.le_u64(), u64),
            POp::Arr3 => {
                let r = pb.parse_as_array(|a: [u8; 3]| a);
                if left >= 3 {
                    match r {
                        Ok(a) if a[..] == data[off..off + 3] => {}
                        other => return Case::fail("parsebuf:parse_as_array:value", format!("step {i}: {:?}", other.map_err(|e| e.code()))),
                    }
                    off += 3;
                    left -= 3;
                } else {
                    if r.is_ok() {
                        return Case::fail("parsebuf:parse_as_array:unexpected-ok", format!("step {i}: {left} left"));
                    }
                    refused += 1;
                }
            }
            POp::Arr7 => {
                let r = pb.parse_as_array(|a: [u8; 7]| a);
                if left >= 7 {
                    match r {
                        Ok(a) if a[..] == data[off..off + 7] => {}
                        other => return Case::fail("parsebuf:parse_as_array:value", format!("step {i}: {:?}", other.map_err(|e| e.code()))),
                    }
                    off += 7;
                    left -= 7;
                } else {
                    if r.is_ok() {
                        return Case::fail("parsebuf:parse_as_array:unexpected-ok", format!("step {i}: {left} left"));
                    }
                    refused += 1;
                }
            }
            POp::HeadWith(n) => {
                let n = *n as usize;
                let r = pb.parse_head_with(n, |x| x.as_slice()[..n].to_vec());
                if left >= n {
                    match r {
                        Ok(v) if v[..] == data[off..off + n] => {}
                        other => return Case::fail("parsebuf:parse_head_with:value", format!("step {i}: {:?}", other.map_err(|e| e.code()))),
                    }
                    off += n;
                    left -= n;
                } else {
                    if r.is_ok() {
                        return Case::fail("parsebuf:parse_head_with:unexpected-ok", format!("step {i}: {left} left, {n} wanted"));
                    }
                    refused += 1;
                }
            }
            POp::Tail(n) => {
                let n = *n as usize;
                let r = pb.tail(n).map(|t| t.to_vec());
                if left >= n {
                    match r {
                        Ok(v) if v[..] == data[off + left - n..off + left] => {}
                        other => return Case::fail("parsebuf:tail:value", format!("step {i}: {:?}", other.map_err(|e| e.code()))),
                    }
                    left -= n;
                    if n > 0 {
                        tails += 1;
                    }
                } else {
                    if r.is_ok() {
                        return Case::fail("parsebuf:tail:unexpected-ok", format!("step {i}: {left} left, {n} wanted"));
                    }
                    refused += 1;
                }
            }
            POp::SetLen(n) => {
                let n = pick(*n, left + 1);
                pb.set_len(n);
                left = n;
            }
            POp::Reset => {
                pb.reset();
                off = 0;
                left = data.len();
            }
            POp::Poke { pos, val } => {
                if left > 0 {
                    let p = pick(*pos, left);
                    pb.as_mut_slice()[p] = *val;
                    data[off + p] = *val;
                }
            }
            POp::Load { data: od, head, tail } => {
                let mut other = ReadBuf::new(od.clone());
                let mut oo = 0usize;
                let mut ol = od.len();
                for _ in 0..*head {
                    if other.le_u8().is_ok() {
                        oo += 1;
                        ol -= 1;
                    }
                }
                let t = (*tail as usize).min(ol);
                if other.tail(t).is_ok() {
                    ol -= t;
                }
                let r = pb.load(&other);
                if oo + ol <= data.len() {
                    if let Err(e) = r {
                        return Case::fail("parsebuf:load:unexpected-err", format!("step {i}: {:?}", e.code()));
                    }
                    data[..oo + ol].copy_from_slice(&od[..oo + ol]);
                    off = oo;
                    left = ol;
                } else {
                    if r.is_ok() {
                        return Case::fail("parsebuf:load:unexpected-ok", format!("step {i}: {} bytes into {}", oo + ol, data.len()));
                    }
                    refused += 1;
                }
            }
        }
        if pb.read_off() != off || pb.slice_range() != (off, off + left) {
            return Case::fail(
                "parsebuf:cursors",
                format!("step {i} ({op:?}): read_off {} range {:?}, model off {off} left {left}", pb.read_off(), pb.slice_range()),
            );
        }
        if pb.as_slice() != &data[off..off + left] {
            return Case::fail(
                "parsebuf:as_slice",
                format!("step {i} ({op:?}): {} != model {}", hex(pb.as_slice()), hex(&data[off..off + left])),
            );
        }
        if pb.parsed_as_slice() != &data[..off] {
            return Case::fail(
                "parsebuf:parsed_as_slice",
                format!("step {i} ({op:?}): {} != model {}", hex(pb.parsed_as_slice()), hex(&data[..off])),
            );
        }
    }
    let mut labels = Vec::new();
    if refused > 0 {
        labels.push("some-read-refused");
    }
    if tails > 0 {
        labels.push("tail");
    }
    Case::pass(refused > 0 && tails > 0 && off > 0).labels(labels)
}

// ---------------------------------------------------------------------------------------------

fn main() {
    let mut run = Run::new(
        "C17",
        "exploration",
        "per format: generated legal field values (every optional field present/absent, integers weighted to 0/MAX/byte boundaries, blobs of 0..1200 bytes) encoded by rs-matter and decoded again; plus decoder fuzzing with raw bytes, header-shaped bytes and mutated (flip/set/truncate/append/insert/remove) encodings of legal messages; plus op sequences on WriteBuf/ReadBuf against a byte-image model. Non-trivial: round trips with >= 1 optional field present and >= 1 field at an extreme (0, MAX, empty or maximum-size blob); fuzz cases accepted by the decoder's first stage; buffer sequences with >= 1 refused operation and >= 1 prepend (WriteBuf) / tail (ReadBuf). distinct = distinct serialized case",
    );
    run.assume("the AEAD/HMAC of the rustcrypto backend (crypto::test_only_crypto) are correct: used by the code under test and, for the wrong-counter Check-In probe, by the harness's forger");
    run.assume("AES-CCM forgeries and 13-byte HMAC prefix collisions do not happen by chance (probability <= 2^-100 per case)");
    run.assume("field widths of the Matter message format (node id 8, group id 2, vendor id 2, ack counter 4, BDX 4/8-byte ranges) for the encoded-length checks");
    run.assume("the transport decodes headers into a fresh or reset PacketHdr from a fresh ParseBuf (as Transport::decode_packet does)");

    // headers
    let n = run.cases(100_000, 3_000_000);
    run.prop("hdr-roundtrip-plain", n, || hdr_case(false), check_hdr_roundtrip);
    let n = run.cases(100_000, 3_000_000);
    run.prop("hdr-roundtrip-encrypted", n, || hdr_case(true), check_hdr_roundtrip);
    run.exhaustive("hdr-flag-table", hdr_table(), check_hdr_roundtrip);
    let n = run.cases(600_000, 15_000_000);
    run.prop("hdr-fuzz", n, hdr_fuzz, check_hdr_fuzz);

    // status report
    let n = run.cases(100_000, 2_000_000);
    run.prop("status-roundtrip", n, status_case, check_status_roundtrip);
    let mut items = Vec::new();
    for idx in 0..20u8 {
        for payload in [vec![], vec![0u8], vec![0xff; 40]] {
            items.push(StatusCodeItem { idx, payload });
        }
    }
    run.exhaustive("status-code-table", items, check_status_codes);
    let n = run.cases(600_000, 10_000_000);
    run.prop(
        "status-fuzz",
        n,
        || {
            src(
                prop_oneof![
                    2 => (0u16..20, prop::collection::vec(any::<u8>(), 0..24)).prop_map(|(g, mut r)| { let mut v = g.to_le_bytes().to_vec(); v.append(&mut r); v }),
                    1 => prop::collection::vec(any::<u8>(), 0..24),
                ],
                status_case(),
            )
        },
        check_status_fuzz,
    );

    // BDX
    let n = run.cases(100_000, 3_000_000);
    run.prop("bdx-init-roundtrip", n, init_case, check_bdx_init);
    let n = run.cases(100_000, 2_000_000);
    run.prop("bdx-accept-roundtrip", n, accept_case, check_bdx_accept);
    let n = run.cases(100_000, 2_000_000);
    run.prop("bdx-block-roundtrip", n, block_case, check_bdx_block);
    let n = run.cases(600_000, 15_000_000);
    run.prop("bdx-fuzz", n, bdx_fuzz, check_bdx_fuzz);

    // Check-In
    let n = run.cases(100_000, 3_000_000);
    run.prop("checkin-roundtrip", n, checkin_case, check_checkin);
    let n = run.cases(600_000, 10_000_000);
    run.prop("checkin-fuzz", n, checkin_fuzz, check_checkin_fuzz);

    // MCSP
    let n = run.cases(100_000, 2_000_000);
    run.prop("mcsp", n, mcsp_case, check_mcsp);

    // buffers
    let n = run.cases(400_000, 10_000_000);
    run.prop("writebuf-model", n, wcase, check_writebuf);
    let n = run.cases(400_000, 10_000_000);
    run.prop("parsebuf-model", n, pcase, check_parsebuf);

    run.finish();
}

// ---------------------------------------------------------------------------------------------
// Engine E3 (libFuzzer): entry used by `fuzz/fuzz_targets/codecs_a.rs` — same checks, other driver
// ---------------------------------------------------------------------------------------------

/// Number of input layouts `fuzz_entry` knows (selector = first byte modulo this).
pub const FUZZ_SELECTORS: u8 = 7;

fn fuzz_verdict(c: Case) -> Result<(), String> {
    match c.verdict {
        vh::Verdict::Fail { signature, detail } => Err(format!("{signature}: {detail}")),
        vh::Verdict::Pass | vh::Verdict::Inconclusive(_) => Ok(()),
    }
}

/// Coverage-guided entry: `data[0] % FUZZ_SELECTORS` selects the decoder, the rest is its input,
/// always through the RAW variants of the fuzz cases and the unchanged check functions.
///
/// | sel | input layout after the selector byte                         | check                |
/// |-----|--------------------------------------------------------------|----------------------|
/// | 0   | packet bytes (no key, node id 0)                             | `check_hdr_fuzz`     |
/// | 1   | key(16) node-id(8, LE) packet bytes                          | `check_hdr_fuzz`     |
/// | 2   | status report bytes                                          | `check_status_fuzz`  |
/// | 3   | BDX message bytes (all six parsers see them)                 | `check_bdx_fuzz`     |
/// | 4   | key(16) Check-In message bytes                               | `check_checkin_fuzz` |
/// | 5   | counter(4, LE) challenge(8) hostile bytes for both decoders  | `check_mcsp`         |
/// | 6   | the same bytes into 0, 2, 3 and the hostile part of 5        | all of the above     |
///
/// Inputs too short for their layout are skipped (`Ok`). `Err` is `"<signature>: <detail>"`;
/// a panic of rs-matter propagates.
pub fn fuzz_entry(data: &[u8]) -> Result<(), String> {
    let Some((&sel, rest)) = data.split_first() else {
        return Ok(());
    };
    match sel % FUZZ_SELECTORS {
        0 => fuzz_verdict(check_hdr_fuzz(&HdrFuzz { src: Src::Raw(rest.to_vec()), key: None, node_id: 0 })),
        1 => {
            if rest.len() < 24 {
                return Ok(());
            }
            let mut n = [0u8; 8];
            n.copy_from_slice(&rest[16..24]);
            fuzz_verdict(check_hdr_fuzz(&HdrFuzz {
                src: Src::Raw(rest[24..].to_vec()),
                key: Some(rest[..16].to_vec()),
                node_id: u64::from_le_bytes(n),
            }))
        }
        2 => fuzz_verdict(check_status_fuzz(&Src::Raw(rest.to_vec()))),
        3 => fuzz_verdict(check_bdx_fuzz(&Src::Raw(rest.to_vec()))),
        4 => {
            if rest.len() < 16 {
                return Ok(());
            }
            fuzz_verdict(check_checkin_fuzz(&CheckInFuzz { key: rest[..16].to_vec(), bytes: rest[16..].to_vec() }))
        }
        5 => {
            if rest.len() < 12 {
                return Ok(());
            }
            let mut c = [0u8; 4];
            c.copy_from_slice(&rest[..4]);
            fuzz_verdict(check_mcsp(&McspCase {
                counter: u32::from_le_bytes(c),
                challenge: rest[4..12].to_vec(),
                hostile: rest[12..].to_vec(),
            }))
        }
        _ => {
            fuzz_verdict(check_hdr_fuzz(&HdrFuzz { src: Src::Raw(rest.to_vec()), key: None, node_id: 0 }))?;
            fuzz_verdict(check_status_fuzz(&Src::Raw(rest.to_vec())))?;
            fuzz_verdict(check_bdx_fuzz(&Src::Raw(rest.to_vec())))?;
            fuzz_verdict(check_mcsp(&McspCase { counter: 0, challenge: vec![0u8; 8], hostile: rest.to_vec() }))
        }
    }
}

/// Seed inputs for the `codecs_a` fuzz target (used by `src/bin/mkcorpus.rs`): encodings, by
/// rs-matter's own encoders, of legal cases from the strategies above, in the input layouts of
/// `fuzz_entry`. Returns `(format label, input)`.
///
/// Layout 1 (keyed header) is seeded with packets encrypted under the *complement* of the key
/// in the input: `check_hdr_fuzz` judges raw bytes as "not produced by the encoder", so a seed
/// that authenticates would be a false alarm by construction.
pub fn fuzz_seeds(n: usize, seed: u64) -> Vec<(String, Vec<u8>)> {
    use proptest::strategy::ValueTree;
    use proptest::test_runner::{Config, RngAlgorithm, TestRng, TestRunner};
    let mut s = [0u8; 32];
    s[..8].copy_from_slice(&seed.to_le_bytes());
    let mut runner = TestRunner::new_with_rng(Config::default(), TestRng::from_seed(RngAlgorithm::ChaCha, &s));
    fn sample<S: Strategy>(st: &S, runner: &mut TestRunner) -> Option<S::Value> {
        st.new_tree(runner).ok().map(|t| t.current())
    }
    fn with_sel(sel: u8, parts: &[&[u8]]) -> Vec<u8> {
        let mut v = vec![sel];
        for p in parts {
            v.extend_from_slice(p);
        }
        v
    }
    let mut out: Vec<(String, Vec<u8>)> = Vec::new();
    let (plain, enc) = (hdr_case(false), hdr_case(true));
    let (st, ini, acc, blk, ci, mc) = (status_case(), init_case(), accept_case(), block_case(), checkin_case(), mcsp_case());
    for _ in 0..n {
        if let Some(c) = sample(&plain, &mut runner) {
            if let Ok(b) = encode_packet(&build_hdr(&c), &c.payload, None, c.node_id, PacketHdr::HDR_RESERVE, PacketHdr::TAIL_RESERVE) {
                out.push(("hdr-plain".into(), with_sel(0, &[&b])));
                out.push(("all-hdr".into(), with_sel(6, &[&b])));
            }
        }
        if let Some(c) = sample(&enc, &mut runner) {
            if let Some(key) = c.key.as_deref().and_then(key_arr) {
                if let Ok(b) = encode_packet(&build_hdr(&c), &c.payload, Some(&key), c.node_id, PacketHdr::HDR_RESERVE, PacketHdr::TAIL_RESERVE) {
                    let wrong: Vec<u8> = key.iter().map(|x| !x).collect();
                    out.push(("hdr-keyed".into(), with_sel(1, &[&wrong, &c.node_id.to_le_bytes(), &b])));
                }
            }
        }
        if let Some(c) = sample(&st, &mut runner) {
            if let Ok(b) = encode_status(&c, 8 + c.data.len()) {
                out.push(("status".into(), with_sel(2, &[&b])));
                out.push(("all-status".into(), with_sel(6, &[&b])));
            }
        }
        if let Some(c) = sample(&ini, &mut runner) {
            if let Ok(b) = encode_init(&c, init_len(&c)) {
                out.push(("bdx-init".into(), with_sel(3, &[&b])));
                out.push(("all-bdx".into(), with_sel(6, &[&b])));
            }
        }
        if let Some(c) = sample(&acc, &mut runner) {
            if let Ok(b) = encode_accept(&c, accept_len(&c)) {
                out.push(("bdx-accept".into(), with_sel(3, &[&b])));
            }
        }
        if let Some(c) = sample(&blk, &mut runner) {
            if let Ok(b) = encode_block(&c, block_len(&c)) {
                out.push(("bdx-block".into(), with_sel(3, &[&b])));
            }
        }
        if let Some(c) = sample(&ci, &mut runner) {
            if let Some(key) = key_arr(&c.key) {
                if let Ok(b) = checkin_generate(&key, c.counter, &c.app_data, c.app_data.len() + 64) {
                    out.push(("checkin".into(), with_sel(4, &[&key, &b])));
                }
            }
        }
        if let Some(c) = sample(&mc, &mut runner) {
            if let Ok(ch) = <[u8; 8]>::try_from(&c.challenge[..]) {
                let mut rsp = c.counter.to_le_bytes().to_vec();
                rsp.extend_from_slice(&ch);
                out.push(("mcsp-req".into(), with_sel(5, &[&c.counter.to_le_bytes(), &ch, &ch])));
                out.push(("mcsp-rsp".into(), with_sel(5, &[&c.counter.to_le_bytes(), &ch, &rsp])));
                out.push(("mcsp-hostile".into(), with_sel(5, &[&c.counter.to_le_bytes(), &ch, &c.hostile])));
            }
        }
    }
    out
}
