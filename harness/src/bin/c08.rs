//! C08 — Commissioning under the fail-safe is all-or-nothing.
//!
//! A simulated device with the repository's standard root endpoint (`vh::sim::admin`) receives a
//! generated HISTORY of administrative commands (ArmFailSafe with timeout 0/short/long,
//! CSRRequest for add/update, AddTrustedRootCertificate, AddNOC, UpdateNOC, ACL writes, group
//! key-set writes, Wi-Fi network add/remove, SetRegulatoryConfig, CommissioningComplete,
//! RevokeCommissioning, OpenBasicCommissioningWindow) issued over a PASE session, the CASE
//! session of an existing fabric A, the CASE session of another existing fabric B and the CASE
//! session of the fabric being commissioned, with timer expiry, waits, restarts and "fail the
//! n-th KV write" injected between steps.
//!
//! Oracles (sub-check `histories`):
//!  1. order/once/context — a reference state machine of the fail-safe context written from the
//!     Matter Core specification text of the commands (not from `FailSafe::check_state`) predicts
//!     accepted / refused / either for every command; only the class is compared.
//!  2. rollback — whenever the fail-safe ends without CommissioningComplete (timer, ArmFailSafe(0),
//!     RevokeCommissioning, restart) the fabric table, the network store, the administrative KV
//!     entries and the breadcrumb equal the BASE state (state before arming plus changes that were
//!     permanent by the statement: writes to fabrics the fail-safe was not armed for).
//!  3. commit — after an acknowledged CommissioningComplete, a scratch node booted from the KV
//!     store as of the acknowledgement has the same fabric table and network store as the memory.
//!  4. whenever the fail-safe is not armed, memory == what a reboot from the KV store would see.
//!
//! Sub-check `extended-histories` runs the same generator and oracles with two more
//! fabric-scoped commands that are not in the property's command list but change what the
//! snapshot covers: UpdateFabricLabel and SetVIDVerificationStatement.
//!
//! `C08_TRACE=1` prints every command with its outcome (use with `--replay`).

use std::collections::{BTreeMap, BTreeSet};

use proptest::prelude::*;
use serde::{Deserialize, Serialize};

use vh::sim::admin::*;
use vh::sim::kv::KvOp;
use vh::sim::node::mk_crypto;
use vh::sim::{clock, MemKv, Net, Sched, MS, SEC};
use vh::{Case, Run};

// ------------------------------------------------------------------------------------------ case

#[derive(Debug, Clone, Copy, PartialEq, Eq, Serialize, Deserialize)]
enum Who {
    /// the PASE session (its accessing fabric becomes the new fabric once AddNOC ran over it)
    Pase,
    /// CASE session of the administrator of the pre-existing fabric A (index 1)
    CaseA,
    /// CASE session of the administrator of the pre-existing fabric B (index 2)
    CaseB,
    /// CASE session of the commissioner on the newest fabric it added (pending or committed)
    CaseNew,
}

#[derive(Debug, Clone, Copy, PartialEq, Eq, Serialize, Deserialize)]
enum ArmT {
    Zero,
    Short(u8),
    Long(u8),
}

#[derive(Debug, Clone, Copy, PartialEq, Eq, Serialize, Deserialize)]
enum NocVariant {
    Good,
    /// NOC certifies a key that is not the CSR's
    WrongKey,
    /// CaseAdminSubject 0 (AddNOC only)
    BadAdminSubject,
}

#[derive(Debug, Clone, PartialEq, Eq, Serialize, Deserialize)]
enum Op {
    Arm { who: Who, t: ArmT },
    Csr { who: Who, update: bool },
    AddRoot { who: Who, bad: bool },
    AddNoc { who: Who, v: NocVariant },
    UpdateNoc { who: Who, v: NocVariant },
    Acl { who: Who, extra: u8, salt: u8 },
    KeySet { who: Who, id: u8, salt: u8 },
    KeySetRemove { who: Who, id: u8 },
    /// GroupKeyMap write: key material for the group ids 1 and 2 (needed by AddGroup)
    KeyMap { who: Who, salt: u8 },
    /// Groups::AddGroup on application endpoint `ep` (1..=4) for group `g` (1 or 2)
    Group { who: Who, ep: u8, g: u8, salt: u8 },
    /// Groups::RemoveGroup / RemoveAllGroups (`g` = 0)
    GroupRemove { who: Who, ep: u8, g: u8 },
    Label { who: Who, salt: u8 },
    SetVid { who: Who, salt: u8 },
    AddWifi { who: Who, n: u8, salt: u8 },
    RemoveWifi { who: Who, n: u8 },
    SetReg { who: Who },
    Complete { who: Who },
    Revoke { who: Who },
    OpenWindow { who: Who },
    Wait { ms: u16 },
    Expire,
    /// advance the clock to `past_ms` after the expiry instant of the armed fail-safe - into the
    /// gap before the next one-per-second timeout poll - so that the NEXT command lands there
    Lapse { past_ms: u16 },
    Restart,
    FailWrite { nth: u8 },
}

#[derive(Debug, Clone, Serialize, Deserialize)]
struct C08Case {
    seed: u32,
    wifi: bool,
    /// number of fabrics commissioned earlier (0..=2)
    preexisting: u8,
    window_open: bool,
    /// establish PASE / the CASE session on the new fabric by real handshakes
    real_sessions: bool,
    sched: Option<u64>,
    /// the history starts that many ms after the device booted (the fail-safe timeout is polled
    /// once per second from boot: this decides where the polls fall relative to the commands)
    #[serde(default)]
    skew_ms: u16,
    ops: Vec<Op>,
}

fn who() -> impl Strategy<Value = Who> {
    prop_oneof![4 => Just(Who::Pase), 3 => Just(Who::CaseA), 2 => Just(Who::CaseB), 3 => Just(Who::CaseNew)]
}

fn arm_t() -> impl Strategy<Value = ArmT> {
    prop_oneof![2 => Just(ArmT::Zero), 2 => (2u8..6).prop_map(ArmT::Short), 5 => (60u8..200).prop_map(ArmT::Long)]
}

fn noc_variant() -> impl Strategy<Value = NocVariant> {
    prop_oneof![8 => Just(NocVariant::Good), 1 => Just(NocVariant::WrongKey), 1 => Just(NocVariant::BadAdminSubject)]
}

fn lapse_ms() -> impl Strategy<Value = u16> {
    prop_oneof![3 => 1u16..20, 3 => 20u16..200, 2 => 200u16..900]
}

fn any_op() -> impl Strategy<Value = Op> {
    prop_oneof![
        4 => (who(), arm_t()).prop_map(|(who, t)| Op::Arm { who, t }),
        3 => (who(), any::<bool>()).prop_map(|(who, update)| Op::Csr { who, update }),
        3 => (who(), prop::bool::weighted(0.1)).prop_map(|(who, bad)| Op::AddRoot { who, bad }),
        3 => (who(), noc_variant()).prop_map(|(who, v)| Op::AddNoc { who, v }),
        2 => (who(), noc_variant()).prop_map(|(who, v)| Op::UpdateNoc { who, v }),
        3 => (who(), 0u8..3, any::<u8>()).prop_map(|(who, extra, salt)| Op::Acl { who, extra, salt }),
        2 => (who(), 1u8..4, any::<u8>()).prop_map(|(who, id, salt)| Op::KeySet { who, id, salt }),
        1 => (who(), 1u8..4).prop_map(|(who, id)| Op::KeySetRemove { who, id }),
        1 => (who(), any::<u8>()).prop_map(|(who, salt)| Op::KeyMap { who, salt }),
        2 => (who(), 1u8..=4, 1u8..=2, any::<u8>()).prop_map(|(who, ep, g, salt)| Op::Group { who, ep, g, salt }),
        1 => (who(), 1u8..=4, 0u8..=2).prop_map(|(who, ep, g)| Op::GroupRemove { who, ep, g }),
        1 => (who(), any::<u8>()).prop_map(|(who, salt)| Op::Label { who, salt }),
        1 => (who(), any::<u8>()).prop_map(|(who, salt)| Op::SetVid { who, salt }),
        3 => (who(), 0u8..6, any::<u8>()).prop_map(|(who, n, salt)| Op::AddWifi { who, n: n % 3 + (n / 5) * 3, salt }),
        2 => (who(), 0u8..3).prop_map(|(who, n)| Op::RemoveWifi { who, n }),
        1 => who().prop_map(|who| Op::SetReg { who }),
        3 => who().prop_map(|who| Op::Complete { who }),
        1 => who().prop_map(|who| Op::Revoke { who }),
        1 => who().prop_map(|who| Op::OpenWindow { who }),
        2 => (0u16..3000).prop_map(|ms| Op::Wait { ms }),
        2 => Just(Op::Expire),
        3 => lapse_ms().prop_map(|past_ms| Op::Lapse { past_ms }),
        2 => Just(Op::Restart),
        1 => (0u8..3).prop_map(|nth| Op::FailWrite { nth }),
    ]
}

/// Well-ordered commissioning flows; the generator perturbs them.
fn flow(kind: u8, t: u8, salt: u8, extended: bool) -> Vec<Op> {
    let long = ArmT::Long(60 + t % 140);
    match kind % (if extended { 9 } else { 7 }) {
        7 => vec![
            Op::Arm { who: Who::CaseA, t: long },
            Op::Acl { who: Who::CaseA, extra: 1 + salt % 2, salt },
            Op::SetVid { who: Who::CaseA, salt },
            Op::Label { who: Who::CaseA, salt },
            Op::Complete { who: Who::CaseA },
        ],
        8 => vec![
            Op::Label { who: Who::CaseA, salt },
            Op::SetVid { who: Who::CaseA, salt },
            Op::Arm { who: Who::CaseA, t: long },
            Op::KeySet { who: Who::CaseA, id: 1, salt },
            Op::Csr { who: Who::CaseA, update: true },
            Op::UpdateNoc { who: Who::CaseA, v: NocVariant::Good },
            Op::SetVid { who: Who::CaseA, salt: salt.wrapping_add(1) },
            Op::Complete { who: Who::CaseA },
        ],
        5 => vec![
            Op::Arm { who: Who::Pase, t: long },
            Op::AddWifi { who: Who::Pase, n: 0, salt },
            Op::AddWifi { who: Who::Pase, n: 1, salt: salt.wrapping_add(1) },
            Op::Csr { who: Who::Pase, update: false },
            Op::AddRoot { who: Who::Pase, bad: false },
            Op::AddNoc { who: Who::Pase, v: NocVariant::Good },
            Op::Acl { who: Who::Pase, extra: 1, salt },
            Op::RemoveWifi { who: Who::Pase, n: salt % 2 },
            Op::Complete { who: Who::CaseNew },
        ],
        6 => vec![
            Op::Arm { who: Who::CaseA, t: long },
            Op::KeySet { who: Who::CaseA, id: 1, salt },
            Op::AddWifi { who: Who::CaseA, n: 2, salt },
            Op::Csr { who: Who::CaseA, update: true },
            Op::UpdateNoc { who: Who::CaseA, v: NocVariant::Good },
            Op::RemoveWifi { who: Who::CaseA, n: 2 },
            Op::Complete { who: Who::CaseA },
        ],
        0 => vec![
            Op::Arm { who: Who::Pase, t: long },
            Op::Csr { who: Who::Pase, update: false },
            Op::AddRoot { who: Who::Pase, bad: false },
            Op::AddWifi { who: Who::Pase, n: salt % 5, salt },
            Op::AddNoc { who: Who::Pase, v: NocVariant::Good },
            Op::Acl { who: Who::CaseNew, extra: 1 + salt % 2, salt },
            Op::KeySet { who: Who::CaseNew, id: 1, salt },
            Op::KeyMap { who: Who::CaseNew, salt },
            Op::Group { who: Who::CaseNew, ep: 1 + salt % 4, g: 1, salt },
            Op::Complete { who: Who::CaseNew },
        ],
        1 => vec![
            Op::Arm { who: Who::CaseA, t: long },
            Op::Acl { who: Who::CaseA, extra: 1, salt },
            Op::Csr { who: Who::CaseA, update: false },
            Op::AddRoot { who: Who::CaseA, bad: false },
            Op::AddNoc { who: Who::CaseA, v: NocVariant::Good },
            Op::Acl { who: Who::CaseNew, extra: 2, salt },
            Op::Complete { who: Who::CaseNew },
        ],
        2 => vec![
            Op::Arm { who: Who::CaseA, t: long },
            Op::Csr { who: Who::CaseA, update: true },
            Op::UpdateNoc { who: Who::CaseA, v: NocVariant::Good },
            Op::Acl { who: Who::CaseA, extra: 1 + salt % 2, salt },
            Op::Complete { who: Who::CaseA },
        ],
        3 => vec![
            Op::Arm { who: Who::CaseA, t: long },
            Op::Acl { who: Who::CaseA, extra: 2, salt },
            Op::KeySet { who: Who::CaseA, id: 1 + salt % 2, salt },
            Op::AddWifi { who: Who::CaseA, n: salt % 5, salt },
            Op::Complete { who: Who::CaseA },
        ],
        _ => vec![
            Op::Arm { who: Who::Pase, t: long },
            Op::AddRoot { who: Who::Pase, bad: false },
            Op::Csr { who: Who::Pase, update: false },
            Op::AddNoc { who: Who::Pase, v: NocVariant::Good },
            Op::AddWifi { who: Who::CaseNew, n: salt % 5, salt },
            Op::Complete { who: Who::CaseNew },
        ],
    }
}

#[derive(Debug, Clone)]
enum Edit {
    Insert(u16, Op),
    Delete(u16),
    Dup(u16),
    Swap(u16),
    Rewho(u16, Who),
    Truncate(u16),
    /// `Lapse` + a command landing in the expiry-to-poll gap
    Gap(u16, u16, Op),
}

/// Commands worth landing in the gap between the expiry instant and the next timeout poll.
fn gap_cmd() -> impl Strategy<Value = Op> {
    prop_oneof![
        5 => (who(), prop_oneof![(2u8..6).prop_map(ArmT::Short), (60u8..200).prop_map(ArmT::Long)]).prop_map(|(who, t)| Op::Arm { who, t }),
        2 => who().prop_map(|who| Op::Arm { who, t: ArmT::Zero }),
        3 => who().prop_map(|who| Op::Complete { who }),
        2 => who().prop_map(|who| Op::AddNoc { who, v: NocVariant::Good }),
        1 => (who(), any::<bool>()).prop_map(|(who, update)| Op::Csr { who, update }),
        1 => who().prop_map(|who| Op::AddRoot { who, bad: false }),
        1 => who().prop_map(|who| Op::UpdateNoc { who, v: NocVariant::Good }),
        2 => (who(), 0u8..3, any::<u8>()).prop_map(|(who, extra, salt)| Op::Acl { who, extra, salt }),
        1 => (who(), 1u8..3, any::<u8>()).prop_map(|(who, id, salt)| Op::KeySet { who, id, salt }),
        1 => (who(), 0u8..3, any::<u8>()).prop_map(|(who, n, salt)| Op::AddWifi { who, n, salt }),
        1 => who().prop_map(|who| Op::Revoke { who }),
    ]
}

fn edit() -> impl Strategy<Value = Edit> {
    prop_oneof![
        4 => (any::<u16>(), lapse_ms(), gap_cmd()).prop_map(|(p, ms, o)| Edit::Gap(p, ms, o)),
        5 => (any::<u16>(), any_op()).prop_map(|(p, o)| Edit::Insert(p, o)),
        2 => any::<u16>().prop_map(Edit::Delete),
        2 => any::<u16>().prop_map(Edit::Dup),
        2 => any::<u16>().prop_map(Edit::Swap),
        3 => (any::<u16>(), who()).prop_map(|(p, w)| Edit::Rewho(p, w)),
        1 => any::<u16>().prop_map(Edit::Truncate),
    ]
}

fn is_command(op: &Op) -> bool {
    op_who(op).is_some()
}

fn op_who(op: &Op) -> Option<Who> {
    match op {
        Op::Arm { who, .. }
        | Op::Csr { who, .. }
        | Op::AddRoot { who, .. }
        | Op::AddNoc { who, .. }
        | Op::UpdateNoc { who, .. }
        | Op::Acl { who, .. }
        | Op::KeySet { who, .. }
        | Op::KeySetRemove { who, .. }
        | Op::KeyMap { who, .. }
        | Op::Group { who, .. }
        | Op::GroupRemove { who, .. }
        | Op::Label { who, .. }
        | Op::SetVid { who, .. }
        | Op::AddWifi { who, .. }
        | Op::RemoveWifi { who, .. }
        | Op::SetReg { who }
        | Op::Complete { who }
        | Op::Revoke { who }
        | Op::OpenWindow { who } => Some(*who),
        _ => None,
    }
}

fn rewho(op: &Op, w: Who) -> Op {
    let mut o = op.clone();
    match &mut o {
        Op::Arm { who, .. }
        | Op::Csr { who, .. }
        | Op::AddRoot { who, .. }
        | Op::AddNoc { who, .. }
        | Op::UpdateNoc { who, .. }
        | Op::Acl { who, .. }
        | Op::KeySet { who, .. }
        | Op::KeySetRemove { who, .. }
        | Op::KeyMap { who, .. }
        | Op::Group { who, .. }
        | Op::GroupRemove { who, .. }
        | Op::Label { who, .. }
        | Op::SetVid { who, .. }
        | Op::AddWifi { who, .. }
        | Op::RemoveWifi { who, .. }
        | Op::SetReg { who }
        | Op::Complete { who }
        | Op::Revoke { who }
        | Op::OpenWindow { who } => *who = w,
        _ => {}
    }
    o
}

fn apply_edits(mut ops: Vec<Op>, edits: &[Edit]) -> Vec<Op> {
    for e in edits {
        let n = ops.len();
        match e {
            Edit::Insert(p, o) => {
                let i = vh::util::pick(*p, n + 1);
                ops.insert(i, o.clone());
            }
            Edit::Delete(p) if n > 1 => {
                ops.remove(vh::util::pick(*p, n));
            }
            Edit::Gap(p, ms, o) => {
                // somewhere after the first command (so that something is armed)
                let i = 1 + vh::util::pick(*p, n);
                ops.insert(i.min(n), o.clone());
                ops.insert(i.min(n), Op::Lapse { past_ms: *ms });
            }
            Edit::Dup(p) if n > 0 => {
                let i = vh::util::pick(*p, n);
                let o = ops[i].clone();
                ops.insert(i + 1, o);
            }
            Edit::Swap(p) if n > 1 => {
                let i = vh::util::pick(*p, n - 1);
                ops.swap(i, i + 1);
            }
            Edit::Rewho(p, w) if n > 0 => {
                let i = vh::util::pick(*p, n);
                ops[i] = rewho(&ops[i], *w);
            }
            Edit::Truncate(p) if n > 2 => {
                ops.truncate(2 + vh::util::pick(*p, n - 2));
            }
            _ => {}
        }
    }
    ops.truncate(40);
    ops
}

fn strip_extended(ops: Vec<Op>) -> Vec<Op> {
    ops.into_iter()
        .map(|o| match o {
            Op::Label { .. } | Op::SetVid { .. } => Op::Wait { ms: 10 },
            o => o,
        })
        .collect()
}

fn case_strategy(extended: bool) -> impl Strategy<Value = C08Case> {
    (
        any::<u32>(),
        prop::bool::weighted(0.85),
        0u8..3,
        prop::collection::vec((0u8..63, any::<u8>(), any::<u8>()), 1..4),
        prop::collection::vec(edit(), 0..7),
        prop_oneof![
            2 => Just(None),
            2 => any_op().prop_map(Some),
            2 => who().prop_map(|who| Some(Op::Arm { who, t: ArmT::Zero })),
            1 => who().prop_map(|who| Some(Op::Revoke { who })),
            1 => Just(Some(Op::Expire)),
            2 => lapse_ms().prop_map(|past_ms| Some(Op::Lapse { past_ms })),
            1 => Just(Some(Op::Restart)),
            1 => (0u8..3).prop_map(|nth| Some(Op::FailWrite { nth })),
        ],
        (prop::bool::weighted(0.85), prop::bool::weighted(0.1), prop_oneof![2 => Just(None), 1 => any::<u64>().prop_map(Some)]),
        prop::collection::vec(any_op(), 0..4),
    )
        .prop_map(move |(seed, wifi, pre_raw, flows, edits, terminator, (win_follow, real_sessions, sched), tail)| {
            let mut ops = Vec::new();
            let first_kind = flows[0].0 % (if extended { 9 } else { 7 });
            for (k, t, s) in &flows {
                ops.extend(flow(*k, *t, *s, extended));
            }
            let mut ops = apply_edits(ops, &edits);
            if let Some(t) = terminator {
                // somewhere in the second half of the (first) flow
                let n = ops.len();
                let at = n / 2 + vh::util::pick((seed >> 8) as u16, n - n / 2 + 1);
                // the terminator comes from whoever sent the preceding command more often than not
                let t = match (at.checked_sub(1).and_then(|i| op_who(&ops[i])), seed & 3) {
                    (Some(w), 0..=1) => rewho(&t, w),
                    _ => t,
                };
                ops.insert(at.min(n), t);
            }
            ops.extend(tail);
            ops.truncate(44);
            // flows over the CASE session of fabric A need fabric A; PASE flows need a window
            let pase_first = first_kind == 0 || first_kind == 4 || first_kind == 5;
            let preexisting = if pase_first { pre_raw } else { pre_raw.max(1) };
            let window_open = if win_follow { pase_first } else { !pase_first };
            let ops = if extended { ops } else { strip_extended(ops) };
            // (the seed's upper bits decide where the one-per-second polls fall)
            let skew_ms = if seed & 0x10 == 0 { ((seed >> 16) % 1000) as u16 } else { 0 };
            C08Case { seed, wifi, preexisting, window_open, real_sessions, sched, skew_ms, ops }
        })
}

// ------------------------------------------------------------------------------------------ model

#[derive(Debug, Clone, Copy, PartialEq, Eq)]
enum Expect {
    Accept,
    Refuse,
    Either,
}

#[derive(Debug, Clone)]
struct Ctx {
    /// the fabric associated with the fail-safe context (0 = none yet, armed over PASE)
    fabric: u8,
    /// kind of the latest accepted CSRRequest (`true` = for UpdateNOC)
    csr: Option<bool>,
    csr_bytes: Option<Vec<u8>>,
    /// kit whose root was staged by AddTrustedRootCertificate
    root: Option<usize>,
    /// AddNOC / UpdateNOC already executed in this context
    noc_done: bool,
    /// fabric added by AddNOC in this context
    added: Option<u8>,
    expires_at: u64,
    first_armed: u64,
    /// fabrics with changes staged under this context (to be committed or undone)
    staged: BTreeSet<u8>,
    /// something non-trivial happened under this context
    weight: bool,
}

struct Model {
    armed: Option<Ctx>,
    /// fabric index -> kit index (0 = A, 1 = B, 2.. = new kits)
    fabrics: BTreeMap<u8, usize>,
    /// accessing fabric of the PASE session
    pase_af: u8,
    /// BASE: what the node must look like whenever the fail-safe ends without commit
    base_fabrics: BTreeMap<u8, Vec<u8>>,
    base_text: BTreeMap<u8, String>,
    base_networks: Option<Vec<u8>>,
    base_kv: BTreeMap<u16, Vec<u8>>,
    /// fabrics for which the statement does not determine the outcome (see `apply`)
    ambiguous: BTreeSet<u8>,
    /// fabrics hit by an injected KV failure outside CommissioningComplete
    tainted: BTreeSet<u8>,
    /// fabrics whose VID verification statement was set (permanently) while other changes were staged
    vid_touched: BTreeSet<u8>,
    /// new kits already used for a committed fabric
    next_new_kit: usize,
    newest_new_fabric: Option<u8>,
    /// breadcrumb value when the fail-safe was last found not armed
    pre_arm_breadcrumb: u64,
}

const KIT_A: usize = 0;
const KIT_B: usize = 1;
const KIT_N0: usize = 2;
const N_NEW_KITS: usize = 2;
const MAX_FABRICS: usize = 5;
const MAX_CUMULATIVE: u64 = 900;

// ------------------------------------------------------------------------------------------ run

struct World {
    kits: Vec<FabricKit>,
    /// device node id in each kit's fabric
    dev_nodes: Vec<u64>,
}

struct Progress {
    pos: usize,
    boot_no: u32,
    verdict: Option<Case>,
    labels: Vec<String>,
    nontrivial: bool,
    restart_pending: bool,
    fail_armed: bool,
}

fn fail(p: &mut Progress, sig: &str, detail: String) {
    if p.verdict.is_none() {
        p.verdict = Some(Case::fail(sig, detail));
    }
}

fn kv_failed_count(kv: &MemKv) -> usize {
    kv.log().iter().filter(|e| matches!(e.op, KvOp::Failed { .. })).count()
}

struct Sess {
    pase: Option<SessPair>,
    case_a: Option<SessPair>,
    case_b: Option<SessPair>,
    /// (fabric index, session)
    case_new: Option<(u8, SessPair)>,
}

fn acl_entries(admin: u64, extra: u8, salt: u8) -> Vec<AclSpec> {
    let mut v = vec![AclSpec { privilege: 5, auth_mode: 2, subjects: vec![admin] }];
    for i in 0..extra.min(2) {
        v.push(AclSpec {
            privilege: if (salt >> i) & 1 == 0 { 3 } else { 1 },
            auth_mode: 2,
            subjects: vec![0x5000 + salt as u64 * 4 + i as u64],
        });
    }
    v
}

/// Compare memory with BASE (+ the reboot image). Returns a failure (signature, detail).
fn check_against_base<CC: rs_matter::crypto::Crypto>(b: &Boot<'_, CC>, m: &Model, what: &str) -> Option<(String, String)> {
    check_against_base_ex(b, m, what, false)
}

/// `new_context`: a fail-safe context armed AFTER the one that ended is allowed to be there
/// (it has staged nothing yet).
fn check_against_base_ex<CC: rs_matter::crypto::Crypto>(b: &Boot<'_, CC>, m: &Model, what: &str, new_context: bool) -> Option<(String, String)> {
    let s = b.snapshot();
    if s.armed && !new_context {
        return Some((format!("{what}:still-armed"), "the fail-safe is still armed after it should have ended".into()));
    }
    let skip: BTreeSet<u8> = m.ambiguous.union(&m.tainted).copied().collect();
    let keys: BTreeSet<u8> = s.fabrics.keys().chain(m.base_fabrics.keys()).copied().collect();
    for k in keys {
        match (m.base_fabrics.get(&k), s.fabrics.get(&k)) {
            (Some(x), Some(y)) if x == y || skip.contains(&k) => {}
            (Some(_), Some(_)) if m.vid_touched.contains(&k) && m.base_text.get(&k) == s.fabric_text.get(&k) => {}
            (Some(_), Some(_)) if m.vid_touched.contains(&k) => {
                return Some((
                    "vid-statement:persisted-staged-changes".to_string(),
                    format!(
                        "({what}) SetVIDVerificationStatement was executed while the fail-safe was armed for fabric {k}; afterwards the other changes staged for that fabric were not undone: before [{}] after [{}]",
                        m.base_text.get(&k).cloned().unwrap_or_default(),
                        s.fabric_text.get(&k).cloned().unwrap_or_default()
                    ),
                ))
            }
            (Some(_), Some(_)) => {
                return Some((
                    format!("{what}:fabric-changed"),
                    format!(
                        "fabric {k} differs from the state before arming: before [{}] after [{}]",
                        m.base_text.get(&k).cloned().unwrap_or_default(),
                        s.fabric_text.get(&k).cloned().unwrap_or_default()
                    ),
                ))
            }
            (Some(_), None) => {
                return Some((
                    format!("{what}:fabric-lost"),
                    format!("fabric {k} [{}] existed before arming and is gone", m.base_text.get(&k).cloned().unwrap_or_default()),
                ))
            }
            (None, Some(_)) => {
                return Some((
                    format!("{what}:fabric-left-behind"),
                    format!("fabric {k} [{}] did not exist before arming and is still there", s.fabric_text.get(&k).cloned().unwrap_or_default()),
                ))
            }
            (None, None) => {}
        }
    }
    if s.networks != m.base_networks {
        return Some((
            format!("{what}:networks-changed"),
            format!(
                "network store differs from the state before arming: before {:?} after {:?} (ids now {:?})",
                m.base_networks.as_ref().map(|b| vh::util::hex(b)),
                s.networks.as_ref().map(|b| vh::util::hex(b)),
                s.network_ids.iter().map(|i| String::from_utf8_lossy(i).to_string()).collect::<Vec<_>>()
            ),
        ));
    }
    // The specification resets the breadcrumb to 0 on expiry, the statement restores the value
    // from before arming: both are accepted. (Outside a rollback the breadcrumb is free: e.g.
    // SetRegulatoryConfig sets it without a fail-safe; it is not persisted.)
    if what.starts_with("rollback-") && !what.ends_with("restart") && what != "rollback-lapsed" && !new_context && s.breadcrumb != 0 && s.breadcrumb != m.pre_arm_breadcrumb {
        return Some((
            format!("{what}:breadcrumb"),
            format!("breadcrumb is {} after the fail-safe ended without commit (before arming: {})", s.breadcrumb, m.pre_arm_breadcrumb),
        ));
    }
    let kvn = s.kv_admin();
    let keys: BTreeSet<u16> = kvn.keys().chain(m.base_kv.keys()).copied().collect();
    for k in keys {
        if k < KEY_FABRICS_END && (skip.contains(&(k as u8)) || m.vid_touched.contains(&(k as u8))) {
            continue;
        }
        if kvn.get(&k) != m.base_kv.get(&k) {
            return Some((
                format!("{what}:kv-changed"),
                format!(
                    "persistent entry {k} differs from the state before arming (before {} bytes, after {} bytes)",
                    m.base_kv.get(&k).map(|v| v.len() as i64).unwrap_or(-1),
                    kvn.get(&k).map(|v| v.len() as i64).unwrap_or(-1)
                ),
            ));
        }
    }
    // (the reboot image must agree with memory for the "ambiguous" fabrics as well)
    check_reboot_image(&s, &m.tainted, what)
}

/// Memory must equal what a reboot from the KV store would see.
fn check_reboot_image(s: &AdminSnapshot, skip: &BTreeSet<u8>, what: &str) -> Option<(String, String)> {
    let (kf, kt) = match fabrics_from_kv(&s.kv) {
        Ok(x) => x,
        Err(e) => return Some((format!("{what}:kv-image-does-not-boot"), e)),
    };
    let mut mem = s.fabrics.clone();
    let mut img = kf;
    for k in skip {
        mem.remove(k);
        img.remove(k);
    }
    if let Some(d) = diff_fabrics("memory", &mem, &s.fabric_text, "reboot-image", &img, &kt) {
        return Some((format!("{what}:memory-differs-from-reboot-image"), d));
    }
    if let Some(mem_net) = &s.networks {
        let img_net = s.kv.get(&KEY_NETWORKS).cloned().unwrap_or_else(empty_wifi_blob);
        if *mem_net != img_net {
            return Some((
                format!("{what}:networks-differ-from-reboot-image"),
                format!("network store in memory {} vs persisted {}", vh::util::hex(mem_net), vh::util::hex(&img_net)),
            ));
        }
    }
    None
}

/// After a rollback that passed its checks: whatever the "ambiguous" fabrics hold now (and is
/// durable, as just checked) is the state to return to from here on.
fn settle_ambiguous<CC: rs_matter::crypto::Crypto>(b: &Boot<'_, CC>, m: &mut Model) {
    if !m.ambiguous.is_empty() || !m.vid_touched.is_empty() {
        m.ambiguous.clear();
        m.vid_touched.clear();
        rebase(b, m);
    }
}

fn rebase<CC: rs_matter::crypto::Crypto>(b: &Boot<'_, CC>, m: &mut Model) {
    let s = b.snapshot();
    m.base_kv = s.kv_admin();
    m.base_fabrics = s.fabrics;
    m.base_text = s.fabric_text;
    m.base_networks = s.networks;
}

fn end_of_context(m: &mut Model, sess: &mut Sess) {
    if let Some(ctx) = m.armed.take() {
        if let Some(idx) = ctx.added {
            m.fabrics.remove(&idx);
            if m.newest_new_fabric == Some(idx) {
                m.newest_new_fabric = m.fabrics.iter().filter(|(_, k)| **k >= KIT_N0).map(|(i, _)| *i).max();
            }
            if matches!(sess.case_new, Some((f, _)) if f == idx) {
                sess.case_new = None;
            }
        }
    }
    m.pase_af = 0;
    // PASE sessions do not survive the end of the fail-safe context
    sess.pase = None;
}

#[allow(clippy::too_many_arguments)]
fn run_segment<CC: rs_matter::crypto::Crypto>(
    b: &mut Boot<'_, CC>,
    case: &C08Case,
    w: &World,
    m: &mut Model,
    p: &mut Progress,
    ctrl_fab_idx: &[core::num::NonZeroU8],
) {
    let gen = mk_crypto(case.seed ^ 0x5eed ^ (p.boot_no << 8));
    let mut sess = Sess { pase: None, case_a: None, case_b: None, case_new: None };

    // the polls of the fail-safe timeout run once per second from boot
    if case.skew_ms > 0 {
        b.run_for(case.skew_ms as u64 * MS);
    }
    // ---- after a (re)boot: memory must equal BASE
    if p.boot_no == 0 {
        rebase(b, m);
    } else {
        let was_armed = m.armed.is_some();
        if was_armed {
            p.labels.push("rollback-by-restart".into());
            if m.armed.as_ref().map(|c| c.weight).unwrap_or(false) {
                p.nontrivial = true;
            }
        }
        end_of_context(m, &mut sess);
        if let Some((sig, d)) = check_against_base(b, m, if was_armed { "rollback-restart" } else { "restart" }) {
            fail(p, &sig, format!("after restart #{}: {d}", p.boot_no));
            return;
        }
        settle_ambiguous(b, m);
    }

    // `Some` while the clock stands in the gap between the expiry instant of the armed fail-safe
    // and the next timeout poll, waiting for the command that is to land there
    let mut gap: Option<u64> = None;
    while p.pos < case.ops.len() && p.verdict.is_none() {
        if gap.is_some() && !is_command(&case.ops[p.pos]) {
            // nothing lands in the gap after all
            gap = None;
        }
        // ---- timer bookkeeping: never sit next to the expiry instant (unless that is the point)
        if let (Some(ctx), None) = (&m.armed, gap) {
            if clock::now() + 300 * MS >= ctx.expires_at {
                let to = ctx.expires_at + 1500 * MS;
                let d = to.saturating_sub(clock::now());
                b.run_for(d);
                let weight = ctx.weight;
                end_of_context(m, &mut sess);
                p.labels.push("rollback-by-timer".into());
                if weight {
                    p.nontrivial = true;
                }
                if let Some((sig, d)) = check_against_base(b, m, "rollback-timer") {
                    fail(p, &sig, format!("before op #{}: {d}", p.pos));
                    return;
                }
                settle_ambiguous(b, m);
            }
        }
        if let Some(e) = b.dm_run_exited() {
            fail(p, "dm-run-terminated", format!("InteractionModel::run (fail-safe timer task) returned {e} before op #{}", p.pos));
            return;
        }

        let op = case.ops[p.pos].clone();
        let op_no = p.pos;
        p.pos += 1;

        // ---- non-command ops
        match &op {
            Op::Wait { ms } => {
                b.run_for(*ms as u64 * MS);
                continue;
            }
            Op::Expire => {
                match &m.armed {
                    Some(ctx) => {
                        let d = (ctx.expires_at + 1500 * MS).saturating_sub(clock::now());
                        b.run_for(d);
                        let weight = ctx.weight;
                        end_of_context(m, &mut sess);
                        p.labels.push("rollback-by-timer".into());
                        if weight {
                            p.nontrivial = true;
                        }
                        if let Some((sig, d)) = check_against_base(b, m, "rollback-timer") {
                            fail(p, &sig, format!("at op #{op_no} (Expire): {d}"));
                            return;
                        }
                        settle_ambiguous(b, m);
                    }
                    None => {
                        b.run_for(SEC);
                    }
                }
                continue;
            }
            Op::Lapse { past_ms } => {
                if let Some(ctx) = &m.armed {
                    let to = ctx.expires_at + *past_ms as u64 * MS;
                    if to > clock::now() {
                        b.run_for(to - clock::now());
                        gap = Some(ctx.expires_at);
                    }
                }
                continue;
            }
            Op::Restart => {
                p.restart_pending = true;
                return;
            }
            Op::FailWrite { nth } => {
                // One pending failure at a time: with two keys and no transactions in the store
                // interface, no implementation can stay all-or-nothing when the write that undoes
                // a half-done commit fails as well.
                if !p.fail_armed {
                    b.kv.fail_write_at(*nth as usize);
                    p.fail_armed = true;
                } else {
                    p.labels.push("skipped:failure-already-pending".into());
                }
                continue;
            }
            _ => {}
        }

        // ---- meant for the expiry-to-poll gap, but a poll fell into the interval: plain expiry by timer
        if gap.is_some() && m.armed.is_some() && !b.failsafe_armed() {
            gap = None;
            p.labels.push("gap:missed-poll-fell-into-the-interval".into());
            let weight = m.armed.as_ref().map(|c| c.weight).unwrap_or(false);
            end_of_context(m, &mut sess);
            p.labels.push("rollback-by-timer".into());
            if weight {
                p.nontrivial = true;
            }
            if let Some((sig, d)) = check_against_base(b, m, "rollback-timer") {
                fail(p, &sig, format!("before op #{op_no}: {d}"));
                return;
            }
            settle_ambiguous(b, m);
        }

        // ---- who sends it
        let who = match &op {
            Op::Arm { who, .. }
            | Op::Csr { who, .. }
            | Op::AddRoot { who, .. }
            | Op::AddNoc { who, .. }
            | Op::UpdateNoc { who, .. }
            | Op::Acl { who, .. }
            | Op::KeySet { who, .. }
            | Op::KeySetRemove { who, .. }
            | Op::KeyMap { who, .. }
            | Op::Group { who, .. }
            | Op::GroupRemove { who, .. }
            | Op::Label { who, .. }
            | Op::SetVid { who, .. }
            | Op::AddWifi { who, .. }
            | Op::RemoveWifi { who, .. }
            | Op::SetReg { who }
            | Op::Complete { who }
            | Op::Revoke { who }
            | Op::OpenWindow { who } => *who,
            _ => unreachable!(),
        };
        // (controller, session, accessing fabric, is CASE, admin node of the accessing fabric)
        let (ctrl, sp, af, is_case): (usize, SessPair, u8, bool) = match who {
            Who::Pase => {
                if let Some(s) = &sess.pase {
                    if !b.device_has_session(s) {
                        sess.pase = None;
                        m.pase_af = 0;
                    }
                }
                if sess.pase.is_none() {
                    if !b.window_open() {
                        p.labels.push("skipped:no-window-for-pase".into());
                        continue;
                    }
                    let r = if case.real_sessions { b.pase_handshake(0, PASSCODE) } else { b.plant_pase(0) };
                    match r {
                        Ok(s) => {
                            sess.pase = Some(s);
                            m.pase_af = 0;
                            if case.real_sessions {
                                p.labels.push("real-pase".into());
                                // PASE establishment arms the fail-safe (60 s) when it is not armed
                                if m.armed.is_none() && b.failsafe_armed() {
                                    m.armed = Some(Ctx {
                                        fabric: 0,
                                        csr: None,
                                        csr_bytes: None,
                                        root: None,
                                        noc_done: false,
                                        added: None,
                                        expires_at: clock::now() + 60 * SEC,
                                        first_armed: clock::now(),
                                        staged: BTreeSet::new(),
                                        weight: false,
                                    });
                                }
                            }
                        }
                        Err(e) => {
                            if case.real_sessions {
                                let _ = e;
                                p.labels.push("skipped:pase-handshake-failed".into());
                                continue;
                            }
                            p.verdict = Some(Case::inconclusive(format!("cannot plant PASE: {e}")));
                            return;
                        }
                    }
                }
                (0, sess.pase.unwrap(), m.pase_af, false)
            }
            Who::CaseA | Who::CaseB => {
                let (kit, idx, ctrl) = if who == Who::CaseA { (KIT_A, 1u8, 1usize) } else { (KIT_B, 2u8, 2usize) };
                if case.preexisting < idx {
                    p.labels.push("skipped:no-such-fabric".into());
                    continue;
                }
                let slot = if who == Who::CaseA { &mut sess.case_a } else { &mut sess.case_b };
                if slot.is_none() {
                    match b.plant_case(ctrl, 1, w.kits[kit].admin_node, idx, w.dev_nodes[kit]) {
                        Ok(s) => *slot = Some(s),
                        Err(e) => {
                            p.verdict = Some(Case::inconclusive(format!("cannot plant CASE: {e}")));
                            return;
                        }
                    }
                }
                (ctrl, slot.unwrap(), idx, true)
            }
            Who::CaseNew => {
                let Some(idx) = m.newest_new_fabric else {
                    p.labels.push("skipped:no-new-fabric".into());
                    continue;
                };
                let kit = m.fabrics[&idx];
                if !matches!(sess.case_new, Some((f, _)) if f == idx) {
                    let r = if case.real_sessions {
                        p.labels.push("real-case".into());
                        b.case_handshake(0, ctrl_fab_idx[kit - KIT_N0], w.dev_nodes[kit])
                    } else {
                        b.plant_case(0, ctrl_fab_idx[kit - KIT_N0].get(), w.kits[kit].admin_node, idx, w.dev_nodes[kit])
                    };
                    match r {
                        Ok(s) => sess.case_new = Some((idx, s)),
                        Err(e) => {
                            if case.real_sessions {
                                fail(
                                    p,
                                    "case-on-new-fabric-failed",
                                    format!("op #{op_no}: CASE handshake with the fabric {idx} added by AddNOC failed: {e}"),
                                );
                            } else {
                                p.verdict = Some(Case::inconclusive(format!("cannot plant CASE(new): {e}")));
                            }
                            return;
                        }
                    }
                }
                (0, sess.case_new.unwrap().1, idx, true)
            }
        };

        // ---- a command in the gap between the expiry instant and the next timeout poll
        // From the expiry instant on the lapsed context is dead as far as the statement goes: the
        // command is predicted, and its effects are booked, against a model without it.
        let mut lapsed: Option<(Ctx, u64)> = None;
        if let Some(expired_at) = gap.take() {
            if b.failsafe_armed() && clock::now() >= expired_at {
                if let Some(ctx) = m.armed.clone() {
                    lapsed = Some((ctx, expired_at));
                    let weight = m.armed.as_ref().map(|c| c.weight).unwrap_or(false);
                    // (the session handles `sp` resolved above stay in use for this command)
                    end_of_context(m, &mut sess);
                    if weight {
                        p.nontrivial = true;
                    }
                }
            }
        }
        let window_open = b.window_open();
        let now = clock::now();
        if m.armed.is_none() {
            m.pre_arm_breadcrumb = b.breadcrumb();
        }
        let new_kit = (KIT_N0 + m.next_new_kit).min(KIT_N0 + N_NEW_KITS - 1);
        let ctx_ok = m.armed.as_ref().map(|c| c.fabric == af).unwrap_or(false);

        // ---- build the command + predict
        let (cmd, expect): (Cmd, Expect) = match &op {
            Op::Arm { t, .. } => {
                let secs = match t {
                    ArmT::Zero => 0u16,
                    ArmT::Short(s) => *s as u16,
                    ArmT::Long(s) => *s as u16,
                };
                let e = match &m.armed {
                    None => {
                        if secs == 0 {
                            Expect::Accept
                        } else if is_case && window_open {
                            Expect::Refuse
                        } else {
                            Expect::Accept
                        }
                    }
                    Some(c) => {
                        if c.fabric == af {
                            Expect::Accept
                        } else {
                            Expect::Refuse
                        }
                    }
                };
                (Cmd::ArmFailSafe { secs, breadcrumb: 1 + op_no as u64 }, e)
            }
            Op::Csr { update, .. } => {
                let e = match &m.armed {
                    None => Expect::Refuse,
                    Some(c) => {
                        if c.fabric != af || c.noc_done || (*update && !is_case) {
                            Expect::Refuse
                        } else if c.csr.is_some() {
                            // the specification lets a CSRRequest be repeated; the statement says "once each"
                            Expect::Either
                        } else {
                            Expect::Accept
                        }
                    }
                };
                (Cmd::CsrRequest { nonce: vec![op_no as u8 ^ 0x5a; 32], for_update: if *update { Some(true) } else { None } }, e)
            }
            Op::AddRoot { bad, .. } => {
                let mut rcac = w.kits[new_kit].ca.rcac.clone();
                if *bad {
                    let n = rcac.len();
                    rcac[n - 9] ^= 0x40; // inside the signature
                }
                let installed = m.fabrics.values().any(|k| *k == new_kit);
                let e = match &m.armed {
                    None => Expect::Refuse,
                    Some(c) => {
                        if c.fabric != af || c.root.is_some() || c.noc_done || *bad {
                            Expect::Refuse
                        } else if installed {
                            Expect::Either
                        } else {
                            Expect::Accept
                        }
                    }
                };
                (Cmd::AddTrustedRoot { rcac }, e)
            }
            Op::AddNoc { v, .. } => {
                let kit = &w.kits[new_kit];
                let csr = m.armed.as_ref().and_then(|c| c.csr_bytes.clone());
                let noc = match (v, &csr) {
                    (NocVariant::WrongKey, _) | (_, None) => {
                        // certify some other key
                        noc_for_fresh_key(&gen, kit, w.dev_nodes[new_kit])
                    }
                    (_, Some(csr)) => kit.ca.issue(&gen, csr, w.dev_nodes[new_kit], &[]).ok(),
                };
                let Some(noc) = noc else {
                    p.verdict = Some(Case::inconclusive("cannot issue a NOC"));
                    return;
                };
                let conflict = m.fabrics.values().any(|k| *k == new_kit);
                let e = match &m.armed {
                    None => Expect::Refuse,
                    Some(c) => {
                        if c.fabric != af
                            || c.noc_done
                            || c.csr != Some(false)
                            || c.root != Some(new_kit)
                            || *v != NocVariant::Good
                            || conflict
                            || m.fabrics.len() >= MAX_FABRICS
                        {
                            Expect::Refuse
                        } else {
                            Expect::Accept
                        }
                    }
                };
                (
                    Cmd::AddNoc {
                        noc,
                        icac: kit.icac(),
                        ipk: kit.ca.ipk.to_vec(),
                        admin_subject: if *v == NocVariant::BadAdminSubject { 0 } else { kit.admin_node },
                        vendor_id: 0xFFF1,
                    },
                    e,
                )
            }
            Op::UpdateNoc { v, .. } => {
                // the fabric of the accessing session (or fabric A's kit when there is none)
                let kit_idx = m.fabrics.get(&af).copied().unwrap_or(KIT_A);
                let kit = &w.kits[kit_idx];
                let csr = m.armed.as_ref().and_then(|c| c.csr_bytes.clone());
                let noc = match (v, &csr) {
                    (NocVariant::WrongKey, _) | (_, None) => noc_for_fresh_key(&gen, kit, w.dev_nodes[kit_idx]),
                    (_, Some(csr)) => kit.ca.issue(&gen, csr, w.dev_nodes[kit_idx], &[]).ok(),
                };
                let Some(noc) = noc else {
                    p.verdict = Some(Case::inconclusive("cannot issue a NOC"));
                    return;
                };
                let e = match &m.armed {
                    None => Expect::Refuse,
                    Some(c) => {
                        if !is_case || c.fabric != af || c.noc_done || c.root.is_some() || c.csr != Some(true) || *v == NocVariant::WrongKey {
                            Expect::Refuse
                        } else {
                            Expect::Accept
                        }
                    }
                };
                (Cmd::UpdateNoc { noc, icac: kit.icac() }, e)
            }
            Op::Acl { extra, salt, .. } => {
                let admin = m.fabrics.get(&af).map(|k| w.kits[*k].admin_node).unwrap_or(0x1000);
                let e = if af == 0 { Expect::Refuse } else { Expect::Either };
                (Cmd::WriteAcl { entries: acl_entries(admin, *extra, *salt) }, e)
            }
            Op::KeySet { id, salt, .. } => {
                let e = if af == 0 { Expect::Refuse } else { Expect::Either };
                (Cmd::KeySetWrite { id: *id as u16, epoch_key0: vec![*salt; 16], start0: 1 + *salt as u64 }, e)
            }
            Op::KeyMap { salt, .. } => {
                let e = if af == 0 { Expect::Refuse } else { Expect::Either };
                (Cmd::WriteGroupKeyMap { entries: vec![(1, 1 + (*salt as u16 & 1)), (2, 1)] }, e)
            }
            Op::Group { ep, g, salt, .. } => {
                let e = if af == 0 { Expect::Refuse } else { Expect::Either };
                (Cmd::AddGroup { ep: *ep as u16, group: *g as u16, name: format!("grp-{}", salt % 4) }, e)
            }
            Op::GroupRemove { ep, g, .. } => {
                let e = if af == 0 { Expect::Refuse } else { Expect::Either };
                if *g == 0 {
                    (Cmd::RemoveAllGroups { ep: *ep as u16 }, e)
                } else {
                    // mostly an existing membership of the accessing fabric
                    let table = group_tables(b.matter).remove(&af).unwrap_or_default();
                    match table.get(*ep as usize % (table.len() + 1)) {
                        Some(r) if !r.endpoints.is_empty() => (Cmd::RemoveGroup { ep: r.endpoints[*g as usize % r.endpoints.len()], group: r.group_id }, e),
                        _ => (Cmd::RemoveGroup { ep: *ep as u16, group: *g as u16 }, e),
                    }
                }
            }
            Op::KeySetRemove { id, .. } => {
                let e = if af == 0 { Expect::Refuse } else { Expect::Either };
                (Cmd::KeySetRemove { id: *id as u16 }, e)
            }
            Op::Label { salt, .. } => {
                let e = if af == 0 { Expect::Refuse } else { Expect::Either };
                (Cmd::UpdateFabricLabel { label: format!("label-{}", salt % 4) }, e)
            }
            Op::SetVid { salt, .. } => {
                let e = if af == 0 { Expect::Refuse } else { Expect::Either };
                (Cmd::SetVidStatement { vendor_id: Some(0xFFF1 + (*salt as u16 % 3)), statement: Some(vec![*salt | 1; 85]) }, e)
            }
            Op::AddWifi { n, salt, .. } => {
                let e = if ctx_ok { Expect::Either } else { Expect::Refuse };
                (
                    Cmd::AddWifi {
                        ssid: format!("net{n}").into_bytes(),
                        pass: format!("password{salt:03}").into_bytes(),
                        breadcrumb: if salt & 1 == 0 { Some(100 + op_no as u64) } else { None },
                    },
                    e,
                )
            }
            Op::RemoveWifi { n, .. } => {
                let e = if ctx_ok { Expect::Either } else { Expect::Refuse };
                (Cmd::RemoveNetwork { id: format!("net{n}").into_bytes(), breadcrumb: None }, e)
            }
            Op::SetReg { .. } => (Cmd::SetRegulatoryConfig { config: 0, country: "XX".into(), breadcrumb: 200 + op_no as u64 }, Expect::Either),
            Op::Complete { .. } => {
                let e = match &m.armed {
                    None => Expect::Refuse,
                    Some(c) => {
                        if is_case && c.fabric == af {
                            Expect::Accept
                        } else {
                            Expect::Refuse
                        }
                    }
                };
                (Cmd::CommissioningComplete, e)
            }
            Op::Revoke { .. } => (Cmd::RevokeCommissioning, Expect::Either),
            Op::OpenWindow { .. } => (Cmd::OpenBasicWindow { timeout: 300 }, Expect::Either),
            _ => unreachable!(),
        };

        // ---- execute
        let failed_before = kv_failed_count(&b.kv);
        let out = b.invoke(ctrl, sp.ctrl_sid, &cmd);
        let kv_failed = kv_failed_count(&b.kv) > failed_before;
        if std::env::var_os("C08_TRACE").is_some() {
            eprintln!(
                "[t={}] op #{op_no} {op:?} af={af} expect={expect:?} -> {} armed(model)={} armed(dev)={} kv_failed={kv_failed}",
                clock::now(),
                out.brief(),
                m.armed.is_some(),
                b.failsafe_armed()
            );
        }
        if kv_failed {
            p.fail_armed = false;
        }
        let accepted = out.accepted();
        let name = cmd.name();
        let ctx_desc = match &m.armed {
            None => "fail-safe not armed".to_string(),
            Some(c) => format!(
                "fail-safe armed for fabric {} (csr={:?} root={:?} noc_done={})",
                c.fabric, c.csr, c.root.is_some(), c.noc_done
            ),
        };
        let who_desc = format!("{who:?}(accessing fabric {af})");

        let expect = if kv_failed { Expect::Either } else { expect };
        // In the gap the Matter text does not decide between "busy" (the lapsed context is still
        // there for the device until the poll) and acceptance after rolling back first: what would
        // be accepted on an unarmed node may be either. What must be refused stays so - in
        // particular the lapsed context's own flow.
        let expect = if lapsed.is_some() && expect == Expect::Accept { Expect::Either } else { expect };
        let ctx_desc = match &lapsed {
            Some((c, at)) => format!(
                "the fail-safe context of fabric {} lapsed {} ms ago and not polled yet (csr={:?} root={:?} noc_done={})",
                c.fabric,
                (clock::now().saturating_sub(*at)) / MS,
                c.csr,
                c.root.is_some(),
                c.noc_done
            ),
            None => ctx_desc,
        };
        if let Some((c, _)) = &lapsed {
            p.labels.push(format!("gap:{}:{}:{}", name, if c.fabric == af { "same-context" } else { "other-context" }, if accepted { "accepted" } else { "refused" }));
            p.labels.push(format!("gap:from-{who:?}"));
            p.labels.push("gap:command-in-expiry-to-poll-gap".into());
        }
        match (expect, accepted) {
            (Expect::Accept, false) => {
                if !out.answered() {
                    p.verdict = Some(Case::inconclusive(format!("op #{op_no} {name} from {who_desc}: no answer ({})", out.brief())));
                    return;
                }
                fail(
                    p,
                    &format!("order:wrongly-refused:{name}"),
                    format!("op #{op_no}: {name} from {who_desc} with {ctx_desc} must be accepted, got {}", out.brief()),
                );
                return;
            }
            (Expect::Refuse, true) => {
                let variant = match &op {
                    Op::Arm { t: ArmT::Zero, .. } => "(0)",
                    _ => "",
                };
                fail(
                    p,
                    &format!("order:wrongly-accepted:{name}{variant}"),
                    format!("op #{op_no}: {name}{variant} from {who_desc} with {ctx_desc} must be refused, got {}", out.brief()),
                );
                return;
            }
            _ => {}
        }
        p.labels.push(format!("{}:{}", name, if accepted { "accepted" } else { "refused" }));

        // ---- apply to the model
        match &op {
            Op::Arm { t, .. } => {
                let secs = match t {
                    ArmT::Zero => 0u64,
                    ArmT::Short(s) | ArmT::Long(s) => *s as u64,
                };
                if accepted {
                    match &mut m.armed {
                        None => {
                            if secs > 0 {
                                m.armed = Some(Ctx {
                                    fabric: af,
                                    csr: None,
                                    csr_bytes: None,
                                    root: None,
                                    noc_done: false,
                                    added: None,
                                    expires_at: now + secs * SEC,
                                    first_armed: now,
                                    staged: BTreeSet::new(),
                                    weight: false,
                                });
                            }
                        }
                        Some(c) => {
                            if secs == 0 {
                                let weight = c.weight;
                                end_of_context(m, &mut sess);
                                p.labels.push("rollback-by-arm0".into());
                                if weight {
                                    p.nontrivial = true;
                                }
                                if let Some((sig, d)) = check_against_base(b, m, "rollback-arm0") {
                                    fail(p, &sig, format!("after op #{op_no} (ArmFailSafe(0) from {who_desc}): {d}"));
                                    return;
                                }
                                settle_ambiguous(b, m);
                            } else {
                                c.expires_at = now + secs * SEC;
                                if (c.expires_at - c.first_armed) / SEC > MAX_CUMULATIVE {
                                    // beyond the maximum cumulative fail-safe time the device may cut the timer short
                                    c.expires_at = c.first_armed + MAX_CUMULATIVE * SEC;
                                }
                            }
                        }
                    }
                }
            }
            Op::Csr { update, .. } => {
                if accepted {
                    if let (Some(c), Outcome::Response { csr: Some(bytes), .. }) = (&mut m.armed, &out) {
                        c.csr = Some(*update);
                        c.csr_bytes = Some(bytes.clone());
                    }
                }
            }
            Op::AddRoot { .. } => {
                if accepted {
                    if let Some(c) = &mut m.armed {
                        if c.root.is_none() && !c.noc_done {
                            c.root = Some(new_kit);
                        }
                    }
                }
            }
            Op::AddNoc { .. } => {
                if accepted {
                    let idx = match &out {
                        Outcome::Response { fabric_index: Some(i), .. } => *i,
                        _ => 0,
                    };
                    if idx == 0 || m.fabrics.contains_key(&idx) {
                        fail(
                            p,
                            "addnoc:bad-fabric-index",
                            format!("op #{op_no}: AddNOC answered OK with fabric index {idx} (existing: {:?})", m.fabrics.keys().collect::<Vec<_>>()),
                        );
                        return;
                    }
                    if let Some(c) = &mut m.armed {
                        let old = c.fabric;
                        if old != 0 && c.staged.contains(&old) {
                            // Changes staged for the fabric that armed the fail-safe, after which the
                            // context moved on to the new fabric: the statement does not say whether they
                            // belong to "that fabric" (undone/committed with it) or became permanent.
                            // Only memory == reboot image is required for that fabric from here on.
                            m.ambiguous.insert(old);
                        }
                        c.fabric = idx;
                        c.noc_done = true;
                        c.added = Some(idx);
                        c.weight = true;
                    }
                    m.fabrics.insert(idx, new_kit);
                    m.newest_new_fabric = Some(idx);
                    if who == Who::Pase {
                        m.pase_af = idx;
                    }
                    p.labels.push("reached-addnoc".into());
                }
            }
            Op::UpdateNoc { .. } => {
                if accepted {
                    if let Some(c) = &mut m.armed {
                        c.noc_done = true;
                        c.weight = true;
                        c.staged.insert(af);
                    }
                    p.labels.push("reached-updatenoc".into());
                }
            }
            Op::SetVid { .. } if accepted && m.armed.as_ref().map(|c| c.fabric == af && !c.noc_done).unwrap_or(false) => {
                // Without an AddNOC/UpdateNOC in this context the statement is permanent at once
                // (Matter Core spec), whereas everything else staged for this fabric stays staged:
                // at the next rollback this fabric is compared without the VID fields.
                if kv_failed {
                    m.tainted.insert(af);
                }
                m.vid_touched.insert(af);
                p.labels.push("vid-statement-while-armed".into());
            }
            Op::Acl { .. }
            | Op::KeySet { .. }
            | Op::KeySetRemove { .. }
            | Op::KeyMap { .. }
            | Op::Group { .. }
            | Op::GroupRemove { .. }
            | Op::Label { .. }
            | Op::SetVid { .. } => {
                if kv_failed {
                    m.tainted.insert(af);
                }
                if accepted {
                    let staged = m.armed.as_ref().map(|c| c.fabric == af).unwrap_or(false);
                    if staged {
                        if let Some(c) = &mut m.armed {
                            c.staged.insert(af);
                            c.weight = true;
                        }
                        p.labels.push("staged-write".into());
                    } else if m.fabrics.contains_key(&af) {
                        // permanent right away: a fabric the fail-safe is not armed for
                        let s = b.snapshot();
                        if let Some(t) = s.fabrics.get(&af) {
                            m.base_fabrics.insert(af, t.clone());
                        }
                        if let Some(t) = s.fabric_text.get(&af) {
                            m.base_text.insert(af, t.clone());
                        }
                        match s.kv.get(&(af as u16)) {
                            Some(v) => {
                                m.base_kv.insert(af as u16, v.clone());
                            }
                            None => {
                                m.base_kv.remove(&(af as u16));
                            }
                        }
                        p.labels.push("permanent-write".into());
                    }
                }
            }
            Op::AddWifi { .. } | Op::RemoveWifi { .. } => {
                if accepted {
                    if let Some(c) = &mut m.armed {
                        c.weight = true;
                    }
                    p.labels.push("staged-network".into());
                }
            }
            Op::Complete { .. } => {
                if accepted {
                    let weight = m.armed.as_ref().map(|c| c.weight).unwrap_or(false);
                    // commit: everything staged becomes permanent
                    let s = b.snapshot();
                    if s.armed {
                        fail(p, "commit:still-armed", format!("op #{op_no}: CommissioningComplete acknowledged but the fail-safe is still armed"));
                        return;
                    }
                    let expected: BTreeSet<u8> = m.fabrics.keys().copied().collect();
                    let have: BTreeSet<u8> = s.fabrics.keys().copied().collect();
                    if expected != have {
                        fail(
                            p,
                            "commit:fabric-set",
                            format!("op #{op_no}: after the acknowledged CommissioningComplete the fabric table holds {have:?}, expected {expected:?}"),
                        );
                        return;
                    }
                    let skip = m.tainted.clone();
                    if let Some((sig, d)) = check_reboot_image(&s, &skip, "commit") {
                        fail(
                            p,
                            &sig,
                            format!("op #{op_no}: CommissioningComplete was acknowledged{}; {d}", if kv_failed { " although a KV write failed" } else { "" }),
                        );
                        return;
                    }
                    if let Some(c) = m.armed.take() {
                        let _ = c;
                    }
                    m.pase_af = 0;
                    sess.pase = None;
                    if let Some(idx) = m.newest_new_fabric {
                        if m.fabrics.get(&idx).map(|k| *k == KIT_N0 + m.next_new_kit).unwrap_or(false) {
                            m.next_new_kit += 1;
                        }
                    }
                    // a fabric whose fate was open is settled by the commit as whatever is durable now
                    m.ambiguous.clear();
                    m.vid_touched.clear();
                    rebase(b, m);
                    p.labels.push("commit".into());
                    if kv_failed {
                        p.labels.push("commit-with-kv-failure".into());
                    }
                    if weight {
                        p.nontrivial = true;
                    }
                } else if kv_failed && m.armed.is_some() {
                    p.labels.push("complete-failed-by-kv".into());
                    if m.armed.as_ref().map(|c| c.weight).unwrap_or(false) {
                        p.nontrivial = true;
                    }
                    if !b.failsafe_armed() {
                        // refused and disarmed: then everything must have been undone
                        end_of_context(m, &mut sess);
                        if let Some((sig, d)) = check_against_base(b, m, "failed-commit") {
                            fail(
                                p,
                                &sig,
                                format!("op #{op_no}: CommissioningComplete failed ({}) because a KV write failed, the fail-safe is no longer armed, and yet: {d}", out.brief()),
                            );
                            return;
                        }
                        settle_ambiguous(b, m);
                    }
                }
            }
            _ => {}
        }
        // ---- after a command in the gap: let the next poll run, then everything the lapsed context
        // staged must be undone, whatever the device answered in the gap
        if let Some((old, expired_at)) = &lapsed {
            let to = expired_at + 1500 * MS;
            if to > clock::now() {
                b.run_for(to - clock::now());
            }
            p.labels.push("rollback-by-timer".into());
            if let Some(c) = &m.armed {
                // a context armed in the gap with a short timeout may be over already
                if clock::now() >= c.expires_at {
                    b.run_for(1500 * MS);
                    end_of_context(m, &mut sess);
                }
            }
            let new_context = m.armed.is_some();
            if let Some((sig, d)) = check_against_base_ex(b, m, "rollback-lapsed", new_context) {
                fail(
                    p,
                    &sig,
                    format!(
                        "op #{op_no}: {name} from {who_desc} arrived {} ms after the fail-safe context of fabric {} had run out, before the next timeout poll, and was answered {}; after the poll: {d}",
                        (now.saturating_sub(*expired_at)) / MS,
                        old.fabric,
                        out.brief()
                    ),
                );
                return;
            }
            let absent: Vec<u8> = (1u8..=254).filter(|i| b.failsafe_armed_for(*i) && !b.snapshot().fabrics.contains_key(i)).collect();
            if let Some(i) = absent.first() {
                fail(
                    p,
                    "lapsed:armed-for-absent-fabric",
                    format!("op #{op_no}: {name} from {who_desc} in the expiry-to-poll gap ({}); afterwards the fail-safe is armed for fabric {i}, which does not exist", out.brief()),
                );
                return;
            }
            settle_ambiguous(b, m);
        }

        // ---- armed state must agree with the model (Either-class ops may have ended the context)
        let dev_armed = b.failsafe_armed();
        if dev_armed != m.armed.is_some() {
            let may_end = matches!(op, Op::Revoke { .. }) || kv_failed;
            if m.armed.is_some() && !dev_armed && may_end {
                let weight = m.armed.as_ref().map(|c| c.weight).unwrap_or(false);
                end_of_context(m, &mut sess);
                p.labels.push("rollback-by-revoke".into());
                if weight {
                    p.nontrivial = true;
                }
                if let Some((sig, d)) = check_against_base(b, m, "rollback-revoke") {
                    fail(p, &sig, format!("after op #{op_no} ({name} from {who_desc}, {}): {d}", out.brief()));
                    return;
                }
                settle_ambiguous(b, m);
            } else {
                fail(
                    p,
                    &format!("state:armed-mismatch:{name}"),
                    format!(
                        "after op #{op_no} ({name} from {who_desc}, {}) the device's fail-safe is {} but by the command history it must be {} ({ctx_desc} before the command)",
                        out.brief(),
                        if dev_armed { "armed" } else { "not armed" },
                        if m.armed.is_some() { "armed" } else { "not armed" },
                    ),
                );
                return;
            }
        }
    }
}

/// A NOC of `kit` for a freshly generated key (i.e. not the key of any CSR).
fn noc_for_fresh_key<C: rs_matter::crypto::Crypto>(gen: &C, kit: &FabricKit, node: u64) -> Option<Vec<u8>> {
    vh::sim::fabric::new_member(gen, &kit.ca, node, &[]).ok().map(|m| m.noc)
}

fn check_history(case: &C08Case) -> Case {
    vh::sim::reset_universe();
    let net = Net::new(4);
    let gen = mk_crypto(case.seed ^ 0x5eed);

    // fabric material: A, B (pre-existing), N0, N1 (to be added)
    let mut kits = Vec::new();
    let mut dev_nodes = Vec::new();
    for (i, (fid, icac, admin)) in [(0xA1u64, false, 0x1001u64), (0xB2, true, 0x1002), (0xC3, false, 0x1003), (0xD4, true, 0x1004)].iter().enumerate() {
        match FabricKit::new(&gen, *fid, *icac, *admin, 3 + i as u8) {
            Ok(k) => kits.push(k),
            Err(e) => return Case::inconclusive(format!("fabric kit: {:?}", e.code())),
        }
        dev_nodes.push(0x2000 + i as u64);
    }
    let w = World { kits, dev_nodes };
    let mut pre: Vec<(&FabricKit, vh::sim::fabric::Member)> = Vec::new();
    for i in 0..case.preexisting as usize {
        match w.kits[i].device_member(&gen, w.dev_nodes[i]) {
            Ok(mm) => pre.push((&w.kits[i], mm)),
            Err(e) => return Case::inconclusive(format!("device member: {:?}", e.code())),
        }
    }
    let pre_refs: Vec<(&FabricKit, &vh::sim::fabric::Member)> = pre.iter().map(|(k, mm)| (*k, mm)).collect();
    let kv = match initial_kv(&gen, &pre_refs) {
        Ok(map) => MemKv::from_map(map),
        Err(e) => return Case::inconclusive(format!("initial kv: {:?}", e.code())),
    };

    let mut m = Model {
        armed: None,
        fabrics: (0..case.preexisting).map(|i| (i + 1, i as usize)).collect(),
        pase_af: 0,
        base_fabrics: BTreeMap::new(),
        base_text: BTreeMap::new(),
        base_networks: None,
        base_kv: BTreeMap::new(),
        ambiguous: BTreeSet::new(),
        tainted: BTreeSet::new(),
        vid_touched: BTreeSet::new(),
        next_new_kit: 0,
        newest_new_fabric: None,
        pre_arm_breadcrumb: 0,
    };
    let mut p = Progress { pos: 0, boot_no: 0, verdict: None, labels: Vec::new(), nontrivial: false, restart_pending: false, fail_armed: false };

    loop {
        // controllers are rebuilt at every boot: 0 = commissioner (new kits), 1 = admin of A, 2 = admin of B
        let ctrls = vec![new_controller(case.seed ^ p.boot_no, 0), new_controller(case.seed ^ p.boot_no, 1), new_controller(case.seed ^ p.boot_no, 2)];
        let mut ctrl_fab_idx = Vec::new();
        for k in 0..N_NEW_KITS {
            match ctrls[0].install(&w.kits[KIT_N0 + k]) {
                Ok(i) => ctrl_fab_idx.push(i),
                Err(e) => return Case::inconclusive(format!("controller fabric: {:?}", e.code())),
            }
        }
        let cfg = BootCfg {
            seed: case.seed.wrapping_add(p.boot_no.wrapping_mul(0x9e37)),
            net: if case.wifi { NetKind::Wifi } else { NetKind::Eth },
            resume: true,
            open_window_secs: if case.window_open { Some(900) } else { None },
            sched: match case.sched {
                None => Sched::Fifo,
                Some(s) => Sched::Seeded(s),
            },
        };
        p.restart_pending = false;
        // (the device has the application endpoints 1-4 with the Groups cluster besides the root endpoint)
        let r = boot_app(&cfg, &BootOpts::default(), &kv, &net, &ctrls, |b| {
            run_segment(b, case, &w, &mut m, &mut p, &ctrl_fab_idx);
            if p.verdict.is_none() && !p.restart_pending {
                // ---- end of history: let an armed fail-safe run out, then the final checks
                if let Some(ctx) = &m.armed {
                    let d = (ctx.expires_at + 1500 * MS).saturating_sub(clock::now());
                    b.run_for(d);
                    let weight = ctx.weight;
                    let mut sess = Sess { pase: None, case_a: None, case_b: None, case_new: None };
                    end_of_context(&mut m, &mut sess);
                    p.labels.push("rollback-by-timer".into());
                    if weight {
                        p.nontrivial = true;
                    }
                    if let Some((sig, d)) = check_against_base(b, &m, "rollback-timer") {
                        fail(&mut p, &sig, format!("at the end of the history: {d}"));
                    }
                } else if let Some((sig, d)) = check_against_base(b, &m, "final") {
                    fail(&mut p, &sig, format!("at the end of the history: {d}"));
                }
                if let Some(e) = b.dm_run_exited() {
                    fail(&mut p, "dm-run-terminated", format!("InteractionModel::run (fail-safe timer task) returned {e}"));
                }
            }
        });
        if let Err(e) = r {
            // the node did not come up from its own store
            if p.boot_no == 0 {
                return Case::inconclusive(format!("first boot failed: {e}"));
            }
            return Case::fail("restart:node-does-not-boot", format!("restart #{}: {e}", p.boot_no));
        }
        // drop stale datagrams of the previous incarnation
        net.set_up(0, false);
        net.set_up(0, true);
        for i in 1..4 {
            net.set_up(i, false);
            net.set_up(i, true);
        }
        if p.verdict.is_some() || !p.restart_pending {
            break;
        }
        p.boot_no += 1;
        kv.marker(format!("restart#{}", p.boot_no));
        if p.fail_armed {
            // an injected failure that nothing consumed must not hit the next incarnation's start-up:
            // burn it on a vendor key nobody reads
            use rs_matter::persist::KvBlobStore;
            let mut k = kv.clone();
            let before = kv_failed_count(&kv);
            for _ in 0..8 {
                let _ = k.store(0x1FFF, &[0], &mut []);
                if kv_failed_count(&kv) > before {
                    break;
                }
            }
            let _ = k.remove(0x1FFF, &mut []);
            p.fail_armed = false;
        }
    }

    if let Some(v) = p.verdict {
        return v;
    }
    let mut labels = p.labels;
    labels.sort();
    labels.dedup();
    Case::pass(p.nontrivial).labels(labels)
}

// ------------------------------------------------------------------------------------------
// `failsafe-api`: the fail-safe context object driven directly
// ------------------------------------------------------------------------------------------
//
// The Interaction Model looks for a timed-out fail-safe at the start of every exchange, so a
// command never meets a lapsed-but-unpolled context there. `FailSafe` itself must not rely on
// that: an armed context - lapsed or not - may only go away through `expire` / the timeout check
// / `disarm`, which undo or commit what it staged. `arm` from another session context on top of
// it must be refused, otherwise the old context is dropped with everything it staged left behind.

#[derive(Debug, Clone, Serialize, Deserialize)]
enum ApiOp {
    /// `FailSafe::arm(secs > 0)` from session context 0 = PASE, 1 = CASE fabric 1, 2 = CASE fabric 2
    Arm { ctx: u8, secs: u8 },
    Advance { ms: u16 },
    /// `FailSafe::check_failsafe_timeout` (what the once-per-second poll calls)
    Poll,
    /// `FailSafe::expire` (what ArmFailSafe(0) / RevokeCommissioning call)
    Expire,
}

#[derive(Debug, Clone, Serialize, Deserialize)]
struct ApiCase {
    ops: Vec<ApiOp>,
}

fn api_strategy() -> impl Strategy<Value = ApiCase> {
    prop::collection::vec(
        prop_oneof![
            5 => (0u8..3, 1u8..4).prop_map(|(ctx, secs)| ApiOp::Arm { ctx, secs }),
            4 => prop_oneof![1u16..50, 50u16..1200, 1200u16..4000].prop_map(|ms| ApiOp::Advance { ms }),
            2 => Just(ApiOp::Poll),
            1 => Just(ApiOp::Expire),
        ],
        1..24,
    )
    .prop_map(|ops| ApiCase { ops })
}

/// A key-value store access over a `MemKv` (the two commissioned fabrics live in it).
struct KvAcc(std::cell::RefCell<MemKv>);

impl rs_matter::persist::KvBlobStoreAccess for &KvAcc {
    fn access<F, R>(&self, f: F) -> R
    where
        F: FnOnce(&mut dyn rs_matter::persist::KvBlobStore, &mut [u8]) -> R,
    {
        let mut buf = vec![0u8; 4096];
        f(&mut *self.0.borrow_mut(), &mut buf)
    }
}

thread_local! {
    /// KV image with fabrics 1 and 2 commissioned (built once per worker thread, fixed seed)
    static API_KV: std::cell::OnceCell<Option<BTreeMap<u16, Vec<u8>>>> = const { std::cell::OnceCell::new() };
}

fn api_kv_image() -> Option<BTreeMap<u16, Vec<u8>>> {
    API_KV.with(|c| {
        c.get_or_init(|| {
            let gen = mk_crypto(0xA91);
            let a = FabricKit::new(&gen, 0xA1, false, 0x1001, 3).ok()?;
            let bb = FabricKit::new(&gen, 0xB2, false, 0x1002, 4).ok()?;
            let da = a.device_member(&gen, 0x2000).ok()?;
            let db = bb.device_member(&gen, 0x2001).ok()?;
            initial_kv(&gen, &[(&a, &da), (&bb, &db)]).ok()
        })
        .clone()
    })
}

fn check_failsafe_api(case: &ApiCase) -> Case {
    use rs_matter::dm::clusters::net_comm::DummyNetworkAccess;
    use rs_matter::failsafe::FailSafe;
    use rs_matter::fabric::Fabrics;
    use rs_matter::sc::pase::Pase;
    use rs_matter::transport::session::{NocCatIds, SessionMode, Sessions};

    vh::sim::reset_universe();
    let Some(image) = api_kv_image() else {
        return Case::inconclusive("cannot build the fabrics for the API check");
    };
    let kv = KvAcc(std::cell::RefCell::new(MemKv::from_map(image)));
    let mut fs = Box::new(FailSafe::new());
    let mut fabrics = Box::new(Fabrics::new());
    {
        let mut buf = vec![0u8; 4096];
        if let Err(e) = fabrics.load_persist(&mut *kv.0.borrow_mut(), &mut buf) {
            return Case::inconclusive(format!("cannot load the fabrics: {:?}", e.code()));
        }
    }
    let mut sessions = Box::new(Sessions::new());
    let mut pase = Box::new(Pase::new());
    let mode = |c: u8| match c {
        0 => SessionMode::Pase { fab_idx: 0 },
        f => SessionMode::Case { fab_idx: core::num::NonZeroU8::new(f).unwrap(), cat_ids: NocCatIds::default() },
    };
    // (context fabric, expires at)
    let mut model: Option<(u8, u64)> = None;
    let mut lapsed_arms = 0;
    for (i, op) in case.ops.iter().enumerate() {
        match op {
            ApiOp::Advance { ms } => clock::advance_by(*ms as u64 * MS),
            ApiOp::Poll => {
                let r = fs.check_failsafe_timeout(&mut fabrics, &mut sessions, DummyNetworkAccess, &kv, None, || {}, |_, _| {});
                if let Err(e) = r {
                    return Case::fail("api:timeout-check-failed", format!("op #{i}: check_failsafe_timeout returned {:?}", e.code()));
                }
                if let Some((_, exp)) = model {
                    if clock::now() >= exp {
                        model = None;
                    }
                }
            }
            ApiOp::Expire => {
                let r = fs.expire(&mut fabrics, &mut sessions, None, DummyNetworkAccess, &kv, || {}, |_, _| {});
                if let Err(e) = r {
                    return Case::fail("api:expire-failed", format!("op #{i}: expire returned {:?}", e.code()));
                }
                model = None;
            }
            ApiOp::Arm { ctx, secs } => {
                let r = fs.arm(*secs as u16, i as u64, &mode(*ctx), &mut pase);
                match (model, r.is_ok()) {
                    (None, true) => model = Some((*ctx, clock::now() + *secs as u64 * SEC)),
                    (None, false) => {
                        return Case::fail("api:arm-refused-while-idle", format!("op #{i}: arm({secs}) from context {ctx} refused although no context is armed"));
                    }
                    (Some((f, exp)), ok) => {
                        let lapsed = clock::now() >= exp;
                        if lapsed {
                            lapsed_arms += 1;
                        }
                        if f == *ctx {
                            // re-arm by the owner (of a lapsed context: either)
                            if ok {
                                model = Some((f, clock::now() + *secs as u64 * SEC));
                            } else if !lapsed {
                                return Case::fail("api:rearm-refused", format!("op #{i}: re-arm by the owning context {ctx} refused"));
                            }
                        } else if ok {
                            return Case::fail(
                                "api:armed-context-replaced-without-rollback",
                                format!(
                                    "op #{i}: arm({secs}) from session context {ctx} succeeded on top of the context of {f}, which {} and was never expired (no expire / timeout check in between): whatever it staged is left behind; is_armed_for({f}) = {}, is_armed_for({ctx}) = {}",
                                    if lapsed { "had run out but was not polled yet" } else { "was still running" },
                                    fs.is_armed_for(f),
                                    fs.is_armed_for(*ctx)
                                ),
                            );
                        }
                    }
                }
            }
        }
        if fs.is_armed() != model.is_some() {
            return Case::fail(
                "api:armed-flag",
                format!("after op #{i} ({op:?}) is_armed() = {} but by the history it must be {}", fs.is_armed(), model.is_some()),
            );
        }
        if let Some((f, _)) = model {
            if !fs.is_armed_for(f) {
                return Case::fail("api:armed-for", format!("after op #{i} ({op:?}) the context is not armed for {f} any more"));
            }
        }
    }
    Case::pass(lapsed_arms > 0).label(if lapsed_arms > 0 { "arm-on-lapsed-unpolled-context" } else { "no-lapsed-arm" })
}

fn main() {
    let mut run = Run::new(
        "C08",
        "exploration",
        "histories of up to 44 administrative operations (ArmFailSafe 0/short/long, CSRRequest add/update, AddTrustedRootCertificate good/corrupt, AddNOC/UpdateNOC good/wrong key/bad admin subject, ACL writes, key-set writes/removals, group key map writes and AddGroup / RemoveGroup / RemoveAllGroups on the application endpoints 1-4, Wi-Fi add/remove, SetRegulatoryConfig, CommissioningComplete, RevokeCommissioning, OpenBasicCommissioningWindow) from {PASE, CASE of existing fabric A, CASE of existing fabric B, CASE of the fabric being commissioned}, built from 1-3 well-ordered commissioning flows perturbed by insert/delete/duplicate/swap/re-address/truncate edits plus random operations, with waits, timer expiry, restarts and fail-the-n-th-KV-write in between, on a device with 0-2 pre-existing fabrics (Wi-Fi or Ethernet root endpoint, sessions planted or established by real PASE/CASE handshakes). Non-trivial: the history reached an accepted AddNOC or UpdateNOC, or an accepted ACL/key-set/network write under a fail-safe armed for that fabric, before that fail-safe context ended in a rollback (timer, ArmFailSafe(0), revoke, restart) or a commit; distinct = distinct serialized history",
    );
    run.assume("the reference state machine is written from the Matter Core specification text of ArmFailSafe, CSRRequest, AddTrustedRootCertificate, AddNOC, UpdateNOC and CommissioningComplete; 'session context' = accessing fabric (PASE before AddNOC = no fabric), as in the specification");
    run.assume("a repeated CSRRequest, AddTrustedRootCertificate of an already installed root, and all ACL/group/network/regulatory/window commands whose preconditions are met may be accepted or refused (class 'either'); what they changed is tracked from the observed outcome");
    run.assume("writes to a fabric the fail-safe is not armed for are permanent at once and become part of the state to return to; ACL/key-set changes staged for the arming fabric before an AddNOC moved the context to the new fabric are only required to be consistent with the reboot image");
    run.assume("KV failures consumed by commands other than CommissioningComplete only exclude the written fabric from the comparisons");
    run.assume("at most one injected KV write failure is pending at a time (a second failure hitting the write that undoes a half-done two-key commit cannot be survived by any implementation of the non-transactional KvBlobStore interface); a pending failure does not survive a restart");
    run.assume("PASE establishment may arm the fail-safe for 60 s (as the CHIP SDK does); the commissioning window state is read from the device, not modelled");
    run.assume("extended-histories only: UpdateFabricLabel and SetVIDVerificationStatement may be accepted or refused; the label is a setting of its fabric like the ACL; a VID verification statement set while the fail-safe is armed for the fabric without AddNOC/UpdateNOC may be permanent (specification) or undone (statement): the VID fields of that fabric are left out of the rollback comparison");
    run.assume("hook MatterState::verif_failsafe() is a read-only accessor; sessions are planted with ReservedSession like rs-matter's own tests");
    let n = run.cases(2_000, 100_000);
    run.prop("histories", n, || case_strategy(false), check_history);
    // The same histories with two more fabric-scoped commands that are not in the property's
    // command list but change what the snapshot covers (label, VID verification statement).
    let n = run.cases(1_000, 50_000);
    run.prop("extended-histories", n, || case_strategy(true), check_history);
    // the fail-safe object driven directly (no exchange-start timeout check in front of it)
    let n = run.cases(20_000, 500_000);
    run.prop("failsafe-api", n, api_strategy, check_failsafe_api);
    run.finish();
}
