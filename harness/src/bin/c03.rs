//! C03 — Secured messages are accepted only if authentic for that session and direction.
//!
//! Level L1 (component): `PacketHdr::encode` <-> `PacketHdr::decode_plain_hdr` +
//! `PacketHdr::decode_remaining`, driven exactly the way `transport.rs` / `session.rs` drive
//! them (buffer layout of `write_packet`/`encode_packet`, nonce node id = the sender's
//! `local_nodeid` on encode, the session's `peer_nodeid` on unicast decode, the packet's own
//! source node id on group decode).
//!
//! Oracles (all written from the property statement and the Matter message format, none from
//! the implementation):
//!
//! * `reference-kat`     — the harness' own spec-derived encoder (header layout, nonce =
//!                         security flags | counter | source node id, AAD = complete unencrypted
//!                         header, AES-128-CCM with a 16 byte tag) reproduces the two wire
//!                         vectors captured from chip-tool, and rs-matter decodes them.
//! * `roundtrip`         — what rs-matter encodes (a) is byte-identical to the reference
//!                         encoding (differential), and (b) decodes on the receiving side to the
//!                         identical header fields and payload (round trip). Packets only a
//!                         foreign peer could produce (P / MX / SX / DSIZ=3) are built by the
//!                         reference encoder: "accepted => identical", rejection allowed.
//! * `tamper`            — one alteration of a secured packet (bit flips, byte changes,
//!                         truncation, extension, other key, the session's own encrypt key =
//!                         opposite direction, another source node in the nonce, a packet forged
//!                         under another source node id, security-/message-flags byte replaced,
//!                         header field overwritten, header/body spliced from another message
//!                         of the same session) must be rejected.
//! * `unsecured-tamper`  — unsecured packets carry no tag: an altered packet either errors or
//!                         decodes to exactly the altered bytes (reference parser); never panics.
//! * `length-sweep`      — the round trip / differential check for EVERY payload length from 0 to
//!                         the TX maximum (and, encoded by a peer, up to the 1280 byte MTU) for
//!                         the canonical shape of each mode.
//! * `small-exhaustive`  — for a table of small packets of every mode/shape: EVERY single-bit
//!                         flip, EVERY truncation and extensions by 1..=17 bytes.
//!
//! Levels L2/L3 (node level: rejected => session snapshot unchanged) are added to `main()`
//! as further `run.prop`/`run.exhaustive` calls.

use std::fmt::Write as _;

use aes::Aes128;
use ccm::aead::generic_array::GenericArray;
use ccm::consts::{U13, U16};
use ccm::{AeadInPlace, Ccm, KeyInit};

use proptest::prelude::*;
use serde::{Deserialize, Serialize};

use rs_matter::crypto::{test_only_crypto, CanonAeadKeyRef};
use rs_matter::transport::network::{MAX_RX_PACKET_SIZE, MAX_TX_PACKET_SIZE};
use rs_matter::transport::packet::PacketHdr;
use rs_matter::transport::MAX_TX_PAYLOAD_SIZE;
use rs_matter::utils::storage::{ParseBuf, WriteBuf};

use vh::util::{hex, pick};
use vh::{Case, Run};

const TAG_LEN: usize = 16;

// ---------------------------------------------------------------------------------------------
// Case description
// ---------------------------------------------------------------------------------------------

#[derive(Debug, Clone, Copy, PartialEq, Eq, Serialize, Deserialize)]
enum Mode {
    /// PASE session: both node ids are the unspecified node id 0.
    Pase,
    /// CASE session: operational node ids.
    Case,
    /// Group session: one symmetric operational group key, source node id always on the wire.
    Group,
    /// Unsecured session (session id 0, no key, no tag).
    Plain,
}

impl Mode {
    fn name(self) -> &'static str {
        match self {
            Mode::Pase => "pase",
            Mode::Case => "case",
            Mode::Group => "group",
            Mode::Plain => "plain",
        }
    }
}

#[derive(Debug, Clone, Copy, PartialEq, Eq, Serialize, Deserialize)]
enum Dst {
    None,
    Node(u64),
    Group(u16),
}

/// The two ends of one session, seen from the SENDER of the message under test.
#[derive(Debug, Clone, Serialize, Deserialize)]
struct Sess {
    mode: Mode,
    /// sender's encrypt key == receiver's decrypt key
    key_tx: [u8; 16],
    /// sender's decrypt key == receiver's encrypt key (opposite direction); for group
    /// sessions both directions use `key_tx`
    key_rx: [u8; 16],
    /// sender's `local_nodeid` == the `peer_nodeid` the receiver established the session with
    sender_node: u64,
    receiver_node: u64,
    /// the receiver's local session id (what the sender puts on the wire)
    sess_id: u16,
}

/// Things only a foreign peer can put on the wire (rs-matter has no way to encode them).
#[derive(Debug, Clone, Default, PartialEq, Eq, Serialize, Deserialize)]
struct Exotic {
    privacy: bool,
    /// Message Extensions block (MX flag), content without the 2-byte length
    mx: Option<Vec<u8>>,
    /// Secured Extensions block (SX flag), content without the 2-byte length
    sx: Option<Vec<u8>>,
    /// DSIZ = 3 (reserved), no destination bytes
    dsiz3: bool,
}

impl Exotic {
    fn any(&self) -> bool {
        self.privacy || self.mx.is_some() || self.sx.is_some() || self.dsiz3
    }
}

#[derive(Debug, Clone, Serialize, Deserialize)]
struct Msg {
    /// "canonical" = the shape `Session::pre_send` produces for this mode, "free" = any
    /// combination reachable through the public setters, "exotic" = foreign-peer only
    shape: String,
    ctr: u32,
    src: Option<u64>,
    dst: Dst,
    control: bool,
    exch_id: u16,
    proto_id: u16,
    opcode: u8,
    initiator: bool,
    reliable: bool,
    ack: Option<u32>,
    vendor: Option<u16>,
    payload_len: u16,
    /// payload bytes = deterministic expansion of the seed (0 = all zero)
    payload_seed: u64,
    exotic: Exotic,
    /// encoded by the reference encoder (= a conforming foreign peer) instead of rs-matter;
    /// such messages may be larger than rs-matter's TX buffer (up to the 1280 byte IPv6 MTU)
    by_peer: bool,
}

fn expand(seed: u64, len: usize) -> Vec<u8> {
    let mut out = Vec::with_capacity(len);
    if seed == 0 {
        out.resize(len, 0);
        return out;
    }
    let mut x = seed;
    while out.len() < len {
        x ^= x >> 12;
        x ^= x << 25;
        x ^= x >> 27;
        let v = x.wrapping_mul(0x2545_f491_4f6c_dd1d);
        for b in v.to_le_bytes() {
            if out.len() < len {
                out.push(b);
            }
        }
    }
    out
}

impl Msg {
    fn payload(&self) -> Vec<u8> {
        expand(self.payload_seed, self.payload_len as usize)
    }

    fn msg_flags(&self) -> u8 {
        let dsiz = if self.exotic.dsiz3 {
            3
        } else {
            match self.dst {
                Dst::None => 0,
                Dst::Node(_) => 1,
                Dst::Group(_) => 2,
            }
        };
        (if self.src.is_some() { 0x04 } else { 0 }) | dsiz
    }

    fn sec_flags(&self, mode: Mode) -> u8 {
        (if self.exotic.privacy { 0x80 } else { 0 })
            | (if self.control { 0x40 } else { 0 })
            | (if self.exotic.mx.is_some() { 0x20 } else { 0 })
            | (if mode == Mode::Group { 0x01 } else { 0 })
    }

    fn exch_flags(&self) -> u8 {
        (if self.initiator { 0x01 } else { 0 })
            | (if self.ack.is_some() { 0x02 } else { 0 })
            | (if self.reliable { 0x04 } else { 0 })
            | (if self.exotic.sx.is_some() { 0x08 } else { 0 })
            | (if self.vendor.is_some() { 0x10 } else { 0 })
    }
}

// ---------------------------------------------------------------------------------------------
// Reference model: the Matter message format, written from the specification
// ---------------------------------------------------------------------------------------------

/// The unencrypted message header: Message Flags | Session ID | Security Flags | Message
/// Counter | [Source Node ID] | [Destination Node ID / Group ID] | [Message Extensions].
fn ref_plain_hdr(sess: &Sess, msg: &Msg) -> Vec<u8> {
    let mut h = Vec::with_capacity(32);
    h.push(msg.msg_flags());
    h.extend_from_slice(&sess.sess_id.to_le_bytes());
    h.push(msg.sec_flags(sess.mode));
    h.extend_from_slice(&msg.ctr.to_le_bytes());
    if let Some(src) = msg.src {
        h.extend_from_slice(&src.to_le_bytes());
    }
    if !msg.exotic.dsiz3 {
        match msg.dst {
            Dst::None => {}
            Dst::Node(n) => h.extend_from_slice(&n.to_le_bytes()),
            Dst::Group(g) => h.extend_from_slice(&g.to_le_bytes()),
        }
    }
    if let Some(mx) = &msg.exotic.mx {
        h.extend_from_slice(&(mx.len() as u16).to_le_bytes());
        h.extend_from_slice(mx);
    }
    h
}

/// The protected part: Exchange Flags | Protocol Opcode | Exchange ID | Protocol ID |
/// [Protocol Vendor ID] | [Acknowledged Message Counter] | [Secured Extensions] | payload.
///
/// The relative order of Protocol ID and Protocol Vendor ID is not something the property
/// statement fixes, so both orders are accepted (`vendor_first`).
fn ref_protected(msg: &Msg, vendor_first: bool) -> Vec<u8> {
    let mut b = Vec::with_capacity(16 + msg.payload_len as usize);
    b.push(msg.exch_flags());
    b.push(msg.opcode);
    b.extend_from_slice(&msg.exch_id.to_le_bytes());
    match (msg.vendor, vendor_first) {
        (Some(v), true) => {
            b.extend_from_slice(&v.to_le_bytes());
            b.extend_from_slice(&msg.proto_id.to_le_bytes());
        }
        (Some(v), false) => {
            b.extend_from_slice(&msg.proto_id.to_le_bytes());
            b.extend_from_slice(&v.to_le_bytes());
        }
        (None, _) => b.extend_from_slice(&msg.proto_id.to_le_bytes()),
    }
    if let Some(a) = msg.ack {
        b.extend_from_slice(&a.to_le_bytes());
    }
    if let Some(sx) = &msg.exotic.sx {
        b.extend_from_slice(&(sx.len() as u16).to_le_bytes());
        b.extend_from_slice(sx);
    }
    b.extend_from_slice(&msg.payload());
    b
}

/// AES-128-CCM, 13 byte nonce, 16 byte tag; nonce = Security Flags | Message Counter (LE) |
/// Source Node ID (LE); associated data = the complete unencrypted header.
fn ref_seal(key: &[u8; 16], sec_flags: u8, ctr: u32, nonce_node: u64, aad: &[u8], body: &mut Vec<u8>) {
    let mut nonce = [0u8; 13];
    nonce[0] = sec_flags;
    nonce[1..5].copy_from_slice(&ctr.to_le_bytes());
    nonce[5..13].copy_from_slice(&nonce_node.to_le_bytes());
    let cipher = Ccm::<Aes128, U16, U13>::new(GenericArray::from_slice(key));
    match cipher.encrypt_in_place_detached(GenericArray::from_slice(&nonce), aad, body) {
        Ok(tag) => body.extend_from_slice(&tag),
        // cannot happen for these sizes; a harness panic is reported as inconclusive
        Err(_) => panic!("reference CCM refused to encrypt"),
    }
}

/// What a spec-conforming sender with encrypt key `key` and node id `nonce_node` emits.
fn ref_encode(sess: &Sess, msg: &Msg, key: Option<&[u8; 16]>, nonce_node: u64, vendor_first: bool) -> Vec<u8> {
    let hdr = ref_plain_hdr(sess, msg);
    let mut body = ref_protected(msg, vendor_first);
    if let Some(key) = key {
        ref_seal(key, msg.sec_flags(sess.mode), msg.ctr, nonce_node, &hdr, &mut body);
    }
    let mut out = hdr;
    out.extend_from_slice(&body);
    out
}

/// Length of the unencrypted header announced by the first bytes of `b`, if it is well formed
/// enough to reach the decryption step (all flag bits known to the spec, long enough).
fn ref_plain_hdr_len(b: &[u8]) -> Option<usize> {
    if b.len() < 8 {
        return None;
    }
    let f = b[0];
    if f & 0xf8 != 0 {
        return None;
    }
    let mut n = 8;
    if f & 0x04 != 0 {
        n += 8;
    }
    n += match f & 3 {
        1 => 8,
        2 => 2,
        _ => 0,
    };
    if b[3] & 0x1e != 0 {
        return None;
    }
    (b.len() >= n).then_some(n)
}

/// The fields of a decoded message (what the oracle compares).
#[derive(Debug, Clone, PartialEq, Eq)]
struct Fields {
    msg_flags: u8,
    sess_id: u16,
    sec_flags: u8,
    ctr: u32,
    src: Option<u64>,
    dst_node: Option<u64>,
    dst_group: Option<u16>,
    exch_flags: u8,
    opcode: u8,
    exch_id: u16,
    proto_id: u16,
    vendor: Option<u16>,
    ack: Option<u32>,
    payload: Vec<u8>,
}

fn expected_fields(sess: &Sess, msg: &Msg) -> Fields {
    Fields {
        msg_flags: msg.msg_flags(),
        sess_id: sess.sess_id,
        sec_flags: msg.sec_flags(sess.mode),
        ctr: msg.ctr,
        src: msg.src,
        dst_node: match (msg.dst, msg.exotic.dsiz3) {
            (Dst::Node(n), false) => Some(n),
            _ => None,
        },
        dst_group: match (msg.dst, msg.exotic.dsiz3) {
            (Dst::Group(g), false) => Some(g),
            _ => None,
        },
        exch_flags: msg.exch_flags(),
        opcode: msg.opcode,
        exch_id: msg.exch_id,
        proto_id: msg.proto_id,
        vendor: msg.vendor,
        ack: msg.ack,
        payload: msg.payload(),
    }
}

enum RefParse {
    /// not a well-formed message: too short for the fields its flags announce
    Malformed(&'static str),
    /// uses reserved / unsupported encodings the property statement says nothing about
    Unspecified(&'static str),
    /// `payload_unspecified` = header fields are defined, the payload split is not (SX)
    Msg { fields: Fields, payload_unspecified: bool },
}

/// Reference parser of an UNSECURED message (no key, no tag).
fn ref_parse_unsecured(b: &[u8], vendor_first: bool) -> RefParse {
    fn take<'a>(b: &'a [u8], at: &mut usize, n: usize) -> Option<&'a [u8]> {
        if b.len() - *at < n {
            return None;
        }
        let s = &b[*at..*at + n];
        *at += n;
        Some(s)
    }
    fn u16le(s: &[u8]) -> u16 {
        u16::from_le_bytes([s[0], s[1]])
    }
    fn u32le(s: &[u8]) -> u32 {
        u32::from_le_bytes([s[0], s[1], s[2], s[3]])
    }
    fn u64le(s: &[u8]) -> u64 {
        let mut a = [0u8; 8];
        a.copy_from_slice(s);
        u64::from_le_bytes(a)
    }

    let mut at = 0usize;
    let Some(fixed) = take(b, &mut at, 8) else {
        return RefParse::Malformed("shorter than the fixed header");
    };
    let msg_flags = fixed[0];
    let sess_id = u16le(&fixed[1..3]);
    let sec_flags = fixed[3];
    let ctr = u32le(&fixed[4..8]);
    if msg_flags & 0xf8 != 0 {
        return RefParse::Unspecified("version / reserved message flag bits");
    }
    if msg_flags & 3 == 3 {
        return RefParse::Unspecified("DSIZ = 3");
    }
    if sec_flags & !0x41 != 0 {
        return RefParse::Unspecified("P / MX / reserved security flag bits");
    }
    if sess_id != 0 || sec_flags & 0x01 != 0 {
        // the header claims a secured session: real callers never decode this without a key
        return RefParse::Unspecified("header of a secured session");
    }
    let mut src = None;
    if msg_flags & 0x04 != 0 {
        match take(b, &mut at, 8) {
            Some(s) => src = Some(u64le(s)),
            None => return RefParse::Malformed("truncated source node id"),
        }
    }
    let mut dst_node = None;
    let mut dst_group = None;
    match msg_flags & 3 {
        1 => match take(b, &mut at, 8) {
            Some(s) => dst_node = Some(u64le(s)),
            None => return RefParse::Malformed("truncated destination node id"),
        },
        2 => match take(b, &mut at, 2) {
            Some(s) => dst_group = Some(u16le(s)),
            None => return RefParse::Malformed("truncated destination group id"),
        },
        _ => {}
    }
    let Some(p) = take(b, &mut at, 4) else {
        return RefParse::Malformed("truncated protocol header");
    };
    let exch_flags = p[0];
    let opcode = p[1];
    let exch_id = u16le(&p[2..4]);
    if exch_flags & 0xe0 != 0 {
        return RefParse::Unspecified("reserved exchange flag bits");
    }
    let has_vendor = exch_flags & 0x10 != 0;
    let mut vendor = None;
    if has_vendor && vendor_first {
        match take(b, &mut at, 2) {
            Some(s) => vendor = Some(u16le(s)),
            None => return RefParse::Malformed("truncated vendor id"),
        }
    }
    let proto_id = match take(b, &mut at, 2) {
        Some(s) => u16le(s),
        None => return RefParse::Malformed("truncated protocol id"),
    };
    if has_vendor && !vendor_first {
        match take(b, &mut at, 2) {
            Some(s) => vendor = Some(u16le(s)),
            None => return RefParse::Malformed("truncated vendor id"),
        }
    }
    let mut ack = None;
    if exch_flags & 0x02 != 0 {
        match take(b, &mut at, 4) {
            Some(s) => ack = Some(u32le(s)),
            None => return RefParse::Malformed("truncated acknowledged counter"),
        }
    }
    RefParse::Msg {
        fields: Fields {
            msg_flags,
            sess_id,
            sec_flags,
            ctr,
            src,
            dst_node,
            dst_group,
            exch_flags,
            opcode,
            exch_id,
            proto_id,
            vendor,
            ack,
            payload: b[at..].to_vec(),
        },
        payload_unspecified: exch_flags & 0x08 != 0,
    }
}

// ---------------------------------------------------------------------------------------------
// Driving rs-matter the way transport.rs / session.rs do
// ---------------------------------------------------------------------------------------------

/// `Transport::write_packet` + `encode_packet` + `Session::encode`: the payload is written at
/// `HDR_RESERVE` into a TX-sized buffer, then `PacketHdr::encode(crypto, enc_key, local_nodeid)`
/// prepends the headers and appends the tag.
fn sut_encode(sess: &Sess, msg: &Msg) -> Result<Vec<u8>, String> {
    let crypto = test_only_crypto();
    let payload = msg.payload();

    let mut hdr = PacketHdr::new();
    hdr.reset();
    hdr.plain.sess_id = sess.sess_id;
    hdr.plain.ctr = msg.ctr;
    hdr.plain.set_src_nodeid(msg.src);
    match msg.dst {
        Dst::None => hdr.plain.set_dst_unicast_nodeid(None),
        Dst::Node(n) => hdr.plain.set_dst_unicast_nodeid(Some(n)),
        Dst::Group(g) => hdr.plain.set_dst_groupcast_nodeid(Some(g)),
    }
    hdr.plain.set_group_session(sess.mode == Mode::Group);
    hdr.plain.set_control_msg(msg.control);

    hdr.proto.exch_id = msg.exch_id;
    hdr.proto.proto_id = msg.proto_id;
    hdr.proto.proto_opcode = msg.opcode;
    hdr.proto.set_vendor(msg.vendor);
    hdr.proto.set_ack(msg.ack);
    if msg.reliable {
        hdr.proto.set_reliable();
    } else {
        hdr.proto.unset_reliable();
    }
    if msg.initiator {
        hdr.proto.set_initiator();
    } else {
        hdr.proto.unset_initiator();
    }

    let mut buf = vec![0u8; MAX_TX_PACKET_SIZE];
    let mut wb = WriteBuf::new_with(&mut buf, PacketHdr::HDR_RESERVE, PacketHdr::HDR_RESERVE);
    wb.append(&payload)
        .map_err(|e| format!("payload does not fit the TX buffer: {:?}", e.code()))?;
    let (start, end) = (wb.get_start(), wb.get_tail());

    let mut wb = WriteBuf::new_with(&mut buf, start, end);
    let key = (sess.mode != Mode::Plain).then(|| CanonAeadKeyRef::new(&sess.key_tx));
    hdr.encode(&crypto, key, sess.sender_node, &mut wb)
        .map_err(|e| format!("PacketHdr::encode: {:?}", e.code()))?;
    Ok(wb.as_slice().to_vec())
}

/// How the receiving side learns the node id for the nonce.
#[derive(Debug, Clone, Copy)]
enum NonceFrom {
    /// unicast: `Session::decode_remaining` uses the session's `peer_nodeid`
    Session(u64),
    /// group: `Sessions::get_or_create_for_group_rx` uses the packet's own source node id
    /// (and refuses packets without one)
    PacketSource,
}

/// `Transport::decode_packet`: fresh header, `decode_plain_hdr`, then `decode_remaining` with
/// the receiving session's decrypt key; what is left in the `ParseBuf` is the payload handed
/// to the exchange.
fn sut_decode(bytes: &[u8], key: Option<&[u8; 16]>, nonce: NonceFrom) -> Result<Fields, String> {
    let crypto = test_only_crypto();
    let mut buf = bytes.to_vec();
    let mut hdr = PacketHdr::new();
    hdr.reset();
    let mut pb = ParseBuf::new(&mut buf[..]);
    hdr.decode_plain_hdr(&mut pb)
        .map_err(|e| format!("plain header: {:?}", e.code()))?;
    let node = match nonce {
        NonceFrom::Session(n) => n,
        NonceFrom::PacketSource => hdr
            .plain
            .get_src_nodeid()
            .ok_or_else(|| "group message without source node id".to_string())?,
    };
    hdr.decode_remaining(&crypto, key.map(CanonAeadKeyRef::new), node, &mut pb)
        .map_err(|e| format!("decode_remaining: {:?}", e.code()))?;
    Ok(Fields {
        msg_flags: hdr.plain.verif_msg_flag_bits(),
        sess_id: hdr.plain.sess_id,
        sec_flags: hdr.plain.verif_sec_flag_bits(),
        ctr: hdr.plain.ctr,
        src: hdr.plain.get_src_nodeid(),
        dst_node: hdr.plain.get_dst_unicast_nodeid(),
        dst_group: hdr.plain.get_dst_groupcast_nodeid(),
        exch_flags: hdr.proto.verif_exch_flag_bits(),
        opcode: hdr.proto.proto_opcode,
        exch_id: hdr.proto.exch_id,
        proto_id: hdr.proto.proto_id,
        vendor: hdr.proto.get_vendor(),
        ack: hdr.proto.get_ack(),
        payload: pb.as_slice().to_vec(),
    })
}

/// The receiving end of `sess`: its decrypt key and where it takes the nonce node id from.
fn receiver_view(sess: &Sess) -> (Option<[u8; 16]>, NonceFrom) {
    match sess.mode {
        Mode::Plain => (None, NonceFrom::Session(0)),
        Mode::Group => (Some(sess.key_tx), NonceFrom::PacketSource),
        Mode::Pase | Mode::Case => (Some(sess.key_tx), NonceFrom::Session(sess.sender_node)),
    }
}

fn first_diff(a: &Fields, b: &Fields) -> &'static str {
    if a.msg_flags != b.msg_flags {
        "msg-flags"
    } else if a.sess_id != b.sess_id {
        "sess-id"
    } else if a.sec_flags != b.sec_flags {
        "sec-flags"
    } else if a.ctr != b.ctr {
        "ctr"
    } else if a.src != b.src {
        "src-node"
    } else if a.dst_node != b.dst_node || a.dst_group != b.dst_group {
        "dst"
    } else if a.exch_flags != b.exch_flags {
        "exch-flags"
    } else if a.opcode != b.opcode {
        "opcode"
    } else if a.exch_id != b.exch_id {
        "exch-id"
    } else if a.proto_id != b.proto_id {
        "proto-id"
    } else if a.vendor != b.vendor {
        "vendor"
    } else if a.ack != b.ack {
        "ack"
    } else if a.payload != b.payload {
        "payload"
    } else {
        "none"
    }
}

fn show(f: &Fields) -> String {
    let mut s = String::new();
    let _ = write!(
        s,
        "{{msg_flags:{:#04x} sess:{:#06x} sec_flags:{:#04x} ctr:{:#x} src:{:x?} dst_node:{:x?} dst_group:{:x?} exch_flags:{:#04x} opcode:{:#x} exch:{:#x} proto:{:#x} vendor:{:x?} ack:{:x?} payload[{}]:{}}}",
        f.msg_flags, f.sess_id, f.sec_flags, f.ctr, f.src, f.dst_node, f.dst_group, f.exch_flags,
        f.opcode, f.exch_id, f.proto_id, f.vendor, f.ack, f.payload.len(),
        hex(&f.payload[..f.payload.len().min(24)])
    );
    s
}

fn short_hex(b: &[u8]) -> String {
    if b.len() <= 96 {
        hex(b)
    } else {
        format!("{}..({} bytes)..{}", hex(&b[..48]), b.len(), hex(&b[b.len() - 24..]))
    }
}

fn payload_class(n: usize) -> &'static str {
    match n {
        0 => "payload=0",
        1..=64 => "payload=1..64",
        _ if n > MAX_TX_PAYLOAD_SIZE => "payload>tx-max(peer)",
        _ if n >= MAX_TX_PAYLOAD_SIZE - 16 => "payload=max-16..max",
        _ => "payload=65..max-17",
    }
}

/// Name of the region of a (secured or unsecured) encoded message a byte offset falls in.
fn region(base: &[u8], secured: bool, off: usize) -> &'static str {
    let f = base[0];
    let src_end = 8 + if f & 0x04 != 0 { 8 } else { 0 };
    let dst_end = src_end
        + match f & 3 {
            1 => 8,
            2 => 2,
            _ => 0,
        };
    if off == 0 {
        "msg-flags"
    } else if off < 3 {
        "sess-id"
    } else if off == 3 {
        "sec-flags"
    } else if off < 8 {
        "ctr"
    } else if off < src_end {
        "src-node"
    } else if off < dst_end {
        "dst"
    } else if secured && off + TAG_LEN >= base.len() {
        "tag"
    } else if secured {
        "ciphertext"
    } else {
        "body"
    }
}

// ---------------------------------------------------------------------------------------------
// Sub-check `roundtrip`
// ---------------------------------------------------------------------------------------------

#[derive(Debug, Clone, Serialize, Deserialize)]
struct RtCase {
    sess: Sess,
    msg: Msg,
}

/// Encode the base packet of a case: rs-matter for everything it can express, the reference
/// encoder (= a foreign peer) for exotic shapes.
fn base_packet(sess: &Sess, msg: &Msg) -> Result<Vec<u8>, Case> {
    if msg.exotic.any() || msg.by_peer {
        let key = (sess.mode != Mode::Plain).then_some(&sess.key_tx);
        Ok(ref_encode(sess, msg, key, sess.sender_node, false))
    } else {
        sut_encode(sess, msg).map_err(|e| {
            Case::fail(
                "encode:error",
                format!("encoding a {}-byte payload (max {MAX_TX_PAYLOAD_SIZE}) failed: {e}", msg.payload_len),
            )
        })
    }
}

fn check_roundtrip(c: &RtCase) -> Case {
    let (sess, msg) = (&c.sess, &c.msg);
    let secured = sess.mode != Mode::Plain;
    let labels = vec![
        format!("mode={}", sess.mode.name()),
        format!("shape={}", msg.shape),
        payload_class(msg.payload_len as usize).to_string(),
    ];
    let (rx_key, rx_nonce) = receiver_view(sess);
    let want = expected_fields(sess, msg);

    if msg.exotic.any() {
        // Only a foreign peer can produce this packet. The statement does not say whether a
        // node must understand P / MX / SX / DSIZ=3; it does say that whatever is handed on is
        // what was authenticated.
        let key = secured.then_some(&sess.key_tx);
        let wire = ref_encode(sess, msg, key, sess.sender_node, false);
        return match sut_decode(&wire, rx_key.as_ref(), rx_nonce) {
            Err(_) => Case::pass(false).labels(labels).label("exotic:rejected"),
            // no tag on unsecured messages: how a node that does not implement P / MX / SX
            // splits such a message is not an authenticity question (only: no panic)
            Ok(_) if !secured => Case::pass(false).labels(labels).label("exotic:unsecured-unspecified"),
            Ok(got) => {
                let mut alt = want.clone();
                if let Some(sx) = &msg.exotic.sx {
                    // SX: whether the extension block is skipped is outside this property
                    let mut p = (sx.len() as u16).to_le_bytes().to_vec();
                    p.extend_from_slice(sx);
                    p.extend_from_slice(&want.payload);
                    alt.payload = p;
                }
                if got == want || got == alt {
                    Case::pass(secured).labels(labels).label("exotic:accepted-identical")
                } else {
                    Case::fail(
                        format!("exotic:accepted-different:{}", first_diff(&got, &want)),
                        format!("a peer's packet {} was accepted but decoded to {} instead of {}", short_hex(&wire), show(&got), show(&want)),
                    )
                }
            }
        };
    }

    if msg.by_peer {
        // What a conforming peer encodes for this session (all fields within what the
        // statement quantifies over) must be accepted and decode identically.
        let key = secured.then_some(&sess.key_tx);
        let wire = ref_encode(sess, msg, key, sess.sender_node, false);
        return match sut_decode(&wire, rx_key.as_ref(), rx_nonce) {
            Err(e) => Case::fail(
                "peer:rejected",
                format!("rejected ({e}) the genuine {}-byte packet {} of a peer, {}", wire.len(), short_hex(&wire), show(&want)),
            ),
            Ok(got) if got != want => Case::fail(
                format!("peer:field:{}", first_diff(&got, &want)),
                format!("a peer encoded {} which decoded as {} (wire {})", show(&want), show(&got), short_hex(&wire)),
            ),
            Ok(_) => Case::pass(secured).labels(labels),
        };
    }

    let wire = match sut_encode(sess, msg) {
        Ok(w) => w,
        Err(e) => {
            return Case::fail(
                "encode:error",
                format!("encoding a {}-byte payload (max {MAX_TX_PAYLOAD_SIZE}) failed: {e}", msg.payload_len),
            )
        }
    };

    // (a) differential: the wire image is the one the message format prescribes
    let key = secured.then_some(&sess.key_tx);
    let ref_a = ref_encode(sess, msg, key, sess.sender_node, false);
    let matches = wire == ref_a || (msg.vendor.is_some() && wire == ref_encode(sess, msg, key, sess.sender_node, true));
    if !matches {
        let at = wire.iter().zip(ref_a.iter()).position(|(a, b)| a != b).unwrap_or(wire.len().min(ref_a.len()));
        let hdr_len = ref_plain_hdr(sess, msg).len();
        let what = if wire.len() != ref_a.len() {
            "length"
        } else if at < hdr_len {
            "plain-header"
        } else {
            "protected-part"
        };
        return Case::fail(
            format!("encode:wire-mismatch:{what}"),
            format!(
                "rs-matter encoded {} but the message format (nonce = secflags|ctr|src node {:#x}, AAD = the {hdr_len}-byte header) gives {}; first difference at byte {at}",
                short_hex(&wire), sess.sender_node, short_hex(&ref_a)
            ),
        );
    }

    // (b) round trip: the receiving end of the same session decodes the identical message
    match sut_decode(&wire, rx_key.as_ref(), rx_nonce) {
        Err(e) => Case::fail(
            "roundtrip:rejected",
            format!("the peer rejected ({e}) the genuine packet {} of {}", short_hex(&wire), show(&want)),
        ),
        Ok(got) if got != want => Case::fail(
            format!("roundtrip:field:{}", first_diff(&got, &want)),
            format!("encoded {} decoded as {} (wire {})", show(&want), show(&got), short_hex(&wire)),
        ),
        Ok(_) => {
            let c = Case::pass(secured).labels(labels);
            if msg.vendor.is_some() {
                c.label(if wire == ref_a { "vendor-order=protocol-id,vendor-id" } else { "vendor-order=vendor-id,protocol-id" })
            } else {
                c
            }
        }
    }
}

// ---------------------------------------------------------------------------------------------
// Sub-check `tamper` (secured sessions)
// ---------------------------------------------------------------------------------------------

#[derive(Debug, Clone, Serialize, Deserialize)]
enum Tamper {
    /// flip one bit; zone 0 = anywhere, 1 = unencrypted header, 2 = tag,
    /// 3 = first 12 bytes of the ciphertext (the protocol header)
    FlipBit { zone: u8, sel: u16 },
    /// xor one byte with a non-zero mask (several bits of one field)
    XorByte { zone: u8, sel: u16, mask: u8 },
    /// keep a strict prefix: how 0 = proportional, 1 = absolute short length, 2 = chop the tail
    Truncate { how: u8, sel: u16 },
    /// append bytes
    Extend { extra: Vec<u8> },
    /// decode with the key of another session
    WrongKey { key: [u8; 16] },
    /// decode with this session's own encrypt key (the key of the opposite direction)
    WrongDirection,
    /// the receiving session was established with another peer node id
    WrongNonceNode { node: u64 },
    /// a holder of the key sends under another source node id (optionally naming it in the header)
    ForgedSource { node: u64, patch_hdr: bool },
    /// replace the security flags byte
    SecFlags { val: u8 },
    /// replace the message flags byte
    MsgFlags { val: u8 },
    /// overwrite a header field: 0 = session id, 1 = counter, 2 = source node id, 3 = destination
    SetField { field: u8, val: u64 },
    /// combine the header of one message with the protected part of another message of the
    /// same session (counter differs by `ctr_delta` != 0)
    Splice { header_from_other: bool, ctr_delta: u32, other_seed: u64 },
}

impl Tamper {
    fn kind(&self) -> &'static str {
        match self {
            Tamper::FlipBit { .. } => "bitflip",
            Tamper::XorByte { .. } => "xor-byte",
            Tamper::Truncate { .. } => "truncate",
            Tamper::Extend { .. } => "extend",
            Tamper::WrongKey { .. } => "other-session-key",
            Tamper::WrongDirection => "opposite-direction-key",
            Tamper::WrongNonceNode { .. } => "other-peer-node",
            Tamper::ForgedSource { .. } => "forged-source-node",
            Tamper::SecFlags { .. } => "sec-flags-replaced",
            Tamper::MsgFlags { .. } => "msg-flags-replaced",
            Tamper::SetField { .. } => "field-replaced",
            Tamper::Splice { .. } => "splice",
        }
    }
}

#[derive(Debug, Clone, Serialize, Deserialize)]
struct TamperCase {
    sess: Sess,
    msg: Msg,
    tamper: Tamper,
}

/// Byte range a `zone` selects in an encoded secured message.
fn zone_range(base: &[u8], zone: u8) -> (usize, usize) {
    let hdr = ref_plain_hdr_len(base).unwrap_or(8).min(base.len());
    match zone {
        1 => (0, hdr),
        2 => (base.len().saturating_sub(TAG_LEN), base.len()),
        3 => (hdr, (hdr + 12).min(base.len())),
        _ => (0, base.len()),
    }
}

struct Altered {
    bytes: Vec<u8>,
    key: [u8; 16],
    nonce: NonceFrom,
    /// region label for the signature
    what: String,
}

/// Apply one alteration. `None` = not applicable to this case (nothing altered).
fn alter(sess: &Sess, msg: &Msg, base: &[u8], t: &Tamper) -> Result<Option<Altered>, Case> {
    let (rx_key, rx_nonce) = receiver_view(sess);
    let Some(rx_key) = rx_key else {
        return Ok(None);
    };
    let mut a = Altered {
        bytes: base.to_vec(),
        key: rx_key,
        nonce: rx_nonce,
        what: String::new(),
    };
    match t {
        Tamper::FlipBit { zone, sel } => {
            let (s, e) = zone_range(base, *zone);
            if e <= s {
                return Ok(None);
            }
            let bit = s * 8 + pick(*sel, (e - s) * 8);
            a.bytes[bit / 8] ^= 1 << (bit % 8);
            a.what = region(base, true, bit / 8).to_string();
        }
        Tamper::XorByte { zone, sel, mask } => {
            let (s, e) = zone_range(base, *zone);
            if e <= s {
                return Ok(None);
            }
            let off = s + pick(*sel, e - s);
            a.bytes[off] ^= (*mask).max(1);
            a.what = region(base, true, off).to_string();
        }
        Tamper::Truncate { how, sel } => {
            let len = base.len();
            let keep = match how {
                1 => (*sel as usize % 41).min(len - 1),
                2 => len - 1 - (*sel as usize % 33).min(len - 1),
                _ => pick(*sel, len),
            };
            a.bytes.truncate(keep);
            a.what = if keep + TAG_LEN > len { "inside-tag" } else { "before-tag" }.to_string();
        }
        Tamper::Extend { extra } => {
            if extra.is_empty() {
                return Ok(None);
            }
            a.bytes.extend_from_slice(extra);
        }
        Tamper::WrongKey { key } => {
            if *key == rx_key {
                return Ok(None);
            }
            a.key = *key;
        }
        Tamper::WrongDirection => {
            // group sessions use one symmetric key: there is no "direction" to separate
            if sess.mode == Mode::Group || sess.key_rx == sess.key_tx {
                return Ok(None);
            }
            a.key = sess.key_rx;
        }
        Tamper::WrongNonceNode { node } => {
            // group receivers take the node id from the packet (covered by SetField/flips)
            if sess.mode == Mode::Group || *node == sess.sender_node {
                return Ok(None);
            }
            a.nonce = NonceFrom::Session(*node);
        }
        Tamper::ForgedSource { node, patch_hdr } => {
            if sess.mode == Mode::Group || *node == sess.sender_node {
                return Ok(None);
            }
            // another node that knows the key (e.g. a member of the same fabric replaying its
            // own session keys is NOT what is modelled here: the key is this session's, the
            // identity in the nonce is not)
            let mut forged_sess = sess.clone();
            forged_sess.sender_node = *node;
            let mut forged_msg = msg.clone();
            if *patch_hdr && forged_msg.src.is_some() {
                forged_msg.src = Some(*node);
            }
            a.bytes = base_packet(&forged_sess, &forged_msg)?;
            a.what = if *patch_hdr && msg.src.is_some() { "src-in-header" } else { "nonce-only" }.to_string();
        }
        Tamper::SecFlags { val } => {
            if *val == base[3] {
                return Ok(None);
            }
            a.bytes[3] = *val;
        }
        Tamper::MsgFlags { val } => {
            if *val == base[0] {
                return Ok(None);
            }
            a.bytes[0] = *val;
            let same_len = ref_plain_hdr_len(&a.bytes) == ref_plain_hdr_len(base);
            a.what = if same_len { "same-header-length" } else { "other-header-length" }.to_string();
        }
        Tamper::SetField { field, val } => {
            let f = base[0];
            let src_end = 8 + if f & 0x04 != 0 { 8 } else { 0 };
            let dst_len = match f & 3 {
                1 => 8,
                2 => 2,
                _ => 0,
            };
            let (s, n, name) = match field {
                0 => (1, 2, "sess-id"),
                1 => (4, 4, "ctr"),
                2 => (8, src_end - 8, "src-node"),
                _ => (src_end, dst_len, "dst"),
            };
            if n == 0 || s + n > base.len() {
                return Ok(None);
            }
            a.bytes[s..s + n].copy_from_slice(&val.to_le_bytes()[..n]);
            if a.bytes == base {
                a.bytes[s] ^= 1;
            }
            a.what = name.to_string();
        }
        Tamper::Splice { header_from_other, ctr_delta, other_seed } => {
            let mut other = msg.clone();
            other.ctr = msg.ctr.wrapping_add((*ctr_delta).max(1));
            other.payload_seed = *other_seed;
            let other_wire = base_packet(sess, &other)?;
            let hdr = ref_plain_hdr(sess, msg).len();
            if hdr > base.len() || other_wire.len() != base.len() {
                return Ok(None);
            }
            let (h, b): (&[u8], &[u8]) = if *header_from_other { (&other_wire[..], base) } else { (base, &other_wire[..]) };
            a.bytes = h[..hdr].to_vec();
            a.bytes.extend_from_slice(&b[hdr..]);
            a.what = if *header_from_other { "other-header" } else { "other-body" }.to_string();
        }
    }
    Ok(Some(a))
}

fn check_tamper(c: &TamperCase) -> Case {
    let (sess, msg) = (&c.sess, &c.msg);
    if sess.mode == Mode::Plain {
        return Case::pass(false).label("n/a:plain");
    }
    let base = match base_packet(sess, msg) {
        Ok(b) => b,
        Err(fail) => return fail,
    };
    let (rx_key, rx_nonce) = receiver_view(sess);

    // the untampered packet must be accepted, otherwise "rejected" below means nothing
    if let Err(e) = sut_decode(&base, rx_key.as_ref(), rx_nonce) {
        if msg.exotic.any() {
            return Case::pass(false).label("n/a:exotic-base-rejected");
        }
        return Case::fail(
            "roundtrip:rejected",
            format!("the peer rejected ({e}) the genuine packet {}", short_hex(&base)),
        );
    }

    let altered = match alter(sess, msg, &base, &c.tamper) {
        Ok(Some(a)) => a,
        Ok(None) => return Case::pass(false).label(format!("n/a:{}", c.tamper.kind())),
        Err(fail) => return fail,
    };
    let kind = c.tamper.kind();
    let tag = if altered.what.is_empty() { kind.to_string() } else { format!("{kind}:{}", altered.what) };

    match sut_decode(&altered.bytes, Some(&altered.key), altered.nonce) {
        Err(_) => {
            // non-trivial: the altered packet still has a well-formed unencrypted header, so
            // the rejection came from the decryption / authentication step
            let reaches = ref_plain_hdr_len(&altered.bytes).is_some()
                && !(matches!(altered.nonce, NonceFrom::PacketSource) && altered.bytes[0] & 0x04 == 0);
            Case::pass(reaches)
                .label(format!("mode={}", sess.mode.name()))
                .label(tag)
                .label(if reaches { "reaches-decryption" } else { "stopped-at-header" })
        }
        Ok(got) => Case::fail(
            format!("accepted:{tag}"),
            format!(
                "{:?} on a {} session: genuine packet {} ; altered packet {} decoded with key {} nonce-node {:?} was ACCEPTED as {}",
                c.tamper, sess.mode.name(), short_hex(&base), short_hex(&altered.bytes), hex(&altered.key), altered.nonce, show(&got)
            ),
        ),
    }
}

// ---------------------------------------------------------------------------------------------
// Sub-check `unsecured-tamper`
// ---------------------------------------------------------------------------------------------

/// No tag on unsecured messages: an altered message either errors or decodes to exactly what
/// the altered bytes say.
fn judge_unsecured(bytes: &[u8], what: &str) -> Case {
    match sut_decode(bytes, None, NonceFrom::Session(0)) {
        Err(_) => Case::pass(false).label(format!("{what}:error")),
        Ok(got) => {
            let mut malformed = None;
            let mut unspecified = None;
            for vendor_first in [false, true] {
                match ref_parse_unsecured(bytes, vendor_first) {
                    RefParse::Malformed(why) => malformed = Some(why),
                    RefParse::Unspecified(why) => unspecified = Some(why),
                    RefParse::Msg { mut fields, payload_unspecified } => {
                        if payload_unspecified {
                            fields.payload = got.payload.clone();
                        }
                        if fields == got {
                            return Case::pass(true).label(format!("{what}:decoded-as-altered"));
                        }
                        if fields.exch_flags & 0x10 == 0 {
                            return Case::fail(
                                format!("unsecured:decoded-differently:{}", first_diff(&got, &fields)),
                                format!("unsecured message {} decoded as {} but the bytes say {}", short_hex(bytes), show(&got), show(&fields)),
                            );
                        }
                    }
                }
            }
            if unspecified.is_some() {
                return Case::pass(false).label(format!("{what}:unspecified-encoding"));
            }
            if let Some(why) = malformed {
                return Case::fail(
                    "unsecured:accepted-malformed",
                    format!("unsecured message {} is malformed ({why}) but decoded as {}", short_hex(bytes), show(&got)),
                );
            }
            // vendor flag set and neither field order matches
            Case::fail(
                "unsecured:decoded-differently:vendor",
                format!("unsecured message {} decoded as {} which matches neither vendor/protocol id order", short_hex(bytes), show(&got)),
            )
        }
    }
}

fn check_unsecured_tamper(c: &TamperCase) -> Case {
    let (sess, msg) = (&c.sess, &c.msg);
    if sess.mode != Mode::Plain {
        return Case::pass(false).label("n/a:secured");
    }
    let base = match base_packet(sess, msg) {
        Ok(b) => b,
        Err(fail) => return fail,
    };
    let mut bytes = base.clone();
    match &c.tamper {
        Tamper::FlipBit { zone, sel } => {
            let (s, e) = match zone {
                1 => (0, ref_plain_hdr_len(&base).unwrap_or(8).min(base.len())),
                3 => {
                    let h = ref_plain_hdr_len(&base).unwrap_or(8).min(base.len());
                    (h, (h + 12).min(base.len()))
                }
                _ => (0, base.len()),
            };
            if e <= s {
                return Case::pass(false).label("n/a");
            }
            let bit = s * 8 + pick(*sel, (e - s) * 8);
            bytes[bit / 8] ^= 1 << (bit % 8);
        }
        Tamper::XorByte { sel, mask, .. } => {
            let off = pick(*sel, base.len());
            bytes[off] ^= (*mask).max(1);
        }
        Tamper::Truncate { how, sel } => {
            let len = base.len();
            let keep = match how {
                1 => (*sel as usize % 41).min(len - 1),
                2 => len - 1 - (*sel as usize % 33).min(len - 1),
                _ => pick(*sel, len),
            };
            bytes.truncate(keep);
        }
        Tamper::Extend { extra } => bytes.extend_from_slice(extra),
        Tamper::SecFlags { val } => bytes[3] = *val,
        Tamper::MsgFlags { val } => bytes[0] = *val,
        _ => return Case::pass(false).label("n/a"),
    }
    judge_unsecured(&bytes, c.tamper.kind())
}

// ---------------------------------------------------------------------------------------------
// Sub-check `small-exhaustive`
// ---------------------------------------------------------------------------------------------

#[derive(Debug, Clone, Serialize, Deserialize)]
struct Small {
    /// 0 PASE, 1 CASE, 2 group data, 3 group control, 4 unsecured
    mode: u8,
    src: bool,
    /// 0 none, 1 node id, 2 group id
    dst: u8,
    ack: bool,
    vendor: bool,
    plen: u8,
}

fn small_case(s: &Small) -> (Sess, Msg) {
    let idx = (s.mode as u64) << 24 | (s.src as u64) << 20 | (s.dst as u64) << 16 | (s.ack as u64) << 13 | (s.vendor as u64) << 12 | s.plen as u64;
    let mix = expand(0x9e37_79b9_7f4a_7c15 ^ idx.wrapping_mul(0xd6e8_feb8_6659_fd93) | 1, 64);
    let mut key_tx = [0u8; 16];
    let mut key_rx = [0u8; 16];
    key_tx.copy_from_slice(&mix[0..16]);
    key_rx.copy_from_slice(&mix[16..32]);
    key_rx[0] = !key_tx[0];
    let node = |o: usize| {
        let mut a = [0u8; 8];
        a.copy_from_slice(&mix[o..o + 8]);
        u64::from_le_bytes(a) | 1
    };
    let mode = match s.mode {
        0 => Mode::Pase,
        1 => Mode::Case,
        2 | 3 => Mode::Group,
        _ => Mode::Plain,
    };
    let sender_node = if mode == Mode::Pase { 0 } else { node(32) };
    let receiver_node = if mode == Mode::Pase { 0 } else { node(40) };
    let sess = Sess {
        mode,
        key_tx,
        key_rx: if mode == Mode::Group { key_tx } else { key_rx },
        sender_node,
        receiver_node,
        sess_id: if mode == Mode::Plain { 0 } else { u16::from_le_bytes([mix[48], mix[49]]) | 1 },
    };
    let src = if mode == Mode::Group {
        Some(sender_node)
    } else if s.src {
        Some(if mode == Mode::Pase { node(32) } else { sender_node })
    } else {
        None
    };
    let msg = Msg {
        shape: "small".into(),
        ctr: u32::from_le_bytes([mix[50], mix[51], mix[52], mix[53]]),
        src,
        dst: match s.dst {
            0 => Dst::None,
            1 => Dst::Node(receiver_node | 2),
            _ => Dst::Group(u16::from_le_bytes([mix[54], mix[55]])),
        },
        control: s.mode == 3,
        exch_id: u16::from_le_bytes([mix[56], mix[57]]),
        proto_id: (mix[58] % 5) as u16,
        opcode: mix[59],
        initiator: mix[60] & 1 != 0,
        reliable: s.mode != 2 && mix[60] & 2 != 0,
        ack: s.ack.then(|| u32::from_le_bytes([mix[61], mix[62], mix[63], mix[0]])),
        vendor: s.vendor.then(|| u16::from_le_bytes([mix[1], mix[2]])),
        payload_len: s.plen as u16,
        payload_seed: idx | 1 << 40,
        exotic: Exotic::default(),
        by_peer: false,
    };
    (sess, msg)
}

fn check_small(s: &Small) -> Case {
    let (sess, msg) = small_case(s);
    let secured = sess.mode != Mode::Plain;
    let base = match base_packet(&sess, &msg) {
        Ok(b) => b,
        Err(fail) => return fail,
    };
    let (rx_key, rx_nonce) = receiver_view(&sess);
    let want = expected_fields(&sess, &msg);
    match sut_decode(&base, rx_key.as_ref(), rx_nonce) {
        Err(e) => {
            return Case::fail(
                "roundtrip:rejected",
                format!("the peer rejected ({e}) the genuine packet {}", short_hex(&base)),
            )
        }
        Ok(got) if got != want => {
            return Case::fail(
                format!("roundtrip:field:{}", first_diff(&got, &want)),
                format!("encoded {} decoded as {}", show(&want), show(&got)),
            )
        }
        Ok(_) => {}
    }

    let judge = |bytes: &[u8], what: String| -> Option<Case> {
        if secured {
            match sut_decode(bytes, rx_key.as_ref(), rx_nonce) {
                Err(_) => None,
                Ok(got) => Some(Case::fail(
                    format!("accepted:{what}"),
                    format!(
                        "{} session, genuine packet {} ; altered packet {} was ACCEPTED as {}",
                        sess.mode.name(), short_hex(&base), short_hex(bytes), show(&got)
                    ),
                )),
            }
        } else {
            let c = judge_unsecured(bytes, &what);
            c.is_fail().then_some(c)
        }
    };

    let mut alterations = 0u32;
    // every single-bit flip
    for bit in 0..base.len() * 8 {
        let mut b = base.clone();
        b[bit / 8] ^= 1 << (bit % 8);
        alterations += 1;
        if let Some(f) = judge(&b, format!("bitflip:{}", region(&base, secured, bit / 8))) {
            return f;
        }
    }
    // every truncation
    for keep in 0..base.len() {
        alterations += 1;
        let what = if secured && keep + TAG_LEN > base.len() { "truncate:inside-tag" } else { "truncate:before-tag" };
        if let Some(f) = judge(&base[..keep], what.to_string()) {
            return f;
        }
    }
    // extensions by 1..=17 bytes (zeros, and a repetition of the packet's own tail)
    for n in 1..=17usize {
        for fill in 0..2 {
            let mut b = base.clone();
            for i in 0..n {
                b.push(if fill == 0 { 0 } else { base[base.len() - 1 - (i % base.len())] });
            }
            alterations += 1;
            if secured {
                if let Some(f) = judge(&b, "extend".to_string()) {
                    return f;
                }
            } else if let Some(f) = judge(&b, "extend".to_string()) {
                return f;
            }
        }
    }
    // every message-flags value and every security-flags value
    for v in 0..=255u8 {
        for (off, what) in [(0usize, "msg-flags-replaced"), (3usize, "sec-flags-replaced")] {
            if base[off] == v {
                continue;
            }
            let mut b = base.clone();
            b[off] = v;
            alterations += 1;
            if let Some(f) = judge(&b, what.to_string()) {
                return f;
            }
        }
    }
    let _ = alterations;
    Case::pass(secured).label(format!("mode={}", sess.mode.name()))
}

// ---------------------------------------------------------------------------------------------
// Sub-check `length-sweep`: every payload length 0..=max for the canonical shape of each mode
// ---------------------------------------------------------------------------------------------

#[derive(Debug, Clone, Serialize, Deserialize)]
struct Sweep {
    /// as `Small::mode`
    mode: u8,
    len: u16,
}

fn check_sweep(w: &Sweep) -> Case {
    let (sess, mut msg) = small_case(&Small {
        mode: w.mode,
        src: w.mode == 4,
        dst: match w.mode {
            2 => 2,
            3 | 4 => 1,
            _ => 0,
        },
        ack: w.len % 2 == 0,
        vendor: false,
        plen: 0,
    });
    msg.payload_len = w.len;
    msg.payload_seed = 0x5eed_0000 + w.len as u64;
    // lengths beyond rs-matter's TX buffer can only come from a peer
    msg.by_peer = w.len as usize > MAX_TX_PAYLOAD_SIZE;
    msg.shape = if msg.by_peer { "sweep-peer" } else { "sweep" }.into();
    check_roundtrip(&RtCase { sess, msg })
}

fn sweep_items() -> Vec<Sweep> {
    let mut v = Vec::new();
    for mode in 0..5u8 {
        // 1280 byte IPv6 MTU - 24 (largest header) - 12 - 16
        for len in 0..=1228u16 {
            v.push(Sweep { mode, len });
        }
    }
    v
}

// ---------------------------------------------------------------------------------------------
// Sub-check `reference-kat`: anchor the reference encoder on wire captures from chip-tool
// (the vectors of rs-matter/src/transport/proto_hdr.rs, "captured from an execution run of the
// chip-tool binary")
// ---------------------------------------------------------------------------------------------

#[derive(Debug, Clone, Serialize, Deserialize)]
struct Kat {
    name: String,
    key: String,
    sess_id: u16,
    ctr: u32,
    protected_plain: String,
    wire: String,
}

fn kats() -> Vec<Kat> {
    vec![
        Kat {
            name: "chip-tool-rx".into(),
            key: "66633197439c17b97e10ee47c808804a".into(),
            sess_id: 2,
            ctr: 15287282,
            protected_plain: "050870000100152800280136021537002400002401302402021835012400002c010257572402032503b80b18181818".into(),
            wire: "00020000f243e90031b566ec8b5bf417e480f3d5115919b5239135370bf9bf69551175877719fcf35d4b471fb05ebeb510adc6789450e5d2e080efa83af0a6af1b0235a7d1c632".into(),
        },
        Kat {
            name: "chip-tool-tx".into(),
            key: "44d43c91d227f3ba0824c5d87cb81b33".into(),
            sess_id: 0x11,
            ctr: 41,
            protected_plain: "05085828010015360015370024000124020624030118350118181818".into(),
            wire: "0011000029000000bd53fa7926576111994ef314240b838e88a5e36bcc81c1992a838afe16be4cf4742d9cd7e582d793491558d8".into(),
        },
    ]
}

fn check_kat(k: &Kat) -> Case {
    let key_v = vh::util::unhex(&k.key);
    let plain = vh::util::unhex(&k.protected_plain);
    let wire = vh::util::unhex(&k.wire);
    if key_v.len() != 16 || plain.len() < 6 {
        return Case::inconclusive("bad KAT table");
    }
    let mut key = [0u8; 16];
    key.copy_from_slice(&key_v);
    let sess = Sess {
        mode: Mode::Pase,
        key_tx: key,
        key_rx: key,
        sender_node: 0,
        receiver_node: 0,
        sess_id: k.sess_id,
    };
    // reference: header | CCM(protected) must reproduce the capture
    let mut hdr = vec![0u8];
    hdr.extend_from_slice(&k.sess_id.to_le_bytes());
    hdr.push(0);
    hdr.extend_from_slice(&k.ctr.to_le_bytes());
    let mut body = plain.clone();
    ref_seal(&key, 0, k.ctr, 0, &hdr, &mut body);
    let mut mine = hdr.clone();
    mine.extend_from_slice(&body);
    if mine != wire {
        return Case::inconclusive(format!(
            "the harness' reference encoder does not reproduce the chip-tool capture {}: {} vs {}",
            k.name, hex(&mine), hex(&wire)
        ));
    }
    // rs-matter decodes the capture to the captured plaintext
    let (rx_key, rx_nonce) = receiver_view(&sess);
    match sut_decode(&wire, rx_key.as_ref(), rx_nonce) {
        Err(e) => Case::fail("kat:rejected", format!("chip-tool capture {} rejected: {e}", k.name)),
        Ok(got) => {
            let ok = got.exch_flags == plain[0]
                && got.opcode == plain[1]
                && got.exch_id == u16::from_le_bytes([plain[2], plain[3]])
                && got.proto_id == u16::from_le_bytes([plain[4], plain[5]])
                && got.payload == plain[6..]
                && got.sess_id == k.sess_id
                && got.ctr == k.ctr;
            if ok {
                Case::pass(true)
            } else {
                Case::fail("kat:decoded-differently", format!("chip-tool capture {} decoded as {}", k.name, show(&got)))
            }
        }
    }
}

// ---------------------------------------------------------------------------------------------
// Generators
// ---------------------------------------------------------------------------------------------

fn node_id() -> impl Strategy<Value = u64> {
    prop_oneof![
        3 => any::<u64>(),
        2 => 1u64..0x1_0000,
        1 => prop::sample::select(vec![
            0u64, 1, 2, 0xffff_ffef_ffff_ffff, u64::MAX, 0x8000_0000_0000_0000,
            0x0100_0000_0000_0000, 0xffff_fffd_0000_0001,
        ]),
    ]
}

fn ctr_val() -> impl Strategy<Value = u32> {
    prop_oneof![
        3 => any::<u32>(),
        1 => prop::sample::select(vec![0u32, 1, 0xff, 0x100, 0x7fff_ffff, 0x8000_0000, u32::MAX - 1, u32::MAX]),
    ]
}

fn payload_len(max: usize) -> impl Strategy<Value = u16> {
    prop_oneof![
        5 => 0usize..=48,
        2 => prop::sample::select(vec![
            0usize, 1, 2, 15, 16, 17, 31, 32, 33, 255, 256, max - 33, max - 17, max - 16, max - 15,
            max - 2, max - 1, max,
        ]),
        2 => 0usize..=max,
    ]
    .prop_map(|n| n as u16)
}

/// mode selector -> weights; `plain_only` / `secured_only` restrict it
fn mode(secured_only: bool, plain_only: bool) -> BoxedStrategy<Mode> {
    if plain_only {
        Just(Mode::Plain).boxed()
    } else if secured_only {
        prop::sample::select(vec![Mode::Pase, Mode::Case, Mode::Case, Mode::Group, Mode::Group]).boxed()
    } else {
        prop::sample::select(vec![Mode::Pase, Mode::Pase, Mode::Case, Mode::Case, Mode::Case, Mode::Group, Mode::Group, Mode::Group, Mode::Plain]).boxed()
    }
}

#[derive(Debug, Clone)]
struct Raw {
    mode: Mode,
    key_tx: [u8; 16],
    key_rx: [u8; 16],
    sender_node: u64,
    receiver_node: u64,
    sess_id: u16,
    group_id: u16,
    /// 0..=4 canonical, 5..=8 free, 9 exotic
    shape_sel: u8,
    src_sel: u8,
    src_other: u64,
    dst_sel: u8,
    dst_other: u64,
    control: bool,
    ctr: u32,
    exch_id: u16,
    proto_id: u16,
    opcode: u8,
    initiator: bool,
    reliable: bool,
    ack: Option<u32>,
    vendor: Option<u16>,
    payload_len: u16,
    payload_seed: u64,
    ex_bits: u8,
    ex_mx: Vec<u8>,
    ex_sx: Vec<u8>,
}

fn build(r: Raw, allow_exotic: bool) -> (Sess, Msg) {
    let mode = r.mode;
    let (sender_node, receiver_node) = match mode {
        Mode::Pase => (0, 0),
        // a group sender always names itself (`local_nodeid != 0`)
        Mode::Group => (r.sender_node.max(1), r.receiver_node),
        _ => (r.sender_node, r.receiver_node),
    };
    let sess = Sess {
        mode,
        key_tx: r.key_tx,
        key_rx: if mode == Mode::Group { r.key_tx } else { r.key_rx },
        sender_node,
        receiver_node,
        sess_id: match mode {
            Mode::Plain => 0,
            // secure unicast session ids are never 0
            Mode::Pase | Mode::Case => r.sess_id.max(1),
            Mode::Group => r.sess_id,
        },
    };
    let exotic = allow_exotic && r.shape_sel == 9;
    let by_peer = allow_exotic && r.shape_sel >= 10;
    let canonical = r.shape_sel <= 4 || (by_peer && r.dst_sel & 0x80 != 0);

    let (src, dst, control, reliable, ack);
    if canonical {
        // what `Session::pre_send` puts on the wire
        match mode {
            Mode::Pase | Mode::Case => {
                src = None;
                dst = Dst::None;
                control = false;
                reliable = r.reliable;
                ack = r.ack;
            }
            Mode::Group => {
                src = Some(sender_node);
                control = r.control;
                if control {
                    dst = Dst::Node(receiver_node);
                    reliable = r.reliable;
                    ack = r.ack;
                } else {
                    dst = Dst::Group(r.group_id);
                    reliable = false;
                    ack = None;
                }
            }
            Mode::Plain => {
                src = (sender_node != 0).then_some(sender_node);
                dst = if r.dst_sel & 1 == 0 { Dst::Node(receiver_node) } else { Dst::None };
                control = false;
                reliable = r.reliable;
                ack = r.ack;
            }
        }
    } else {
        src = if mode == Mode::Group {
            Some(sender_node)
        } else {
            match r.src_sel % 4 {
                0 | 1 => None,
                2 => Some(sender_node),
                _ => Some(r.src_other),
            }
        };
        dst = match r.dst_sel % 6 {
            0 | 1 => Dst::None,
            2 => Dst::Node(receiver_node),
            3 => Dst::Node(r.dst_other),
            4 => Dst::Group(r.group_id),
            _ => Dst::Group(r.dst_other as u16),
        };
        control = r.control;
        reliable = r.reliable;
        ack = r.ack;
    }

    let mut ex = Exotic::default();
    if exotic {
        // at least one exotic feature
        let bits = if r.ex_bits & 0x0f == 0 { 1 << (r.ex_bits >> 4 & 3) } else { r.ex_bits & 0x0f };
        ex.privacy = bits & 1 != 0;
        ex.mx = (bits & 2 != 0).then(|| r.ex_mx.clone());
        ex.sx = (bits & 4 != 0).then(|| r.ex_sx.clone());
        ex.dsiz3 = bits & 8 != 0;
    }
    let msg = Msg {
        shape: if exotic {
            "exotic"
        } else if by_peer {
            if canonical { "peer-canonical" } else { "peer-free" }
        } else if canonical {
            "canonical"
        } else {
            "free"
        }
        .into(),
        ctr: r.ctr,
        src,
        dst: if ex.dsiz3 { Dst::None } else { dst },
        control,
        exch_id: r.exch_id,
        proto_id: r.proto_id,
        opcode: r.opcode,
        initiator: r.initiator,
        reliable,
        ack,
        // the reference encoder of exotic packets has to pick a vendor/protocol id order:
        // leave the vendor id out there
        vendor: if exotic || by_peer { None } else { r.vendor },
        // a peer may fill the 1280 byte IPv6 MTU: 24 + 12 + 1228 + 16
        payload_len: if by_peer { r.payload_len + (r.ex_bits % 51) as u16 } else { r.payload_len },
        payload_seed: r.payload_seed,
        exotic: ex,
        by_peer,
    };
    (sess, msg)
}

fn raw(modes: BoxedStrategy<Mode>) -> impl Strategy<Value = Raw> {
    let a = (
        modes,
        any::<[u8; 16]>(),
        any::<[u8; 16]>(),
        node_id(),
        node_id(),
        any::<u16>(),
        any::<u16>(),
        0u8..12,
    );
    let b = (
        any::<u8>(),
        node_id(),
        any::<u8>(),
        node_id(),
        prop::bool::weighted(0.3),
        ctr_val(),
        any::<u16>(),
        prop_oneof![3 => 0u16..6, 1 => any::<u16>()],
        any::<u8>(),
        any::<bool>(),
    );
    let c = (
        any::<bool>(),
        prop::option::weighted(0.5, ctr_val()),
        prop::option::weighted(0.25, any::<u16>()),
        payload_len(MAX_TX_PAYLOAD_SIZE),
        prop_oneof![1 => Just(0u64), 6 => any::<u64>()],
        any::<u8>(),
        prop::collection::vec(any::<u8>(), 0..12),
        prop::collection::vec(any::<u8>(), 0..12),
    );
    (a, b, c).prop_map(|(a, b, c)| Raw {
        mode: a.0,
        key_tx: a.1,
        key_rx: a.2,
        sender_node: a.3,
        receiver_node: a.4,
        sess_id: a.5,
        group_id: a.6,
        shape_sel: a.7,
        src_sel: b.0,
        src_other: b.1,
        dst_sel: b.2,
        dst_other: b.3,
        control: b.4,
        ctr: b.5,
        exch_id: b.6,
        proto_id: b.7,
        opcode: b.8,
        initiator: b.9,
        reliable: c.0,
        ack: c.1,
        vendor: c.2,
        payload_len: c.3,
        payload_seed: c.4,
        ex_bits: c.5,
        ex_mx: c.6,
        ex_sx: c.7,
    })
}

fn rt_case() -> impl Strategy<Value = RtCase> {
    raw(mode(false, false)).prop_map(|r| {
        let (sess, msg) = build(r, true);
        RtCase { sess, msg }
    })
}

fn zone() -> impl Strategy<Value = u8> {
    prop::sample::select(vec![0u8, 0, 1, 1, 1, 2, 3, 3])
}

fn secured_tamper() -> impl Strategy<Value = Tamper> {
    prop_oneof![
        8 => (zone(), any::<u16>()).prop_map(|(zone, sel)| Tamper::FlipBit { zone, sel }),
        3 => (zone(), any::<u16>(), 1u8..=255).prop_map(|(zone, sel, mask)| Tamper::XorByte { zone, sel, mask }),
        4 => (0u8..3, any::<u16>()).prop_map(|(how, sel)| Tamper::Truncate { how, sel }),
        2 => prop::collection::vec(any::<u8>(), 1..40).prop_map(|extra| Tamper::Extend { extra }),
        2 => any::<[u8; 16]>().prop_map(|key| Tamper::WrongKey { key }),
        2 => Just(Tamper::WrongDirection),
        2 => node_id().prop_map(|node| Tamper::WrongNonceNode { node }),
        3 => (node_id(), any::<bool>()).prop_map(|(node, patch_hdr)| Tamper::ForgedSource { node, patch_hdr }),
        3 => prop_oneof![
            2 => prop::sample::select(vec![0x00u8, 0x01, 0x40, 0x41, 0x80, 0x81, 0xc0, 0xc1, 0x20, 0x21, 0x60, 0xe1]),
            1 => any::<u8>(),
        ].prop_map(|val| Tamper::SecFlags { val }),
        3 => prop_oneof![3 => 0u8..8, 1 => any::<u8>()].prop_map(|val| Tamper::MsgFlags { val }),
        3 => (0u8..4, prop_oneof![1 => any::<u64>(), 1 => 0u64..4]).prop_map(|(field, val)| Tamper::SetField { field, val }),
        3 => (any::<bool>(), prop_oneof![1 => 1u32..4, 1 => 1u32..=u32::MAX], any::<u64>())
            .prop_map(|(header_from_other, ctr_delta, other_seed)| Tamper::Splice { header_from_other, ctr_delta, other_seed }),
    ]
}

fn unsecured_tamper() -> impl Strategy<Value = Tamper> {
    prop_oneof![
        8 => (prop::sample::select(vec![0u8, 1, 1, 3, 3]), any::<u16>()).prop_map(|(zone, sel)| Tamper::FlipBit { zone, sel }),
        3 => (any::<u16>(), 1u8..=255).prop_map(|(sel, mask)| Tamper::XorByte { zone: 0, sel, mask }),
        4 => (0u8..3, any::<u16>()).prop_map(|(how, sel)| Tamper::Truncate { how, sel }),
        1 => prop::collection::vec(any::<u8>(), 1..40).prop_map(|extra| Tamper::Extend { extra }),
        1 => prop_oneof![3 => prop::sample::select(vec![0x00u8, 0x40, 0x01, 0x20, 0x80]), 1 => any::<u8>()].prop_map(|val| Tamper::SecFlags { val }),
        2 => prop_oneof![6 => 0u8..8, 1 => any::<u8>()].prop_map(|val| Tamper::MsgFlags { val }),
    ]
}

fn tamper_case() -> impl Strategy<Value = TamperCase> {
    (raw(mode(true, false)), secured_tamper()).prop_map(|(r, tamper)| {
        let (sess, msg) = build(r, true);
        TamperCase { sess, msg, tamper }
    })
}

fn unsecured_tamper_case() -> impl Strategy<Value = TamperCase> {
    (raw(mode(false, true)), unsecured_tamper()).prop_map(|(mut r, tamper)| {
        // small payloads: the interesting bytes of an unsecured message are its headers
        r.payload_len %= 64;
        let (sess, msg) = build(r, false);
        TamperCase { sess, msg, tamper }
    })
}

fn small_items(thorough: bool) -> Vec<Small> {
    let plens: Vec<u8> = if thorough { (0..=64).collect() } else { (0..=18).chain([31, 32, 33]).collect() };
    let mut v = Vec::new();
    for mode in 0..5u8 {
        for src in [false, true] {
            if (mode == 2 || mode == 3) && !src {
                continue;
            }
            for dst in 0..3u8 {
                for ack in [false, true] {
                    for vendor in [false, true] {
                        for &plen in &plens {
                            v.push(Small { mode, src, dst, ack, vendor, plen });
                        }
                    }
                }
            }
        }
    }
    v
}

// =====================================================================================
// L2: node level — a rejected packet leaves the session untouched
// =====================================================================================
mod l2 {
    use std::cell::RefCell;

    use proptest::prelude::*;
    use serde::{Deserialize, Serialize};

    use rs_matter::crypto::CanonAeadKeyRef;
    use rs_matter::error::Error;
    use rs_matter::respond::{ExchangeHandler, Responder};
    use rs_matter::transport::exchange::Exchange;
    use rs_matter::transport::network::NoNetwork;
    use rs_matter::transport::packet::PacketHdr;
    use rs_matter::transport::session::verif::SessionSnapshot;
    use rs_matter::transport::session::NocCatIds;
    use rs_matter::utils::storage::WriteBuf;

    use vh::sim::net::{alien_addr, Net};
    use vh::sim::node::{mk_crypto, new_matter, plant_half, sessions, SessKind};
    use vh::sim::{Exec, Sched, Stop, MS};
    use vh::util::pick;
    use vh::Case;

    #[derive(Debug, Clone, Serialize, Deserialize)]
    pub enum Alter {
        /// flip one bit anywhere in the datagram
        Flip { byte: u16, bit: u8 },
        Truncate { keep: u16 },
        Extend { extra: Vec<u8> },
        /// encrypted under another key
        OtherKey,
        /// encrypted under the key of the opposite direction
        OppositeDirection,
        /// nonce built with another source node id
        OtherSourceNode,
        /// session id of the other planted session in the header, body of this one
        OtherSessionId,
        /// the header names another source node (S flag) and the nonce is built for that node
        ForeignSourceInHeader { node: u64 },
        /// the header names the genuine peer as source node (legal, rarely sent): must be accepted
        /// exactly like the genuine message - used as an alteration it is a *fresh* genuine
        /// message and therefore skipped in the "must be rejected" accounting
        /// exact replay of the accepted message
        Replay,
    }

    #[derive(Debug, Clone, Serialize, Deserialize)]
    pub struct L2Case {
        pase: bool,
        payload_len: u16,
        reliable: bool,
        /// alterations injected BEFORE the genuine message
        before: Vec<Alter>,
        /// alterations injected AFTER the genuine message was accepted
        after: Vec<Alter>,
        seed: u32,
        /// transport kind of the peer's address: 0 = UDP, 1 = TCP, 2 = BTP (the receive
        /// checks are the same for every transport)
        #[serde(default)]
        transport: u8,
    }

    fn peer_addr(transport: u8) -> rs_matter::transport::network::Address {
        use rs_matter::transport::network::{Address, BtAddr};
        match (transport, alien_addr(0)) {
            (1, Address::Udp(sock)) => Address::Tcp(sock),
            (2, _) => Address::Btp(BtAddr([0x02, 0x11, 0x22, 0x33, 0x44, 0x55])),
            (_, a) => a,
        }
    }

    pub fn l2_case() -> impl Strategy<Value = L2Case> {
        let alter = || {
            prop_oneof![
                6 => (any::<u16>(), 0u8..8).prop_map(|(byte, bit)| Alter::Flip { byte, bit }),
                1 => any::<u16>().prop_map(|keep| Alter::Truncate { keep }),
                1 => prop::collection::vec(any::<u8>(), 1..5).prop_map(|extra| Alter::Extend { extra }),
                1 => Just(Alter::OtherKey),
                1 => Just(Alter::OppositeDirection),
                1 => Just(Alter::OtherSourceNode),
                1 => Just(Alter::OtherSessionId),
                2 => prop_oneof![Just(0x1002u64), Just(1u64), Just(u64::MAX - 1), 2u64..0xffff_ffff_0000].prop_map(|node| Alter::ForeignSourceInHeader { node }),
            ]
        };
        (
            any::<bool>(),
            prop_oneof![3 => 0u16..40, 1 => 40u16..900],
            any::<bool>(),
            prop::collection::vec(alter(), 0..5),
            prop::collection::vec(prop_oneof![4 => alter(), 1 => Just(Alter::Replay)], 0..5),
            any::<u32>(),
            prop_oneof![3 => Just(0u8), 1 => Just(1u8), 1 => Just(2u8)],
        )
            .prop_map(|(pase, payload_len, reliable, before, after, seed, transport)| L2Case {
                pase,
                payload_len,
                reliable,
                before,
                after,
                seed,
                transport,
            })
    }

    struct Sink<'a>(&'a RefCell<Vec<Vec<u8>>>);

    impl ExchangeHandler for Sink<'_> {
        async fn handle(&self, mut exchange: Exchange<'_>) -> Result<(), Error> {
            loop {
                let p = exchange.recv().await?.payload().to_vec();
                self.0.borrow_mut().push(p);
            }
        }
    }

    fn encode(key: &[u8; 16], nonce_node: u64, sess_id: u16, ctr: u32, exch: u16, reliable: bool, body: &[u8]) -> Option<Vec<u8>> {
        encode_src(key, nonce_node, None, sess_id, ctr, exch, reliable, body)
    }

    #[allow(clippy::too_many_arguments)]
    fn encode_src(key: &[u8; 16], nonce_node: u64, hdr_src: Option<u64>, sess_id: u16, ctr: u32, exch: u16, reliable: bool, body: &[u8]) -> Option<Vec<u8>> {
        let mut hdr = PacketHdr::new();
        hdr.plain.sess_id = sess_id;
        hdr.plain.ctr = ctr;
        hdr.plain.set_src_nodeid(hdr_src);
        hdr.proto.exch_id = exch;
        hdr.proto.set_initiator();
        if reliable {
            hdr.proto.set_reliable();
        } else {
            hdr.proto.unset_reliable();
        }
        hdr.proto.proto_id = 0x00F7;
        hdr.proto.proto_opcode = 1;
        let mut buf = vec![0u8; 1400];
        let reserve = PacketHdr::HDR_RESERVE;
        let end = reserve + body.len();
        buf[reserve..end].copy_from_slice(body);
        let crypto = mk_crypto(1);
        let mut wb = WriteBuf::new_with(&mut buf, reserve, end);
        hdr.encode(&crypto, Some(CanonAeadKeyRef::new(key)), nonce_node, &mut wb).ok()?;
        Some(wb.as_slice().to_vec())
    }

    /// What must not change when a packet is rejected.
    fn essence(s: &SessionSnapshot) -> (u32, u32, u16, u32, [u8; 16], [u8; 16], Vec<Option<(u16, bool, u8, Option<u32>, Option<u32>)>>, bool) {
        (
            s.id,
            s.rx_max_ctr,
            s.rx_bitmap,
            s.msg_ctr,
            s.dec_key,
            s.enc_key,
            s.exchanges
                .iter()
                .map(|e| e.as_ref().map(|e| (e.exch_id, e.initiator, e.state, e.retrans, e.ack_pending)))
                .collect(),
            s.expired,
        )
    }

    pub fn check_l2(case: &L2Case) -> Case {
        vh::sim::reset_universe();
        let net = Net::new(1);
        let cd = mk_crypto(case.seed);
        let device = new_matter(5540);
        let kind = if case.pase { SessKind::Pase } else { SessKind::Case };
        let (peer_node, dev_node) = if case.pase { (0u64, 0u64) } else { (0x1001, 0x2002) };
        let k_in = [0x11u8; 16];
        let k_out = [0x22u8; 16];
        let k2_in = [0x33u8; 16];
        let k2_out = [0x44u8; 16];
        // two sessions of the same peer address: the attacked one and a neighbour
        if plant_half(&device, &cd, kind, dev_node, peer_node, 0x0A01, 0x0B01, peer_addr(case.transport), &k_in, &k_out, 1, NocCatIds::default()).is_err()
            || plant_half(&device, &cd, kind, dev_node, peer_node, 0x0A02, 0x0B02, peer_addr(case.transport), &k2_in, &k2_out, 1, NocCatIds::default()).is_err()
        {
            return Case::inconclusive("planting failed");
        }
        let received: RefCell<Vec<Vec<u8>>> = RefCell::new(Vec::new());
        let body: Vec<u8> = (0..case.payload_len).map(|i| (i as u8).wrapping_mul(7).wrapping_add(3)).collect();
        let ctr = 0x0050_0000u32;
        let Some(genuine) = encode(&k_in, peer_node, 0x0A01, ctr, 0x77, case.reliable, &body) else {
            return Case::inconclusive("encode failed");
        };
        let alter = |a: &Alter, n: usize| -> Option<Vec<u8>> {
            // every forged packet uses a FRESH counter (so it is not rejected as a duplicate
            // before authentication is even attempted), except the exact replay
            let c = ctr + 10 + n as u32;
            let fresh = encode(&k_in, peer_node, 0x0A01, c, 0x77, case.reliable, &body)?;
            Some(match a {
                Alter::Flip { byte, bit } => {
                    let mut v = fresh;
                    let i = pick(*byte, v.len());
                    v[i] ^= 1 << (bit & 7);
                    v
                }
                Alter::Truncate { keep } => {
                    let mut v = fresh;
                    let k = pick(*keep, v.len());
                    v.truncate(k);
                    v
                }
                Alter::Extend { extra } => {
                    let mut v = fresh;
                    v.extend_from_slice(extra);
                    v
                }
                Alter::OtherKey => encode(&k2_in, peer_node, 0x0A01, c, 0x77, case.reliable, &body)?,
                Alter::OppositeDirection => encode(&k_out, peer_node, 0x0A01, c, 0x77, case.reliable, &body)?,
                Alter::OtherSourceNode => encode(&k_in, peer_node ^ 0x55, 0x0A01, c, 0x77, case.reliable, &body)?,
                Alter::OtherSessionId => encode(&k_in, peer_node, 0x0A02, c, 0x77, case.reliable, &body)?,
                Alter::ForeignSourceInHeader { node } => {
                    let node = if *node == peer_node { node.wrapping_add(1) } else { *node };
                    encode_src(&k_in, node, Some(node), 0x0A01, c, 0x77, case.reliable, &body)?
                }
                Alter::Replay => genuine.clone(),
            })
        };

        let mut verdict: Option<Case> = None;
        let mut reached_auth = 0usize;
        {
            let responder = Responder::new("device", Sink(&received), &device, 0);
            let mut ex = Exec::new(Sched::Fifo);
            ex.add_time_source(&net);
            ex.spawn("dev.run", async {
                let _ = device.run(&cd, net.end(0), net.end(0), NoNetwork).await;
            });
            ex.spawn("dev.resp", async {
                let _ = responder.run::<2>().await;
            });
            ex.run_for(10 * MS);

            let mut n = 0usize;
            let mut inject_all = |ex: &mut Exec<'_>, list: &[Alter], phase: &str, verdict: &mut Option<Case>| {
                for a in list {
                    n += 1;
                    let Some(bytes) = alter(a, n) else { continue };
                    if vh::sim::node::decode_plain(&bytes).map(|(sid, _, enc)| enc && (sid == 0x0A01 || sid == 0x0A02)).unwrap_or(false) {
                        reached_auth += 1;
                    }
                    let before: Vec<_> = sessions(&device).iter().map(essence).collect();
                    let got_before = received.borrow().len();
                    net.inject(0, peer_addr(case.transport), bytes.clone());
                    if ex.run_for(20 * MS) == Stop::PollLimit {
                        *verdict = Some(Case::inconclusive("poll watchdog"));
                        return;
                    }
                    let mut after: Vec<_> = sessions(&device).iter().map(essence).collect();
                    let mut before = before;
                    if matches!(a, Alter::Replay) {
                        // an authentic duplicate is acknowledged again, which takes a send counter:
                        // everything else must stay as it is
                        for e in before.iter_mut().chain(after.iter_mut()) {
                            e.3 = 0;
                        }
                    }
                    if received.borrow().len() != got_before {
                        verdict.get_or_insert_with(|| {
                            Case::fail(
                                format!("node:forged-packet-delivered:{}", kind_name(a)),
                                format!("{phase}: altered packet {a:?} was handed to an exchange"),
                            )
                        });
                    }
                    if before != after {
                        verdict.get_or_insert_with(|| {
                            Case::fail(
                                format!("node:rejected-packet-changed-state:{}", kind_name(a)),
                                format!("{phase}: altered packet {a:?} changed the session table\n before: {before:?}\n after:  {after:?}"),
                            )
                        });
                    }
                }
            };
            inject_all(&mut ex, &case.before, "before the genuine message", &mut verdict);
            if verdict.is_none() {
                // the genuine message must be accepted
                net.inject(0, peer_addr(case.transport), genuine.clone());
                ex.run_for(20 * MS);
                if received.borrow().len() != 1 || received.borrow()[0] != body {
                    verdict = Some(Case::fail(
                        "node:genuine-message-not-delivered",
                        format!("after {} rejected forgeries the genuine message was not delivered intact (received {:?} message(s))", case.before.len(), received.borrow().len()),
                    ));
                }
            }
            if verdict.is_none() {
                inject_all(&mut ex, &case.after, "after the genuine message", &mut verdict);
            }
        }
        verdict.unwrap_or_else(|| Case::pass(reached_auth > 0).label(if case.pase { "pase" } else { "case" }))
    }

    fn kind_name(a: &Alter) -> &'static str {
        match a {
            Alter::Flip { .. } => "bit-flip",
            Alter::Truncate { .. } => "truncate",
            Alter::Extend { .. } => "extend",
            Alter::OtherKey => "other-key",
            Alter::OppositeDirection => "opposite-direction",
            Alter::OtherSourceNode => "other-source-node",
            Alter::OtherSessionId => "other-session-id",
            Alter::ForeignSourceInHeader { .. } => "foreign-source-in-header",
            Alter::Replay => "replay",
        }
    }
}

/// The authenticity verdicts of the node-level group reception scenario (`sim/grouprx.rs`).
/// What a node sends to a group is what a member of that group decodes (real
/// `Exchange::initiate_group`, several groups sharing key sets and multicast addresses).
fn check_node_group_tx(case: &vh::sim::grouptx::GtxCase) -> Case {
    let v = vh::sim::grouptx::run(case);
    if let Some(e) = v.inconclusive {
        return Case::inconclusive(e);
    }
    if let Some((sig, detail)) = v.fail {
        return Case::fail(sig, detail);
    }
    Case::pass(v.shared_session_shape).label(if v.shared_session_shape { "consecutive-groups-share-key-set-and-address" } else { "no-shared-session-shape" })
}

fn check_node_group_rx(case: &vh::sim::grouprx::GrxCase) -> Case {
    use vh::sim::grouprx::{run, Class};
    let out = run(case);
    if let Some(why) = &out.inconclusive {
        return Case::inconclusive(why.clone());
    }
    match out.first(Class::Auth) {
        Some(f) => Case::fail(f.signature.clone(), f.detail.clone()),
        None => Case::pass(out.nontrivial).labels(out.labels.clone()),
    }
}

fn main() {
    vh::util::init_stderr_log();
    let mut run = Run::new(
        "C03",
        "exploration",
        "sessions (PASE / CASE / group / unsecured; random keys, node ids, session ids) x messages (the header shape Session::pre_send emits for the mode, any shape reachable through the public setters: source id present or not, no / node / group destination, control flag, ack, vendor, initiator, reliable; the same shapes encoded by a conforming peer (reference encoder) with payloads up to the 1280 byte MTU; plus shapes only a foreign peer can emit: P, MX, SX, DSIZ=3) x payload lengths 0..=MAX_TX_PAYLOAD_SIZE weighted to 0..48 and the block / maximum edges; `tamper` adds ONE alteration per case (bit flip, byte xor, truncation, extension, other key, opposite-direction key, other peer node in the nonce, packet forged under another source node, flags byte replaced, header field overwritten, header/body splice); `length-sweep` enumerates every payload length 0..=1228 per mode; `small-exhaustive` enumerates every bit flip, truncation, 1..=17 byte extension and flags-byte value of a table of small packets. Non-trivial: the session is secured and (for alterations) the altered packet still has a well-formed unencrypted header, i.e. it reaches the decryption step; distinct = distinct serialized case",
    );
    run.assume("AES-128-CCM of the RustCrypto `ccm`/`aes` crates (used by the harness' reference encoder) is a correct AES-CCM; the two chip-tool wire captures of proto_hdr.rs anchor nonce layout, AAD and tag length (sub-check reference-kat)");
    run.assume("the receive side takes the nonce node id from Session::peer_nodeid (unicast) or from the packet's source node id (group), as Session::decode_remaining / Sessions::get_or_create_for_group_rx do; the harness calls PacketHdr::decode_remaining with exactly these values");
    run.assume("the hooks PlainHdr::verif_msg_flag_bits / verif_sec_flag_bits and ProtoHdr::verif_exch_flag_bits return the decoded flag bytes unchanged");
    run.assume("the relative order of Protocol ID and Protocol Vendor ID on the wire is not fixed by the property: both orders are accepted");
    run.extra("max_tx_payload", serde_json::json!(MAX_TX_PAYLOAD_SIZE));
    run.extra("max_rx_packet", serde_json::json!(MAX_RX_PACKET_SIZE));

    // ---- L1: component level -------------------------------------------------------------
    run.exhaustive("reference-kat", kats(), check_kat);

    let n = run.cases(1_000_000, 20_000_000);
    run.prop("roundtrip", n, rt_case, check_roundtrip);

    let n = run.cases(2_000_000, 40_000_000);
    run.prop("tamper", n, tamper_case, check_tamper);

    let n = run.cases(500_000, 10_000_000);
    run.prop("unsecured-tamper", n, unsecured_tamper_case, check_unsecured_tamper);

    run.exhaustive("length-sweep", sweep_items(), check_sweep);

    let items = small_items(run.is_thorough());
    run.exhaustive("small-exhaustive", items, check_small);

    // ---- L2: node level (simulator): a rejected packet leaves the session untouched ---------
    run.assume("L2: forged packets carry fresh counters so that they reach the authentication step; a session's last-use stamp may change on lookup");
    let n = run.cases(60_000, 2_000_000);
    run.prop("node-reject-state-unchanged", n, l2::l2_case, l2::check_l2);

    // ---- L2: the node's GROUP receive path (key-candidate loop, session id match, AEAD) --------
    run.assume("node-group-rx: group keys are derived with the crate's own KeySet::update / derive_group_session_id and datagrams are built with PacketHdr::encode; the hooks Sessions::verif_group_ctr_entries and ExchangeId::verif_session_id are read-only");
    run.assume("node-group-rx: one device with 1-2 fabrics x 1-2 key sets (1-2 epoch keys) x 1-3 groups (<= 4 key map entries) and 1-3 senders per fabric receives 1-25 generated group datagrams (genuine with counters relative to the sender's history, replays, bit flips per zone, truncation, extension, cross-key, other-fabric key, wrong session id, unknown group, random key, foreign nonce node, control flag, R flag, bursts of 14-18 further senders) 10 ms apart while the application keeps each delivered exchange for 0/5/15/25 ms; non-trivial = a rejected datagram is followed by a delivered genuine one of the same sender carrying an equal or older counter; findings made while or after a datagram arrived during the handling of an earlier message from the same address/node/session id carry the suffix ':handling-overlap'");
    run.assume("node-group-rx: a sender does not reuse a 32-bit counter value (control vs data counter space, or a data counter 2^32 messages later) while the device still handles the earlier message carrying it; whether a refused (duplicate) authenticated message refreshes the least-recently-used order of the 16 tracked senders is left open (three-valued eviction model)");
    let n = run.cases(40_000, 2_000_000);
    run.prop("node-group-rx", n, vh::sim::grouprx::grx_case, check_node_group_rx);
    let n = run.cases(4_000, 200_000);
    run.prop("node-group-tx", n, vh::sim::grouptx::gtx_case, check_node_group_tx);

    run.finish();
}
