//! C19 — A certificate chain is accepted exactly when it is valid under the Matter rules.
//!
//! Generated: chains RCAC->NOC and RCAC->ICAC->NOC forged field by field
//! (`vh::gen::certforge`), valid or deviating from a valid chain in one listed respect (plus
//! random combinations of field-level deviations).
//!
//! Oracle: the predicate over the generator's parameters (`Truth`), compared in both directions
//! with
//! * `verify_chain_start -> add_cert* -> finalise`               (sub-checks `chain-*`),
//! * `CaseP::validate_certs` against a fabric + the peer node id read (`case-*`),
//! * `FailSafe::add_noc` / `FailSafe::update_noc` on a fail-safe context driven like the
//!   operational-credentials cluster does (`add-noc`, `update-noc`).


use proptest::prelude::*;
use serde::{Deserialize, Serialize};

use rs_matter::cert::CertRef;
use rs_matter::crypto::{
    default_crypto, CanonPkcPublicKey, CanonPkcSecretKeyRef, Crypto, PublicKey, SigningSecretKey,
};
use rs_matter::dm::clusters::time_sync::UtcTime;
use rs_matter::dm::devices::test::DAC_PRIVKEY;
use rs_matter::fabric::Fabrics;
use rs_matter::failsafe::FailSafe;
use rs_matter::sc::case::verif::CaseP;
use rs_matter::sc::pase::Pase;
use rs_matter::tlv::TLVElement;
use rs_matter::transport::session::SessionMode;

use vh::gen::certforge::*;
use vh::{Case, Run};

// ---------------------------------------------------------------------------------------------
// Deterministic RNG for the crypto provider (the CSR key of the node is drawn from it)
// ---------------------------------------------------------------------------------------------

struct SeedRng(u64);

impl rand_core::RngCore for SeedRng {
    fn next_u32(&mut self) -> u32 {
        (self.next_u64() >> 32) as u32
    }
    fn next_u64(&mut self) -> u64 {
        // splitmix64
        self.0 = self.0.wrapping_add(0x9e37_79b9_7f4a_7c15);
        let mut z = self.0;
        z = (z ^ (z >> 30)).wrapping_mul(0xbf58_476d_1ce4_e5b9);
        z = (z ^ (z >> 27)).wrapping_mul(0x94d0_49bb_1331_11eb);
        z ^ (z >> 31)
    }
    fn fill_bytes(&mut self, dest: &mut [u8]) {
        rand_core::impls::fill_bytes_via_next(self, dest)
    }
    fn try_fill_bytes(&mut self, dest: &mut [u8]) -> Result<(), rand_core::Error> {
        self.fill_bytes(dest);
        Ok(())
    }
}

impl rand_core::CryptoRng for SeedRng {}

// ---------------------------------------------------------------------------------------------
// Case type
// ---------------------------------------------------------------------------------------------

#[derive(Debug, Clone, Copy, PartialEq, Eq, Serialize, Deserialize)]
enum Existing {
    /// no fabric on the node yet
    None,
    /// a fabric with the same root public key and the same fabric id is already installed
    SameFabric,
    /// the same fabric (root public key + fabric id), installed under a RE-ISSUED root
    /// certificate: same key and names, another serial number - different bytes
    SameFabricReissuedRoot,
    /// same fabric id under another root: a different fabric
    SameIdOtherRoot,
    /// same root, other fabric id: a different fabric
    SameRootOtherId,
}

#[derive(Debug, Clone, Serialize, Deserialize)]
struct Install {
    /// the leaf carries the node's CSR key (`false`: some other key)
    pubkey_is_csr_key: bool,
    existing: Existing,
    rng_seed: u64,
    vendor_id: u16,
    /// valid CaseAdminSubject (a node id)
    admin_subject: u64,
    ipk: [u8; 16],
}

#[derive(Debug, Clone, Serialize, Deserialize)]
struct C19Case {
    p: ChainParams,
    devs: Vec<Deviation>,
    inst: Install,
}

// ---------------------------------------------------------------------------------------------
// Strategies
// ---------------------------------------------------------------------------------------------

const ALNUM: &[u8] = b"ABCDEFGHIJKLMNOPQRSTUVWXYZabcdefghijklmnopqrstuvwxyz0123456789";

fn text() -> impl Strategy<Value = String> {
    prop::collection::vec(0u8..ALNUM.len() as u8, 1..=6)
        .prop_map(|v| v.into_iter().map(|i| ALNUM[i as usize] as char).collect())
}

fn dn_extra() -> impl Strategy<Value = DnAttr> {
    (1u8..=16, any::<bool>(), text()).prop_map(|(tag, printable, s)| DnAttr::text(tag, printable, &s))
}

fn future_ext() -> impl Strategy<Value = FutureExt> {
    (
        any::<u8>(),
        prop_oneof![Just(None), Just(Some(false))],
        prop::collection::vec(any::<u8>(), 0..=6),
    )
        .prop_map(|(oid_arc, critical, value)| FutureExt {
            oid_arc,
            critical,
            value,
        })
}

fn cert_values() -> impl Strategy<Value = CertValues> {
    (
        prop::collection::vec(any::<u8>(), 1..=8),
        prop::collection::vec(dn_extra(), 0..=2),
        any::<bool>(),
        prop_oneof![2 => Just(0u32), 1 => Just(1u32), 4 => 0u32..1_000_000_000, 1 => any::<u32>()],
        prop_oneof![
            2 => Just(None),
            1 => Just(Some(0u32)),
            1 => Just(Some(1u32)),
            4 => (1u32..1_000_000_000).prop_map(Some),
            1 => any::<u32>().prop_map(Some),
        ],
        prop::option::weighted(0.3, future_ext()),
        any::<u8>(),
        any::<bool>(),
    )
        .prop_map(
            |(serial, extra_subject, extra_first, before, after, future_ext, ext_rot, ku_two_bytes)| CertValues {
                serial,
                extra_subject,
                extra_first,
                before,
                after,
                future_ext,
                ext_rot,
                ku_two_bytes,
            },
        )
}

fn node_time() -> impl Strategy<Value = NodeTime> {
    (
        any::<bool>(),
        prop_oneof![
            6 => 600_000_000u64..1_400_000_000,
            2 => 2u64..(u32::MAX as u64 - 1),
            1 => prop::sample::select(vec![2u64, 3, 4, u32::MAX as u64 - 2, u32::MAX as u64 - 1]),
            1 => (u32::MAX as u64)..(1u64 << 40),
        ],
        prop_oneof![3 => Just(0u32), 1 => 0u32..1_000_000],
    )
        .prop_map(|(reliable, secs, micros)| NodeTime {
            reliable,
            secs,
            micros,
        })
}

fn chain_params() -> impl Strategy<Value = ChainParams> {
    let keys = (any::<[u8; 32]>(), any::<[u8; 32]>(), any::<[u8; 32]>(), any::<[u8; 32]>());
    let ids = (
        1u64..=u64::MAX,
        prop_oneof![3 => 1u64..=0xFFFF_FFEF_FFFF_FFFF, 1 => 1u64..1000],
        prop::collection::vec((1u32..=0xffff, 1u32..=0xffff).prop_map(|(i, v)| (i << 16) | v), 0..=3),
        any::<u64>(),
        any::<u64>(),
    );
    let flags = (
        any::<bool>(),
        any::<bool>(),
        any::<bool>(),
        prop_oneof![3 => Just(None), 2 => Just(Some(0u8)), 1 => Just(Some(1u8)), 1 => any::<u8>().prop_map(Some)],
        prop_oneof![2 => Just(None), 3 => Just(Some(0u8)), 1 => any::<u8>().prop_map(Some)],
        any::<bool>(),
        any::<bool>(),
        any::<bool>(),
        any::<bool>(),
    );
    (keys, ids, flags, node_time(), cert_values(), cert_values(), cert_values()).prop_map(
        |(keys, ids, f, time, root, ica, mut leaf)| {
            // size budget of a leaf (TLV <= 400, DER <= 600): several CATs leave room for one
            // extra attribute only
            if ids.2.len() > 1 {
                leaf.extra_subject.truncate(1);
            }
            ChainParams {
            with_icac: f.0,
            root_seed: keys.0,
            ica_seed: keys.1,
            leaf_seed: keys.2,
            stranger_seed: keys.3,
            fabric_id: ids.0,
            node_id: ids.1,
            cats: ids.2,
            rcac_id: ids.3,
            icac_id: ids.4,
            root_fabric_id: f.1,
            ica_fabric_id: f.2,
            root_path_slack: f.3,
            ica_path_len: f.4,
            root_ku_dig_sig: f.5,
            ica_ku_dig_sig: f.6,
            eku_swapped: f.7,
            ids_min_width: f.8,
            time,
            root,
            ica,
            leaf,
            }
        },
    )
}

fn pos() -> impl Strategy<Value = Pos> {
    prop::sample::select(vec![Pos::Leaf, Pos::Ica, Pos::Root])
}

fn dn_edit() -> impl Strategy<Value = DnEdit> {
    prop::sample::select(vec![
        DnEdit::ChangeValue,
        DnEdit::ChangeValue,
        DnEdit::Drop,
        DnEdit::Add,
        DnEdit::Reorder,
        DnEdit::ChangeTag,
    ])
}

fn by() -> impl Strategy<Value = u32> {
    prop_oneof![2 => Just(1u32), 1 => Just(2u32), 3 => 1u32..100_000_000, 1 => any::<u32>()]
}

/// Deviations on which the statement decides at the sequence interface.
fn deviation_decided() -> impl Strategy<Value = Deviation> {
    use Deviation::*;
    prop_oneof![
        4 => (pos(), any::<u16>()).prop_map(|(pos, bit)| SigBitFlip { pos, bit }),
        2 => pos().prop_map(|pos| SignedByStranger { pos }),
        3 => (pos(), prop::sample::select(vec![TamperField::Serial, TamperField::SubjectId, TamperField::NotAfter, TamperField::PublicKey]))
            .prop_map(|(pos, field)| TamperAfterSigning { pos, field }),
        4 => (pos(), dn_edit(), any::<u16>()).prop_map(|(pos, how, sel)| IssuerAttr { pos, how, sel }),
        2 => (pos(), dn_edit(), any::<u16>()).prop_map(|(pos, how, sel)| AuthoritySubjectAttr { pos, how, sel }),
        4 => (pos(), by()).prop_map(|(pos, by)| Expired { pos, by }),
        4 => (pos(), by()).prop_map(|(pos, by)| NotYetValid { pos, by }),
        2 => Just(LeafCaFlag),
        2 => Just(LeafNoDigitalSignature),
        3 => prop::sample::select(vec![EkuDrop::ServerAuth, EkuDrop::ClientAuth, EkuDrop::Both, EkuDrop::Absent, EkuDrop::ServerAuthTwice, EkuDrop::ClientAuthTwice, EkuDrop::ServerAuthReplaced, EkuDrop::ClientAuthReplaced])
            .prop_map(|drop| LeafEku { drop }),
        1 => Just(LeafNoKeyUsage),
        2 => pos().prop_map(|pos| AuthorityNotCa { pos }),
        1 => pos().prop_map(|pos| AuthorityNoBasicConstraints { pos }),
        2 => pos().prop_map(|pos| AuthorityNoCertSign { pos }),
        1 => pos().prop_map(|pos| AuthorityNoKeyUsage { pos }),
        2 => Just(PathLenZeroWithIca),
        3 => (pos(), any::<bool>(), any::<bool>()).prop_map(|(pos, explicit_false_first, separate_element)| CriticalUnknownExt { pos, explicit_false_first, separate_element }),
        2 => Just(LeafNoNodeId),
        2 => Just(LeafNoFabricId),
        2 => Just(LeafOtherFabric),
        6 => any::<bool>().prop_map(|root_names_a| ConsistentForeignFabric { root_names_a }),
        3 => Just(IcacForeignFabric),
        1 => Just(SwapLeafAndIca),
        1 => Just(SwapIcaAndRoot),
        1 => Just(RepeatLeaf),
        1 => Just(RepeatIca),
        1 => Just(OmitIca),
        1 => Just(OmitRoot),
        2 => any::<bool>().prop_map(|same_skid| UntrustedRoot { same_skid }),
        2 => Just(RootNotSelfSigned),
        2 => Just(LeafAsAuthority),
        2 => any::<bool>().prop_map(|with_node_id| CaAsLeaf { with_node_id }),
    ]
}

/// Deviations on which the statement is silent (robustness only: no panic, no verdict).
fn deviation_undecided() -> impl Strategy<Value = Deviation> {
    use Deviation::*;
    prop_oneof![
        pos().prop_map(|pos| AkidMismatch { pos }),
        pos().prop_map(|pos| AkidAbsent { pos }),
        pos().prop_map(|pos| SkidAbsent { pos }),
        Just(LeafNoBasicConstraints),
        pos().prop_map(|pos| AuthorityOtherFabric { pos }),
        Just(RepeatRoot),
    ]
}

fn deviation() -> impl Strategy<Value = Deviation> {
    prop_oneof![12 => deviation_decided(), 1 => deviation_undecided()]
}

fn install() -> impl Strategy<Value = Install> {
    (
        any::<u64>(),
        any::<u16>(),
        1u64..=0xFFFF_FFEF_FFFF_FFFF,
        any::<[u8; 16]>(),
    )
        .prop_map(|(rng_seed, vendor_id, admin_subject, ipk)| Install {
            pubkey_is_csr_key: true,
            existing: Existing::None,
            rng_seed,
            vendor_id,
            admin_subject,
            ipk,
        })
}

fn valid_case() -> impl Strategy<Value = C19Case> {
    (chain_params(), install()).prop_map(|(p, inst)| C19Case {
        p,
        devs: vec![],
        inst,
    })
}

fn one_deviation_case() -> impl Strategy<Value = C19Case> {
    (chain_params(), deviation(), install()).prop_map(|(p, d, inst)| C19Case {
        p,
        devs: vec![d],
        inst,
    })
}

fn combo_case() -> impl Strategy<Value = C19Case> {
    (
        chain_params(),
        prop::collection::vec(deviation(), 2..=4),
        install(),
    )
        .prop_map(|(p, ds, inst)| {
            // at most one deviation per group, field-level only (others do not compose)
            let mut devs: Vec<Deviation> = Vec::new();
            for d in ds {
                if d.is_field_level() && !devs.iter().any(|e| e.group() == d.group()) {
                    devs.push(d);
                }
            }
            C19Case { p, devs, inst }
        })
}

/// Credential installation: a valid or one-deviation chain, or a valid chain with exactly one
/// of the installation-specific deviations (foreign public key, fabric exists already), or a
/// valid chain next to a *different* existing fabric.
fn install_case() -> impl Strategy<Value = C19Case> {
    (
        chain_params(),
        deviation(),
        install(),
        prop_oneof![
            3 => Just(0u8), // valid
            6 => Just(1u8), // chain deviation
            2 => Just(2u8), // foreign key
            2 => Just(3u8), // fabric exists
            2 => Just(6u8), // fabric exists under a re-issued root certificate
            1 => Just(4u8), // same id other root
            1 => Just(5u8), // same root other id
        ],
    )
        .prop_map(|(mut p, d, mut inst, kind)| {
            // staging a root with a path length above 1 is refused by another command
            // (AddTrustedRootCertificate), which is not what this check is about
            p.root_path_slack = p.root_path_slack.map(|_| 0);
            let mut devs = vec![];
            match kind {
                1 => devs.push(d),
                2 => inst.pubkey_is_csr_key = false,
                3 => inst.existing = Existing::SameFabric,
                4 => inst.existing = Existing::SameIdOtherRoot,
                5 => inst.existing = Existing::SameRootOtherId,
                6 => inst.existing = Existing::SameFabricReissuedRoot,
                _ => {}
            }
            C19Case { p, devs, inst }
        })
}

// ---------------------------------------------------------------------------------------------
// Running the code under test
// ---------------------------------------------------------------------------------------------

fn utc(t: &NodeTime) -> UtcTime {
    if t.reliable {
        UtcTime::Reliable(t.micros_total())
    } else {
        UtcTime::LastKnown(t.micros_total())
    }
}

fn cert(b: &[u8]) -> CertRef<'_> {
    CertRef::new(TLVElement::new(b))
}

/// `verify_chain_start -> add_cert* -> finalise`; `Err` carries the error code as text.
fn run_chain<C: Crypto>(crypto: &C, fc: &ForgedChain) -> Result<(), String> {
    let time = utc(&fc.time);
    let leaf = cert(&fc.leaf);
    let inter: Vec<CertRef> = fc.inter.iter().map(|b| cert(b)).collect();
    let root = cert(&fc.root);
    let mut buf = [0u8; 1000];
    let mut v = leaf.verify_chain_start(crypto, time);
    for c in &inter {
        v = v.add_cert(c, &mut buf).map_err(|e| format!("{:?}", e.code()))?;
    }
    v.add_cert(&root, &mut buf)
        .map_err(|e| format!("{:?}", e.code()))?
        .finalise(&mut buf)
        .map_err(|e| format!("{:?}", e.code()))
}

/// A syntactically complete NOC of the local node (never verified by anybody: `Fabrics::add`
/// only reads node id and fabric id from it).
fn local_noc(fabric_id: u64, node_id: u64) -> Vec<u8> {
    CertSpec {
        serial: vec![1],
        sig_algo: 1,
        issuer: vec![DnAttr::id(dn_tag::RCAC_ID, 1)],
        not_before: 1,
        not_after: 0,
        subject: vec![
            DnAttr::id(dn_tag::NODE_ID, node_id),
            DnAttr::id(dn_tag::FABRIC_ID, fabric_id),
        ],
        pubkey_algo: 1,
        curve: 1,
        pubkey: vec![4; 65],
        exts: vec![],
        ids_min_width: false,
    }
    .tlv(Some(&[0u8; 64]))
}

const LOCAL_KEY: [u8; 32] = [0x11; 32];

enum Outcome {
    Accepted,
    Refused(String),
    /// the harness could not set the scene
    Harness(String),
}

/// CASE: validate the peer's chain against the fabric whose root is `fc.root`, then read the
/// peer node id, as the CASE responder / initiator do before they create the session.
fn run_case<C: Crypto>(crypto: &C, fc: &ForgedChain) -> Outcome {
    let mut fabrics = Fabrics::new();
    let fabric = match fabrics.add(
        crypto,
        CanonPkcSecretKeyRef::new(&LOCAL_KEY),
        &fc.root,
        &local_noc(fc.fabric_id, 0x0000_0001_0000_0001),
        &[],
        None,
        0xfff1,
        0x0000_0001_0000_0002,
    ) {
        Ok(f) => f,
        Err(e) => return Outcome::Harness(format!("Fabrics::add: {:?}", e.code())),
    };
    let casep = CaseP::<C>::new();
    let noc = cert(&fc.leaf);
    let icac = fc.icac().map(cert);
    let mut buf = [0u8; 1024];
    if let Err(e) = casep.validate_certs(crypto, utc(&fc.time), fabric, &noc, icac.as_ref(), &mut buf) {
        return Outcome::Refused(format!("validate_certs: {:?}", e.code()));
    }
    match noc.get_node_id() {
        Ok(_) => Outcome::Accepted,
        Err(e) => Outcome::Refused(format!("get_node_id: {:?}", e.code())),
    }
}

fn pubkey_of<C: Crypto>(crypto: &C, secret: CanonPkcSecretKeyRef<'_>) -> Result<[u8; 65], String> {
    let sk = crypto.secret_key(secret).map_err(|e| format!("{:?}", e.code()))?;
    let mut pk = CanonPkcPublicKey::new();
    sk.pub_key()
        .map_err(|e| format!("{:?}", e.code()))?
        .write_canon(&mut pk)
        .map_err(|e| format!("{:?}", e.code()))?;
    Ok(*pk.access())
}

struct InstallResult {
    outcome: Outcome,
    truth: Truth,
    labels: Vec<String>,
    role_based: bool,
}

/// Drive ArmFailSafe -> [AddTrustedRootCertificate] -> CSRRequest -> AddNOC / UpdateNOC on the
/// fail-safe context the way the operational-credentials cluster handlers do.
fn run_install<C: Crypto>(crypto: &C, c: &C19Case, update: bool) -> Result<InstallResult, ForgeError> {
    vh::sim::reset_universe();
    let mut failsafe = FailSafe::new();
    let mut pase = Pase::new();
    let mut fabrics = Fabrics::new();
    let mut labels = Vec::new();
    let harness = |m: String| {
        Ok(InstallResult {
            outcome: Outcome::Harness(m),
            truth: Truth::VALID,
            labels: vec![],
            role_based: true,
        })
    };

    // The trusted root is known before the CSR key is: forge once with a placeholder key to
    // learn the root (it does not depend on the leaf), then again with the CSR key.
    let pre = forge(crypto, &c.p, &c.devs, None)?;
    let time = utc(&pre.time);
    let mut buf = [0u8; rs_matter::cert::MAX_CERT_ASN1_LEN];

    // fabrics that exist before the command
    let mut mode = SessionMode::Pase { fab_idx: 0 };
    if update {
        let f = match fabrics.add(
            crypto,
            CanonPkcSecretKeyRef::new(&LOCAL_KEY),
            &pre.root,
            &local_noc(pre.fabric_id, 0x0000_0001_0000_0001),
            &[],
            None,
            c.inst.vendor_id,
            c.inst.admin_subject,
        ) {
            Ok(f) => f,
            Err(e) => return harness(format!("Fabrics::add: {:?}", e.code())),
        };
        mode = SessionMode::Case {
            fab_idx: f.fab_idx(),
            cat_ids: Default::default(),
        };
    } else {
        let other_root = |seed_from: &ChainParams| -> Result<Vec<u8>, ForgeError> {
            let mut p2 = seed_from.clone();
            p2.root_seed = p2.stranger_seed;
            p2.root_seed[29] = !seed_from.root_seed[29]; // never the same key as the real root
            Ok(forge(crypto, &p2, &[], None)?.root)
        };
        let (root, fid) = match c.inst.existing {
            Existing::None => (None, 0),
            Existing::SameFabric => (Some(pre.root.clone()), pre.fabric_id),
            Existing::SameFabricReissuedRoot => {
                let mut p2 = c.p.clone();
                // same key, same names: only the serial number (and with it the bytes) differs
                p2.root.serial = if p2.root.serial == [0x5a] { vec![0x5b] } else { vec![0x5a] };
                (Some(forge(crypto, &p2, &[], None)?.root), pre.fabric_id)
            }
            Existing::SameIdOtherRoot => (Some(other_root(&c.p)?), pre.fabric_id),
            Existing::SameRootOtherId => (
                Some(pre.root.clone()),
                match pre.fabric_id ^ 1 {
                    0 => 3,
                    v => v,
                },
            ),
        };
        if let Some(root) = root {
            labels.push(format!("existing:{:?}", c.inst.existing));
            if let Err(e) = fabrics.add(
                crypto,
                CanonPkcSecretKeyRef::new(&LOCAL_KEY),
                &root,
                &local_noc(fid, 0x0000_0001_0000_0001),
                &[],
                None,
                c.inst.vendor_id,
                c.inst.admin_subject,
            ) {
                return harness(format!("Fabrics::add(existing): {:?}", e.code()));
            }
        }
    }
    let fabrics_before = fabrics.iter().count();

    if let Err(e) = failsafe.arm(60, 0, &mode, &mut pase) {
        return harness(format!("arm: {:?}", e.code()));
    }

    // CSRRequest: the node generates the key pair
    let csr_pub = {
        let key = if update {
            failsafe.update_csr_req(crypto, &mode)
        } else {
            failsafe.add_csr_req(crypto, &mode)
        };
        match key {
            Ok(k) => match pubkey_of(crypto, k) {
                Ok(p) => p,
                Err(e) => return harness(format!("csr pubkey: {e}")),
            },
            Err(e) => return harness(format!("csr_req: {:?}", e.code())),
        }
    };

    let fc = if c.inst.pubkey_is_csr_key {
        forge(crypto, &c.p, &c.devs, Some(&csr_pub))?
    } else {
        pre
    };
    remember(&fc);
    let mut truth = fc.truth;
    if !c.inst.pubkey_is_csr_key {
        truth.rule = "csr-public-key";
        truth.add_noc = Expect::Reject;
        truth.update_noc = Expect::Reject;
    }
    if !update && matches!(c.inst.existing, Existing::SameFabric | Existing::SameFabricReissuedRoot) {
        truth.rule = "fabric-exists";
        truth.add_noc = Expect::Reject;
    }
    if !fc.role_based {
        return Ok(InstallResult {
            outcome: Outcome::Refused("n/a".into()),
            truth,
            labels,
            role_based: false,
        });
    }

    let outcome = if update {
        match failsafe.update_noc(crypto, time, &mut fabrics, &mode, fc.icac(), &fc.leaf, &mut buf, || {}) {
            Ok(f) => {
                if f.fabric_id() != fc.fabric_id || f.node_id() != fc.node_id {
                    Outcome::Refused(format!(
                        "!identity: installed fabric {:#x} node {:#x}, leaf says fabric {:#x} node {:#x}",
                        f.fabric_id(),
                        f.node_id(),
                        fc.fabric_id,
                        fc.node_id
                    ))
                } else {
                    Outcome::Accepted
                }
            }
            Err(e) => Outcome::Refused(format!("update_noc: {:?}", e.code())),
        }
    } else {
        match failsafe.add_trusted_root_cert(crypto, time, &mode, &fc.root, &mut buf) {
            Err(e) => Outcome::Refused(format!("add_trusted_root_cert: {:?}", e.code())),
            Ok(()) => match failsafe.add_noc(
                crypto,
                time,
                &mut fabrics,
                &mode,
                c.inst.vendor_id,
                fc.icac(),
                &fc.leaf,
                &c.inst.ipk,
                c.inst.admin_subject,
                &mut buf,
                || {},
            ) {
                Ok(f) => {
                    let _ = f;
                    Outcome::Accepted
                }
                Err(e) => Outcome::Refused(format!("add_noc: {:?}", e.code())),
            },
        }
    };

    // a refused command must not have installed anything, an accepted AddNOC exactly one fabric
    let after = fabrics.iter().count();
    let outcome = match outcome {
        Outcome::Refused(m) if after != fabrics_before => {
            Outcome::Refused(format!("!installed-anyway: {m}; fabrics {fabrics_before} -> {after}"))
        }
        Outcome::Accepted if !update && after != fabrics_before + 1 => {
            Outcome::Refused(format!("!not-installed: fabrics {fabrics_before} -> {after}"))
        }
        o => o,
    };

    Ok(InstallResult {
        outcome,
        truth,
        labels,
        role_based: true,
    })
}

// ---------------------------------------------------------------------------------------------
// Oracle comparison
// ---------------------------------------------------------------------------------------------

thread_local! {
    /// hex of the certificates of the chain under judgement (failure details only)
    static PRESENTED: std::cell::RefCell<String> = const { std::cell::RefCell::new(String::new()) };
}

fn remember(fc: &ForgedChain) {
    let mut s = format!("leaf={}", vh::util::hex(&fc.leaf));
    for (i, c) in fc.inter.iter().enumerate() {
        s.push_str(&format!(" inter{i}={}", vh::util::hex(c)));
    }
    s.push_str(&format!(" root={}", vh::util::hex(&fc.root)));
    PRESENTED.with(|p| *p.borrow_mut() = s);
}

fn describe(c: &C19Case) -> String {
    format!(
        "shape={} time={:?} deviations={:?}",
        if c.devs.iter().fold(c.p.with_icac, |w, d| d.forces_icac().unwrap_or(w)) {
            "RCAC->ICAC->NOC"
        } else {
            "RCAC->NOC"
        },
        c.p.time,
        c.devs
    ) + &PRESENTED.with(|p| format!("; presented: {}", p.borrow()))
}

fn accepted_signature(level: &str, rule: &str) -> String {
    if rule == "issuer-subject-link" {
        format!("{level}:issuer-dn-mismatch-accepted")
    } else {
        format!("{level}:{rule}-accepted")
    }
}

fn judge(level: &str, c: &C19Case, truth: &Truth, expect: Expect, outcome: Outcome, mut labels: Vec<String>) -> Case {
    labels.push(format!("rule:{}", truth.rule));
    for d in &c.devs {
        labels.push(format!("dev:{}", d.name()));
    }
    labels.push(if c.p.time.reliable { "time:reliable".into() } else { "time:last-known".into() });
    let nontrivial = c.devs.len() == 1 && expect != Expect::Either;
    match (expect, outcome) {
        (_, Outcome::Harness(m)) => Case::inconclusive(m),
        (Expect::Either, Outcome::Accepted) => Case::pass(false).labels(labels).label("either:accepted"),
        (Expect::Either, Outcome::Refused(_)) => Case::pass(false).labels(labels).label("either:refused"),
        (Expect::Accept, Outcome::Accepted) => Case::pass(nontrivial).labels(labels).label("accept-ok"),
        (Expect::Reject, Outcome::Refused(m)) => {
            if m.starts_with('!') {
                Case::fail(format!("{level}:side-effect"), format!("{m}; {}", describe(c)))
            } else {
                Case::pass(nontrivial).labels(labels).label("reject-ok")
            }
        }
        (Expect::Accept, Outcome::Refused(m)) => Case::fail(
            format!("{level}:valid-rejected"),
            format!("a chain that is valid by the statement was refused ({m}); {}", describe(c)),
        ),
        (Expect::Reject, Outcome::Accepted) => Case::fail(
            accepted_signature(level, truth.rule),
            format!(
                "a chain violating rule '{}' was accepted; {}",
                truth.rule,
                describe(c)
            ),
        ),
    }
}

fn forge_failed(c: &C19Case, e: ForgeError) -> Case {
    match e {
        ForgeError::NotApplicable(w) => Case::pass(false).label(format!("n/a:{w}")),
        ForgeError::Asn1(m) if c.devs.is_empty() => Case::fail(
            "forge:valid-cert-not-convertible",
            format!("CertRef::as_asn1 refused a certificate of a valid chain ({m}); {}", describe(c)),
        ),
        ForgeError::Asn1(m) => Case::pass(false).label(format!("forge-asn1:{m}")),
        ForgeError::Oversize(m) => Case::inconclusive(format!("forged certificate too large: {m}; {}", describe(c))),
        ForgeError::Crypto(m) => Case::inconclusive(format!("crypto: {m}")),
    }
}

fn check_chain(c: &C19Case) -> Case {
    let crypto = default_crypto(SeedRng(c.inst.rng_seed), DAC_PRIVKEY);
    let fc = match forge(&crypto, &c.p, &c.devs, None) {
        Ok(fc) => fc,
        Err(e) => return forge_failed(c, e),
    };
    remember(&fc);
    let outcome = match run_chain(&crypto, &fc) {
        Ok(()) => Outcome::Accepted,
        Err(m) => Outcome::Refused(m),
    };
    let shape = format!("certs:{}", 2 + fc.inter.len());
    judge("chain", c, &fc.truth, fc.truth.chain, outcome, vec![shape])
}

fn check_case(c: &C19Case) -> Case {
    let crypto = default_crypto(SeedRng(c.inst.rng_seed), DAC_PRIVKEY);
    let fc = match forge(&crypto, &c.p, &c.devs, None) {
        Ok(fc) => fc,
        Err(e) => return forge_failed(c, e),
    };
    if !fc.role_based {
        return Case::pass(false).label("n/a:sequence-only");
    }
    remember(&fc);
    let outcome = run_case(&crypto, &fc);
    judge("case", c, &fc.truth, fc.truth.case, outcome, vec![])
}

fn check_install(c: &C19Case, update: bool) -> Case {
    let crypto = default_crypto(SeedRng(c.inst.rng_seed), DAC_PRIVKEY);
    let level = if update { "update-noc" } else { "add-noc" };
    match run_install(&crypto, c, update) {
        Err(e) => forge_failed(c, e),
        Ok(r) => {
            if !r.role_based {
                return Case::pass(false).label("n/a:sequence-only");
            }
            let expect = if update { r.truth.update_noc } else { r.truth.add_noc };
            let mut case = judge(level, c, &r.truth, expect, r.outcome, r.labels);
            // the installation-specific single deviations count as non-trivial too
            let single_install_dev = c.devs.is_empty()
                && (!c.inst.pubkey_is_csr_key || (!update && c.inst.existing != Existing::None));
            if single_install_dev && !case.is_fail() && !matches!(case.verdict, vh::Verdict::Inconclusive(_)) {
                case = case.nontrivial(true);
            }
            case
        }
    }
}

fn main() {
    let mut run = Run::new(
        "C19",
        "exploration",
        "chains RCAC->NOC / RCAC->ICAC->NOC forged field by field (keys, serials, DN attribute lists incl. node/fabric/CAT/ICAC/RCAC ids and X.520 attributes, validity margins around the node's reliable or last-known-good time, basic constraints, key usage, extended key usage, SKID/AKID, non-critical future extensions, extension order, integer widths), then zero, one or 2-4 deviations from the list of the property's quantifier. Non-trivial: exactly one deviation (or exactly one installation-specific deviation: foreign public key / fabric exists / neighbouring fabric) on which the statement decides; distinct = distinct serialized case",
    );
    run.assume("CertRef::as_asn1 yields the to-be-signed DER a real CA would sign (the forger signs exactly these bytes); the TLV->DER conversion itself is not under test here");
    run.assume("Crypto (rustcrypto backend) signs and verifies ECDSA-P256/SHA-256 correctly; SHA-1 key identifiers are computed through Crypto::hash1");
    run.assume("hook rs_matter::sc::case::verif::CaseP re-exports the crate-private CaseP unchanged");
    run.assume("CASE accept = CaseP::validate_certs Ok and the peer node id readable from the leaf (both happen before the session is created)");
    run.assume("AddNOC accept = AddTrustedRootCertificate staging + CSRRequest + AddNOC all succeed on FailSafe, driven like dm/clusters/noc.rs does (buffer MAX_CERT_ASN1_LEN)");
    run.assume("where the statement is silent (key identifiers, absent basic constraints on the leaf, not-before under last-known-good time, fabric id on authorities, root presented twice, not-after in the current second with a sub-second part) both outcomes are accepted");

    let n = run.cases(10_000, 300_000);
    run.prop("chain-valid", n, valid_case, check_chain);
    let n = run.cases(40_000, 1_200_000);
    run.prop("chain-one-deviation", n, one_deviation_case, check_chain);
    let n = run.cases(10_000, 300_000);
    run.prop("chain-combination", n, combo_case, check_chain);

    let n = run.cases(4_000, 120_000);
    run.prop("case-valid", n, valid_case, check_case);
    let n = run.cases(20_000, 600_000);
    run.prop("case-one-deviation", n, one_deviation_case, check_case);

    let n = run.cases(20_000, 600_000);
    run.prop("add-noc", n, install_case, |c| check_install(c, false));
    let n = run.cases(12_000, 360_000);
    run.prop("update-noc", n, install_case, |c| check_install(c, true));

    run.finish();
}
