//! C14 — A chunked answer carries the complete result exactly once.
//!
//! A real `InteractionModel` + default responder chain serves a SYNTHETIC node (`vh::sim::imdev`)
//! whose attributes have GENERATED ENCODED SIZES (many small scalars, medium / large scalars up to
//! what fits an empty chunk, lists of 0-300 octet strings of 1-200 octets) and whose event queue
//! holds generated events. A hand-rolled controller sends a Read, a Subscribe (priming) or a
//! Subscribe followed by attribute changes / new events (a later report) with wildcard and
//! concrete paths, matching and stale data-version filters and an event-min filter, and records
//! the payload octets of every ReportData message plus all datagrams of the device (wire tap).
//!
//! One attribute value / list element / event payload (the PIVOT) is resized by the harness so
//! that the end of its report lands `delta` octets (-40..=+40) away from the chunk boundary
//! (`MAX_EXCHANGE_TX_BUF_SIZE` - the 24-octet trailer reserve), computed with an independent size
//! model (minimal-width TLV) and a greedy packing simulation. The simulation only AIMS the
//! generator and names the known finding; the oracle never depends on it.
//!
//! Oracle (from the property statement):
//!  (1) every ReportData payload is one complete anonymous TLV structure (independent decoder:
//!      all containers closed, no trailing octets, known fields at most once) and is decodable by
//!      the public `ReportDataResp`;
//!  (2) every datagram the device sends is <= `MAX_TX_PACKET_SIZE`;
//!  (3) MoreChunkedMessages is set on all messages but the last, a message with MoreChunkedMessages
//!      never suppresses the response, the answer ends (SubscribeResponse after a priming);
//!  (4) the attribute reports of all chunks, list pieces re-assembled per the Matter rule (a
//!      report with the whole / empty list replaces, reports with a null list index append),
//!      equal the one-shot reference expansion: same (path, value) entries, each exactly as often
//!      as it is selected, list elements in order and none split;
//!  (5) each selected event exactly once, event numbers strictly ascending over the whole answer.
//!
//! Sub-check `oversize`: 1-3 scalar values, one list element or one event payload exceed what fits
//! an empty chunk by 1..=400 octets (from the start or with the later changes). The statement cannot
//! hold literally for such a value; the oracle is the weak one: the answer ends within 4 + 2 per
//! oversize occurrence + the messages the other content needs, no two consecutive empty messages,
//! (1)-(3) hold, every OTHER selected attribute / event appears exactly once, the oversize item
//! never appears as data and is answered with a non-success status for its path (attributes:
//! required; events: optional) or the interaction is ended with a non-success StatusResponse.
//!
//! Sub-checks: `read`, `subscribe`, `report`, `oversize` (proptest), `sweep` (enumerated: 7 request shapes x
//! every delta in -40..=40).
//!
//! Hook (add-only, cfg(feature = "verif")): `Events::verif_stored_event_numbers` (read-only), used
//! through `ImRig::stored_event_numbers` to know which emitted events the device still stores
//! when the request is made (event eviction is not part of this property).
//!
//! Known findings (register them as open in VERIF_DIR/known_findings.json to search behind them):
//! `chunk:no-answer-when-report-exactly-fills-buffer`,
//! `chunk:no-answer-when-event-reports-exactly-fill-buffer`,
//! `chunk:no-answer-when-attribute-reports-leave-1-or-2-octets-before-event-reports`.
//!
//! Debugging: `VH_LOG=1` prints the rs-matter log while replaying a case; `C14_DEBUG=1` prints the
//! byte layout of every message; `C14_DEBUG_SWEEP=<i>` runs case i of the sweep verbosely.

#![allow(dead_code)]

use std::cell::RefCell;
use std::collections::{BTreeMap, BTreeSet};
use std::num::NonZeroU8;

use embassy_futures::select::{select, Either};
use embassy_time::{Duration, Timer};
use proptest::prelude::*;
use serde::{Deserialize, Serialize};

use rs_matter::acl::{AclEntry, AuthMode};
use rs_matter::dm::Privilege;
use rs_matter::im::ReportDataResp;
use rs_matter::tlv::{FromTLV, TLVElement};
use rs_matter::transport::exchange::MAX_EXCHANGE_TX_BUF_SIZE;
use rs_matter::transport::network::MAX_TX_PACKET_SIZE;

use vh::sim::imdev::tlv::{Enc, Tag, Val};
use vh::sim::imdev::*;
use vh::sim::{clock, Sched, Stop};
use vh::util::pick;
use vh::{Case, Run};

/// The trailer reserve of the report assembly (design section: "the 24-byte trailer reserve").
const RESERVE: usize = 24;
/// Offset in a ReportData payload up to which reports may extend ("the chunk boundary").
fn boundary() -> usize {
    MAX_EXCHANGE_TX_BUF_SIZE - RESERVE
}
const ACCESS_RV: u16 = 0x11; // Access::READ | Access::NEED_VIEW
const CTRL_NODE_ID: u64 = 0x0000_0000_1122_3344;
const SIG_KNOWN_EXACT_FILL: &str = "chunk:no-answer-when-report-exactly-fills-buffer";
const SIG_EVENTS_EXACT_FILL: &str = "chunk:no-answer-when-event-reports-exactly-fill-buffer";
const SIG_NO_ROOM_FOR_EVENTS: &str = "chunk:no-answer-when-attribute-reports-leave-1-or-2-octets-before-event-reports";
/// Status codes of the "unsupported path / access" family (see c06.rs).
const REFUSAL_FAMILY: &[u16] = &[0x7e, 0x7f, 0xc3, 0x86, 0x81, 0xc7, 0x8f, 0x88, 0xc6, 0x9b];

type Key = (u16, u32, u32);

// ---------------------------------------------------------------------------------------------
// Case types
// ---------------------------------------------------------------------------------------------

#[derive(Debug, Clone, PartialEq, Eq, Serialize, Deserialize)]
enum AttrKind {
    /// octet string of that many octets
    Scalar(u16),
    /// list of octet strings with these lengths
    List(Vec<u8>),
}

#[derive(Debug, Clone, PartialEq, Eq, Serialize, Deserialize)]
struct AttrDef {
    id: u32,
    kind: AttrKind,
}

#[derive(Debug, Clone, PartialEq, Eq, Serialize, Deserialize)]
struct ClDef {
    id: u32,
    dataver: u32,
    attrs: Vec<AttrDef>,
    events: Vec<u32>,
}

#[derive(Debug, Clone, PartialEq, Eq, Serialize, Deserialize)]
struct EpDef {
    id: u16,
    clusters: Vec<ClDef>,
}

#[derive(Debug, Clone, Copy, PartialEq, Eq, Serialize, Deserialize)]
enum Who {
    /// operational session of an administrator of fabric 1
    Case,
    /// commissioning session without fabric (reads only)
    Pase,
}

#[derive(Debug, Clone, Copy, PartialEq, Eq, Serialize, Deserialize)]
enum Kind {
    Read,
    Subscribe,
    /// Subscribe, then the `later` changes, then the report(s) they cause
    Report,
}

#[derive(Debug, Clone, PartialEq, Eq, Serialize, Deserialize)]
struct EmitDef {
    ep: u16,
    cl: u32,
    ev: u32,
    prio: u8,
    size: u16,
}

/// Resize one value so that its report ends `delta` octets after the chunk boundary.
#[derive(Debug, Clone, Copy, PartialEq, Eq, Serialize, Deserialize)]
struct Pivot {
    /// selects among the resizable units (scalar values, list elements, events) of the answer
    sel: u16,
    delta: i16,
}

#[derive(Debug, Clone, PartialEq, Eq, Serialize, Deserialize)]
struct Later {
    /// every attribute is marked changed (`notify_all_changed`)
    all: bool,
    /// (selector into the node's attributes, new value kind or keep) — marked changed one by one
    changes: Vec<(u16, Option<AttrKind>)>,
    emits: Vec<EmitDef>,
    pivot: Option<Pivot>,
    /// selects an endpoint that disappears from the node together with the later changes: the
    /// concrete event paths of the subscription that point to it FAIL from then on (a status each
    /// in the later report). Ignored if a concrete attribute path points to that endpoint or the
    /// node has a single endpoint.
    #[serde(default)]
    hide: Option<u16>,
    /// "future" data-version filters of the subscribe request: (selector among the clusters that
    /// the later changes touch, offset) names the version the cluster will have when the later
    /// report is assembled (+ offset). Such a filter is stale at priming time and must play no
    /// role afterwards.
    #[serde(default)]
    future_filters: Vec<(u16, i8)>,
}

#[derive(Debug, Clone, Copy, PartialEq, Eq, Serialize, Deserialize)]
enum OverKind {
    /// scalar attribute value(s)
    Scalar,
    /// one element of a list attribute
    Element,
    /// one event payload
    Event,
}

/// Sub-check `oversize`: values that do not fit even an empty chunk.
#[derive(Debug, Clone, PartialEq, Eq, Serialize, Deserialize)]
struct Over {
    kind: OverKind,
    /// (selector, octets beyond the largest value whose report fits an empty chunk: >= 1)
    items: Vec<(u16, u16)>,
    /// `Kind::Report` only: the value becomes oversize with the later changes
    later: bool,
}

/// What was made oversize in one phase.
#[derive(Debug, Clone, Default)]
struct OverInfo {
    scalars: BTreeSet<Key>,
    /// list attribute -> index of the oversize element
    elems: BTreeMap<Key, usize>,
    /// payload indices of oversize events
    events: BTreeSet<usize>,
    event_paths: BTreeSet<Path>,
}

impl OverInfo {
    fn is_empty(&self) -> bool {
        self.scalars.is_empty() && self.elems.is_empty() && self.events.is_empty()
    }
    fn count(&self) -> usize {
        self.scalars.len() + self.elems.len() + self.events.len()
    }
}

#[derive(Debug, Clone, Serialize, Deserialize)]
struct C14Case {
    node: Vec<EpDef>,
    who: Who,
    kind: Kind,
    attrs: Option<Vec<Path>>,
    events: Option<Vec<Path>>,
    /// (endpoint, cluster, data version)
    dv_filters: Vec<(u16, u32, u32)>,
    event_min: Option<u64>,
    fabric_filtered: bool,
    emits: Vec<EmitDef>,
    pivot: Option<Pivot>,
    later: Option<Later>,
    sched: Option<u64>,
    seed: u32,
    #[serde(default)]
    over: Option<Over>,
}

// ---------------------------------------------------------------------------------------------
// Raw TLV layout walker (independent of rs-matter and of imdev's tree decoder)
// ---------------------------------------------------------------------------------------------

#[derive(Debug, Clone, Copy)]
struct Elem {
    /// context tag, if the element has one
    ctx: Option<u8>,
    anon: bool,
    ty: u8,
    off: usize,
    len: usize,
    /// offset of the first member (containers) / of the value
    body: usize,
}

/// The element starting at `b[off]`. `None` = malformed / truncated. `Ok(None)`-like end markers
/// are reported with `ty == 0x18`.
fn elem_at(b: &[u8], off: usize, depth: usize) -> Option<Elem> {
    if depth > 16 {
        return None;
    }
    let c = *b.get(off)?;
    let ty = c & 0x1f;
    let tag_len = match c >> 5 {
        0 => 0,
        1 => 1,
        2 | 4 => 2,
        3 | 5 => 4,
        6 => 6,
        _ => 8,
    };
    if ty == 0x18 {
        if c != 0x18 {
            return None;
        }
        return Some(Elem { ctx: None, anon: true, ty, off, len: 1, body: off + 1 });
    }
    let ctx = if c >> 5 == 1 { Some(*b.get(off + 1)?) } else { None };
    let body = off + 1 + tag_len;
    if body > b.len() {
        return None;
    }
    let le = |at: usize, n: usize| -> Option<usize> {
        let s = b.get(at..at + n)?;
        let mut v = 0usize;
        for (i, x) in s.iter().enumerate() {
            if i >= 4 && *x != 0 {
                return None;
            }
            if i < 4 {
                v |= (*x as usize) << (8 * i);
            }
        }
        Some(v)
    };
    let end = match ty {
        0x00..=0x03 => body + (1usize << ty),
        0x04..=0x07 => body + (1usize << (ty - 4)),
        0x08 | 0x09 | 0x14 => body,
        0x0a => body + 4,
        0x0b => body + 8,
        0x0c..=0x0f => {
            let n = 1usize << (ty - 0x0c);
            body + n + le(body, n)?
        }
        0x10..=0x13 => {
            let n = 1usize << (ty - 0x10);
            body + n + le(body, n)?
        }
        0x15..=0x17 => {
            let mut at = body;
            loop {
                let m = elem_at(b, at, depth + 1)?;
                at = m.off + m.len;
                if m.ty == 0x18 {
                    break;
                }
            }
            at
        }
        _ => return None,
    };
    if end > b.len() {
        return None;
    }
    Some(Elem { ctx, anon: c >> 5 == 0, ty, off, len: end - off, body })
}

/// Members of the container `e` (without the end marker).
fn members(b: &[u8], e: &Elem) -> Option<Vec<Elem>> {
    let mut out = Vec::new();
    let mut at = e.body;
    loop {
        let m = elem_at(b, at, 1)?;
        at = m.off + m.len;
        if m.ty == 0x18 {
            return Some(out);
        }
        out.push(m);
    }
}

/// Byte layout of one ReportData payload.
#[derive(Debug, Clone, Default)]
struct Layout {
    sub_id: Option<u64>,
    /// (offset, length) of every AttributeReportIB / EventReportIB
    attr_items: Vec<(usize, usize)>,
    event_items: Vec<(usize, usize)>,
    has_attrs: bool,
    has_events: bool,
    more: bool,
    suppress: bool,
    /// offset where the last report of the message ends (or where the last array starts)
    reports_end: usize,
}

/// Oracle (1), independent part. `Err(reason)` = not a well-formed ReportData structure.
fn layout(b: &[u8]) -> Result<Layout, String> {
    let top = elem_at(b, 0, 0).ok_or("truncated or malformed TLV (a container is not closed or a length overruns the message)")?;
    if !(top.anon && top.ty == 0x15) {
        return Err(format!("the message is not an anonymous structure (control octet {:#04x})", b[0]));
    }
    if top.len != b.len() {
        return Err(format!("{} trailing octets after the end of the structure", b.len() - top.len));
    }
    let mut l = Layout::default();
    let mut seen = BTreeSet::new();
    let uint = |m: &Elem| -> Option<u64> {
        if !(0x04..=0x07).contains(&m.ty) {
            return None;
        }
        let mut v = 0u64;
        for (i, x) in b[m.body..m.off + m.len].iter().enumerate() {
            v |= (*x as u64) << (8 * i);
        }
        Some(v)
    };
    for m in members(b, &top).ok_or("malformed member")? {
        let Some(t) = m.ctx else { return Err("a field of the ReportData structure has no context tag".into()) };
        if !seen.insert(t) {
            return Err(format!("field {t} occurs twice"));
        }
        match t {
            0 => l.sub_id = Some(uint(&m).ok_or("SubscriptionId is not an unsigned integer")?),
            1 | 2 => {
                if m.ty != 0x16 {
                    return Err(format!("field {t} is not an array"));
                }
                let items = members(b, &m).ok_or("malformed report array")?;
                match items.last() {
                    Some(i) => l.reports_end = i.off + i.len,
                    None if l.reports_end == 0 => l.reports_end = m.body,
                    None => {}
                }
                for i in &items {
                    if !(i.anon && i.ty == 0x15) {
                        return Err(format!("an entry of report array {t} is not an anonymous structure"));
                    }
                }
                let v: Vec<(usize, usize)> = items.iter().map(|i| (i.off, i.len)).collect();
                if t == 1 {
                    l.attr_items = v;
                    l.has_attrs = true;
                } else {
                    l.event_items = v;
                    l.has_events = true;
                }
            }
            3 | 4 => {
                let v = match m.ty {
                    0x08 => false,
                    0x09 => true,
                    _ => return Err(format!("field {t} is not a boolean")),
                };
                if t == 3 {
                    l.more = v;
                } else {
                    l.suppress = v;
                }
            }
            0xff => {
                uint(&m).ok_or("InteractionModelRevision is not an unsigned integer")?;
            }
            other => return Err(format!("unknown field {other} in ReportData")),
        }
    }
    Ok(l)
}

/// Oracle (1), "decodable by the public `ReportDataResp`": (attribute reports, event reports).
fn public_decode(b: &[u8]) -> Result<(usize, usize), String> {
    let el = TLVElement::new(b);
    let r = ReportDataResp::from_tlv(&el).map_err(|e| format!("ReportDataResp::from_tlv: {:?}", e.code()))?;
    let (mut na, mut ne) = (0, 0);
    if let Some(a) = &r.attr_reports {
        for x in a.iter() {
            x.map_err(|e| format!("attribute report {na}: {:?}", e.code()))?;
            na += 1;
        }
    }
    if let Some(a) = &r.event_reports {
        for x in a.iter() {
            x.map_err(|e| format!("event report {ne}: {:?}", e.code()))?;
            ne += 1;
        }
    }
    Ok((na, ne))
}

// ---------------------------------------------------------------------------------------------
// Size model (minimal-width TLV, written from the Matter message layouts) and values
// ---------------------------------------------------------------------------------------------

fn pat(ep: u16, cl: u32, at: u32, item: u32, gen: u32, len: usize) -> Vec<u8> {
    let mut x = ((ep as u64) << 48) ^ ((cl as u64) << 20) ^ ((at as u64) << 9) ^ ((item as u64) << 3) ^ gen as u64 ^ 0xC14C_14C1_4C14_C14C;
    (0..len)
        .map(|_| {
            x ^= x << 13;
            x ^= x >> 7;
            x ^= x << 17;
            (x >> 21) as u8
        })
        .collect()
}

fn make_value(k: Key, kind: &AttrKind, gen: u32) -> Value {
    match kind {
        AttrKind::Scalar(n) => Value::Scalar(pat(k.0, k.1, k.2, 0, gen, *n as usize)),
        AttrKind::List(sizes) => Value::List(sizes.iter().enumerate().map(|(i, n)| pat(k.0, k.1, k.2, i as u32 + 1, gen, *n as usize)).collect()),
    }
}

fn enc_path(e: &mut Enc, k: Key, null_index: bool) {
    e.start_list(Tag::Ctx(1)).uint(Tag::Ctx(2), k.0 as u64).uint(Tag::Ctx(3), k.1 as u64).uint(Tag::Ctx(4), k.2 as u64);
    if null_index {
        e.null(Tag::Ctx(5));
    }
    e.end();
}

/// Size of an AttributeReportIB { AttributeDataIB { DataVersion, Path, Data } }.
fn data_report_size(dataver: u32, k: Key, null_index: bool, data: &dyn Fn(&mut Enc)) -> usize {
    let mut e = Enc::new();
    e.start_struct(Tag::Anon).start_struct(Tag::Ctx(1)).uint(Tag::Ctx(0), dataver as u64);
    enc_path(&mut e, k, null_index);
    data(&mut e);
    e.end().end();
    e.buf.len()
}

fn scalar_report_size(dataver: u32, k: Key, n: usize) -> usize {
    data_report_size(dataver, k, false, &|e| {
        e.bytes(Tag::Ctx(2), &vec![0u8; n]);
    })
}

fn item_report_size(dataver: u32, k: Key, n: usize) -> usize {
    data_report_size(dataver, k, true, &|e| {
        e.bytes(Tag::Ctx(2), &vec![0u8; n]);
    })
}

fn list_report_size(dataver: u32, k: Key, sizes: &[usize]) -> usize {
    data_report_size(dataver, k, false, &|e| {
        e.start_array(Tag::Ctx(2));
        for n in sizes {
            e.bytes(Tag::Anon, &vec![0u8; *n]);
        }
        e.end();
    })
}

/// Size of an AttributeReportIB { AttributeStatusIB { Path, StatusIB { Status } } }.
fn status_report_size(p: &Path) -> usize {
    let mut e = Enc::new();
    e.start_struct(Tag::Anon).start_struct(Tag::Ctx(0)).start_list(Tag::Ctx(0));
    if let Some(x) = p.endpoint {
        e.uint(Tag::Ctx(2), x as u64);
    }
    if let Some(x) = p.cluster {
        e.uint(Tag::Ctx(3), x as u64);
    }
    if let Some(x) = p.leaf {
        e.uint(Tag::Ctx(4), x as u64);
    }
    e.end().start_struct(Tag::Ctx(1)).uint(Tag::Ctx(0), 0x86).end().end().end();
    e.buf.len()
}

/// Size of an EventReportIB { EventStatusIB { Path, StatusIB { Status } } }.
fn event_status_report_size(p: &Path) -> usize {
    let mut e = Enc::new();
    e.start_struct(Tag::Anon).start_struct(Tag::Ctx(0)).start_list(Tag::Ctx(0));
    if let Some(x) = p.endpoint {
        e.uint(Tag::Ctx(1), x as u64);
    }
    if let Some(x) = p.cluster {
        e.uint(Tag::Ctx(2), x as u64);
    }
    if let Some(x) = p.leaf {
        e.uint(Tag::Ctx(3), x as u64);
    }
    e.end().start_struct(Tag::Ctx(1)).uint(Tag::Ctx(0), 0x7f).end().end().end();
    e.buf.len()
}

fn event_payload(size: usize, ep: u16, ev: u32, n: usize) -> Vec<u8> {
    let mut e = Enc::new();
    e.start_struct(Tag::Anon).bytes(Tag::Ctx(0), &pat(ep, 0xE, ev, n as u32, 7, size)).end();
    e.buf
}

/// Size of an EventReportIB { EventDataIB { Path, EventNumber, Priority, SystemTimestamp, Data } }.
fn event_report_size(d: &EmitDef, number: u64) -> usize {
    let mut e = Enc::new();
    e.start_struct(Tag::Anon).start_struct(Tag::Ctx(1));
    e.start_list(Tag::Ctx(0)).uint(Tag::Ctx(1), d.ep as u64).uint(Tag::Ctx(2), d.cl as u64).uint(Tag::Ctx(3), d.ev as u64).end();
    e.uint(Tag::Ctx(1), number).uint(Tag::Ctx(2), d.prio.min(2) as u64);
    // milliseconds since boot: the virtual clock starts at 1000 s, i.e. a 4-octet value
    e.uint(Tag::Ctx(4), 1_000_000);
    e.start_struct(Tag::Ctx(7)).bytes(Tag::Ctx(0), &vec![0u8; d.size as usize]).end();
    e.end().end();
    e.buf.len()
}

/// Largest octet-string value whose report fits an empty chunk of a subscription report (the
/// smallest chunk): Matter's own bound on attribute values.
fn max_scalar() -> usize {
    // prefix: struct (1) + SubscriptionId (2+4 at most) + array start (2); report overhead <= 34
    boundary() - 9 - 34
}

// ---------------------------------------------------------------------------------------------
// Reference expansion (from the property statement: one shot, no chunking)
// ---------------------------------------------------------------------------------------------

#[derive(Debug, Clone)]
enum UnitKind {
    Status,
    Scalar(Key),
    List(Key),
    Event(usize),
}

/// One report of the reference answer with its predicted encoded sizes (for the packing
/// simulation only).
#[derive(Debug, Clone)]
struct Unit {
    kind: UnitKind,
    whole: usize,
    /// lists: size of the report carrying the empty list / each element
    empty: usize,
    items: Vec<usize>,
    /// lists: room needed to find out that the list has ended (the engine asks the handler for
    /// the element after the last one; the handler writes the report preamble before it refuses)
    probe: usize,
}

#[derive(Debug, Clone, Default)]
struct AttrExpect {
    units: Vec<Unit>,
    /// per attribute: (at least, at most) that many data reports
    counts: BTreeMap<Key, (usize, usize)>,
    /// concrete paths that do not exist: that many status reports
    statuses: BTreeMap<Path, usize>,
    /// sub-check `oversize`: how often an oversize attribute is selected (at most that many statuses)
    over_max: BTreeMap<Key, usize>,
}

#[derive(Clone)]
struct State {
    node: Vec<EpDef>,
    values: BTreeMap<Key, Value>,
    datavers: BTreeMap<(u16, u32), u32>,
}

impl State {
    fn new(node: &[EpDef]) -> Self {
        let mut values = BTreeMap::new();
        let mut datavers = BTreeMap::new();
        for e in node {
            for c in &e.clusters {
                datavers.insert((e.id, c.id), c.dataver);
                for a in &c.attrs {
                    values.insert((e.id, c.id, a.id), make_value((e.id, c.id, a.id), &a.kind, 0));
                }
            }
        }
        Self { node: node.to_vec(), values, datavers }
    }

    fn keys(&self) -> Vec<Key> {
        let mut v = Vec::new();
        for e in &self.node {
            for c in &e.clusters {
                for a in &c.attrs {
                    v.push((e.id, c.id, a.id));
                }
            }
        }
        v
    }

    fn unit(&self, k: Key, dv_plus: u32) -> Unit {
        let dv = self.datavers.get(&(k.0, k.1)).copied().unwrap_or(0).wrapping_add(dv_plus);
        match &self.values[&k] {
            Value::Scalar(b) => Unit { kind: UnitKind::Scalar(k), whole: scalar_report_size(dv, k, b.len()), empty: 0, items: vec![], probe: 0 },
            Value::List(items) => {
                let sizes: Vec<usize> = items.iter().map(|i| i.len()).collect();
                Unit {
                    kind: UnitKind::List(k),
                    whole: list_report_size(dv, k, &sizes),
                    empty: list_report_size(dv, k, &[]),
                    items: sizes.iter().map(|n| item_report_size(dv, k, *n)).collect(),
                    probe: item_report_size(dv, k, 0) - 5,
                }
            }
        }
    }
}

/// `changed`: `None` = read / priming (everything selected is reported, data-version filters
/// apply); `Some(set)` = a later report (only changed attributes must be reported, the others
/// may be; data-version filters do not apply). `dv_plus`: predicted data version bump (sizes).
fn expect_attrs(st: &State, paths: &[Path], dv_filters: &[(u16, u32, u32)], changed: Option<&BTreeSet<Key>>, dv_plus: u32) -> AttrExpect {
    let mut x = AttrExpect::default();
    for p in paths {
        let mut hit = false;
        for k in st.keys() {
            if !p.matches(k.0, k.1, k.2) {
                continue;
            }
            hit = true;
            let filtered = changed.is_none() && dv_filters.iter().any(|(e, c, v)| *e == k.0 && *c == k.1 && Some(v) == st.datavers.get(&(k.0, k.1)));
            let required = match changed {
                None => !filtered,
                Some(set) => set.contains(&k),
            };
            let c = x.counts.entry(k).or_insert((0, 0));
            c.1 += 1;
            if required {
                c.0 += 1;
                x.units.push(st.unit(k, dv_plus));
            }
        }
        if !hit && !p.is_wildcard() && changed.is_none() {
            *x.statuses.entry(*p).or_insert(0) += 1;
            x.units.push(Unit { kind: UnitKind::Status, whole: status_report_size(p), empty: 0, items: vec![], probe: 0 });
        }
    }
    x
}

#[derive(Debug, Clone, Default)]
struct EventExpect {
    /// event number -> (path, payload, priority)
    by_number: BTreeMap<u64, (Path, Val, u8)>,
    /// concrete event paths whose endpoint / cluster does not exist: a status each
    statuses: BTreeMap<Path, usize>,
    /// concrete event paths whose event id does not exist on an existing cluster (either way)
    optional_statuses: BTreeSet<Path>,
    units: Vec<Unit>,
    /// sub-check `oversize`: events that need not be reported
    optional: BTreeSet<u64>,
}

/// `emits`: (definition, assigned number, index for the payload pattern). `stored`: the numbers
/// of the events the device holds when the request is made (`None` = assume all of them).
fn expect_events(node: &[EpDef], paths: &[Path], event_min: Option<u64>, emits: &[(EmitDef, u64, usize)], stored: Option<&BTreeSet<u64>>) -> EventExpect {
    let mut x = EventExpect::default();
    let mut usable: Vec<Path> = Vec::new();
    for p in paths {
        if p.is_wildcard() {
            usable.push(*p);
            continue;
        }
        let cl = node.iter().find(|e| Some(e.id) == p.endpoint).and_then(|e| e.clusters.iter().find(|c| Some(c.id) == p.cluster));
        match cl {
            None => {
                *x.statuses.entry(*p).or_insert(0) += 1;
                x.units.push(Unit { kind: UnitKind::Status, whole: event_status_report_size(p), empty: 0, items: vec![], probe: 0 });
            }
            Some(c) if !c.events.iter().any(|e| Some(*e) == p.leaf) => {
                x.optional_statuses.insert(*p);
            }
            Some(_) => usable.push(*p),
        }
    }
    for (d, number, idx) in emits {
        if event_min.is_some_and(|m| *number < m) {
            continue;
        }
        if stored.is_some_and(|s| !s.contains(number)) {
            continue;
        }
        if !usable.iter().any(|p| p.matches(d.ep, d.cl, d.ev)) {
            continue;
        }
        let payload = tlv::parse(&event_payload(d.size as usize, d.ep, d.ev, *idx)).map(|(_, v)| v).unwrap_or(Val::Null);
        x.by_number.insert(*number, (Path::concrete(d.ep, d.cl, d.ev), payload, d.prio.min(2)));
        x.units.push(Unit { kind: UnitKind::Event(*idx), whole: event_report_size(d, *number), empty: 0, items: vec![], probe: 0 });
    }
    x
}

// ---------------------------------------------------------------------------------------------
// Greedy packing simulation (aims the generator, names the known finding; NOT an oracle)
// ---------------------------------------------------------------------------------------------

#[derive(Debug, Clone, Copy, PartialEq, Eq)]
enum Abandon {
    /// the attribute reports end exactly at the boundary: no room to close their array
    AttrsExactFill,
    /// 1 or 2 octets are left after the attribute reports: no room to open the event array
    NoRoomForEventArray(usize),
    /// the event reports end exactly at the boundary
    EventsExactFill,
    /// a single report does not fit an empty chunk (generator bound violated)
    Oversize,
}

#[derive(Debug, Clone, Copy)]
struct Placed {
    unit: usize,
    /// list units: `None` = whole list or the empty-list report, `Some(i)` = element i
    item: Option<usize>,
    itemwise: bool,
    events: bool,
    chunk: usize,
    /// offset in the message where the report starts / its size
    at: usize,
    size: usize,
}

#[derive(Debug, Clone, Default)]
struct Sim {
    placed: Vec<Placed>,
    /// offset where the reports end, per chunk
    ends: Vec<usize>,
    abandon: Option<Abandon>,
}

fn simulate(attrs: Option<&[Unit]>, events: Option<&[Unit]>, subscription: bool) -> Sim {
    let limit = boundary();
    let prefix = 1 + if subscription { 3 } else { 0 };
    let mut sim = Sim::default();
    let mut chunk = 0usize;
    let mut tail = prefix;
    let place = |sim: &mut Sim, tail: &mut usize, chunk: &mut usize, unit: usize, item: Option<usize>, itemwise: bool, events: bool, size: usize| -> bool {
        if *tail + size > limit {
            // flush
            sim.ends.push(*tail);
            *chunk += 1;
            *tail = prefix + 2;
            if *tail + size > limit {
                sim.abandon = Some(Abandon::Oversize);
                return false;
            }
        }
        sim.placed.push(Placed { unit, item, itemwise, events, chunk: *chunk, at: *tail, size });
        *tail += size;
        true
    };
    if let Some(units) = attrs {
        tail += 2;
        for (ui, u) in units.iter().enumerate() {
            match u.kind {
                UnitKind::List(_) if tail + u.whole > limit => {
                    if !place(&mut sim, &mut tail, &mut chunk, ui, None, true, false, u.empty) {
                        return sim;
                    }
                    for (ii, s) in u.items.iter().enumerate() {
                        if !place(&mut sim, &mut tail, &mut chunk, ui, Some(ii), true, false, *s) {
                            return sim;
                        }
                    }
                    if tail + u.probe > limit {
                        // no room to probe for the end of the list: a chunk is flushed first
                        sim.ends.push(tail);
                        chunk += 1;
                        tail = prefix + 2;
                    }
                }
                _ => {
                    if !place(&mut sim, &mut tail, &mut chunk, ui, None, false, false, u.whole) {
                        return sim;
                    }
                }
            }
        }
        if tail + 1 > limit {
            sim.abandon = Some(Abandon::AttrsExactFill);
            return sim;
        }
        tail += 1;
    }
    if let Some(units) = events {
        if tail + 2 > limit {
            sim.abandon = Some(Abandon::NoRoomForEventArray(limit - tail + 1));
            return sim;
        }
        tail += 2;
        for (ui, u) in units.iter().enumerate() {
            if !place(&mut sim, &mut tail, &mut chunk, ui, None, false, true, u.whole) {
                return sim;
            }
        }
        if tail + 1 > limit {
            sim.abandon = Some(Abandon::EventsExactFill);
            return sim;
        }
    }
    let end = sim.placed.last().filter(|p| p.chunk == chunk).map(|p| p.at + p.size).unwrap_or(tail);
    sim.ends.push(end);
    sim
}

// ---------------------------------------------------------------------------------------------
// Materialising a case: values, pivot aiming, later changes
// ---------------------------------------------------------------------------------------------

#[derive(Clone)]
struct LaterWorld {
    /// values to store before the change notifications
    set: Vec<(Key, Value)>,
    /// attributes marked changed one by one
    notify: Vec<Key>,
    all: bool,
    changed: BTreeSet<Key>,
    emits: Vec<EmitDef>,
    /// the state after the changes; its `node` lacks the hidden endpoint
    st: State,
    hidden: Option<u16>,
}

struct World {
    st: State,
    emits: Vec<EmitDef>,
    later: Option<LaterWorld>,
    /// human-readable account of the aiming
    notes: Vec<String>,
    over_main: OverInfo,
    over_later: OverInfo,
    /// the data-version filters of the request: the case's own plus the resolved "future" ones
    dv_filters: Vec<(u16, u32, u32)>,
    /// clusters whose filter names the version predicted for the time of the later report
    future_exact: BTreeSet<(u16, u32)>,
}

#[derive(Debug, Clone, Copy, PartialEq, Eq)]
enum Cand {
    Scalar(Key),
    Item(Key, usize),
    Event(usize),
}

fn numbered(emits: &[EmitDef], first: u64, idx0: usize) -> Vec<(EmitDef, u64, usize)> {
    emits.iter().enumerate().map(|(i, d)| (d.clone(), first + i as u64, idx0 + i)).collect()
}

/// Resize the pivot so that its report ends at `boundary() + delta`.
fn aim(case: &C14Case, st: &mut State, emits: &mut [EmitDef], pivot: Pivot, later: Option<(&BTreeSet<Key>, u64, usize)>, gen: u32, notes: &mut Vec<String>) {
    let subscription = case.kind != Kind::Read;
    let (changed, first_no, idx0) = match later {
        Some((c, n, i)) => (Some(c), n, i),
        None => (None, 1, 0),
    };
    let ax = case.attrs.as_ref().map(|p| expect_attrs(st, p, &case.dv_filters, changed, if later.is_some() { 1 } else { 0 }));
    let ex = case.events.as_ref().map(|p| expect_events(&st.node, p, case.event_min, &numbered(emits, first_no, idx0), None));
    let sim = simulate(ax.as_ref().map(|a| a.units.as_slice()), ex.as_ref().map(|e| e.units.as_slice()), subscription);
    let mut cands: Vec<(Cand, Placed)> = Vec::new();
    for p in &sim.placed {
        let c = if p.events {
            match ex.as_ref().map(|e| &e.units[p.unit].kind) {
                Some(UnitKind::Event(i)) => Cand::Event(*i - idx0),
                _ => continue,
            }
        } else {
            match (ax.as_ref().map(|a| &a.units[p.unit].kind), p.item) {
                (Some(UnitKind::Scalar(k)), _) => Cand::Scalar(*k),
                (Some(UnitKind::List(k)), Some(i)) => Cand::Item(*k, i),
                _ => continue,
            }
        };
        if !cands.iter().any(|(x, _)| *x == c) {
            cands.push((c, *p));
        }
    }
    if cands.is_empty() {
        notes.push("pivot: nothing resizable in the answer".into());
        return;
    }
    // the selected unit, or (if no value size of it can reach the target: a list element is at most
    // 200 octets) the next unit in answer order that can
    let subscription_prefix = 1 + if subscription { 3 } else { 0 } + 2;
    let dv_plus = if later.is_some() { 1 } else { 0 };
    let start = pick(pivot.sel, cands.len());
    let mut chosen: Option<(Cand, Placed, usize, i64, usize)> = None;
    for step in 0..cands.len() {
        let (c, p) = cands[(start + step) % cands.len()];
        let want = boundary() as i64 + pivot.delta as i64 - p.at as i64;
        let size_of = |v: usize| -> usize {
            match c {
                Cand::Scalar(k) => scalar_report_size(st.datavers[&(k.0, k.1)].wrapping_add(dv_plus), k, v),
                Cand::Item(k, _) => item_report_size(st.datavers[&(k.0, k.1)].wrapping_add(dv_plus), k, v),
                Cand::Event(i) => event_report_size(&EmitDef { size: v as u16, ..emits[i].clone() }, first_no + i as u64),
            }
        };
        // a single report must fit an empty chunk (Matter's bound on values)
        let (lo, hi) = match c {
            Cand::Item(..) => (1usize, 200usize),
            _ => (0, (0..=boundary()).take_while(|v| subscription_prefix + size_of(*v) <= boundary()).last().unwrap_or(0)),
        };
        let mut best = lo;
        let mut best_d = i64::MAX;
        for v in lo..=hi {
            let d = (size_of(v) as i64 - want).abs();
            if d < best_d {
                best_d = d;
                best = v;
            }
        }
        let found = (c, p, best, best_d, size_of(best));
        if best_d == 0 {
            chosen = Some(found);
            break;
        }
        if chosen.is_none() {
            chosen = Some(found);
        }
        if step >= 64 {
            break;
        }
    }
    let Some((c, p, best, best_d, best_size)) = chosen else { return };
    notes.push(format!("pivot {c:?}: report starts at offset {} of chunk {}, boundary {}, delta {} -> value of {best} octets (report of {best_size} octets, off target by {best_d})", p.at, p.chunk, boundary(), pivot.delta));
    match c {
        Cand::Scalar(k) => {
            st.values.insert(k, Value::Scalar(pat(k.0, k.1, k.2, 0, gen, best)));
        }
        Cand::Item(k, i) => {
            if let Some(Value::List(items)) = st.values.get_mut(&k) {
                if let Some(slot) = items.get_mut(i) {
                    *slot = pat(k.0, k.1, k.2, i as u32 + 1, gen, best);
                }
            }
        }
        Cand::Event(i) => emits[i].size = best as u16,
    }
}

fn materialize(case: &C14Case) -> World {
    let mut notes = Vec::new();
    let mut st = State::new(&case.node);
    let mut emits = case.emits.clone();
    if let Some(p) = case.pivot {
        aim(case, &mut st, &mut emits, p, None, 0, &mut notes);
    }
    let later = match (&case.later, case.kind) {
        (Some(l), Kind::Report) => {
            let mut st2 = st.clone();
            let keys = st2.keys();
            let mut notify = Vec::new();
            for (sel, kind) in &l.changes {
                if keys.is_empty() {
                    break;
                }
                let k = keys[pick(*sel, keys.len())];
                if let Some(kind) = kind {
                    // an attribute stays a scalar / a list (its metadata does not change)
                    let is_list = matches!(st2.values.get(&k), Some(Value::List(_)));
                    let kind = match (kind, is_list) {
                        (AttrKind::List(sizes), false) => AttrKind::Scalar(sizes.iter().map(|s| *s as u16).sum::<u16>().min(max_scalar() as u16)),
                        (AttrKind::Scalar(n), true) => AttrKind::List(vec![(*n % 200) as u8 + 1; (*n / 40) as usize]),
                        (k, _) => k.clone(),
                    };
                    st2.values.insert(k, make_value(k, &kind, 1));
                }
                if !notify.contains(&k) {
                    notify.push(k);
                }
            }
            let changed: BTreeSet<Key> = if l.all { keys.iter().copied().collect() } else { notify.iter().copied().collect() };
            let mut emits2 = l.emits.clone();
            let hidden = l.hide.filter(|_| st2.node.len() >= 2).map(|sel| st2.node[pick(sel, st2.node.len())].id).filter(|ep| !case.attrs.as_ref().is_some_and(|ps| ps.iter().any(|p| !p.is_wildcard() && p.endpoint == Some(*ep))));
            if let Some(ep) = hidden {
                st2.node.retain(|e| e.id != ep);
                emits2.retain(|e| e.ep != ep);
                notes.push(format!("endpoint {ep} disappears with the later changes"));
            }
            if let Some(p) = l.pivot {
                aim(case, &mut st2, &mut emits2, p, Some((&changed, emits.len() as u64 + 1, emits.len())), 1, &mut notes);
            }
            let set: Vec<(Key, Value)> = st2.values.iter().filter(|(k, v)| st.values.get(*k) != Some(*v)).map(|(k, v)| (*k, v.clone())).collect();
            Some(LaterWorld { set, notify, all: l.all, changed, emits: emits2, st: st2, hidden })
        }
        _ => None,
    };
    let mut w = World { st, emits, later, notes, over_main: OverInfo::default(), over_later: OverInfo::default(), dv_filters: case.dv_filters.clone(), future_exact: BTreeSet::new() };
    apply_over(case, &mut w);
    resolve_future_filters(case, &mut w);
    w
}

/// How often the data version of each cluster instance is bumped by the later changes: once per
/// `notify_attr_changed` of one of its attributes, once more by `notify_all_changed` (this is how
/// `InteractionModel::notify_*` drive `Handler::bump_dataver`; all notifications of a case are
/// executed before the reporter runs).
fn later_bumps(l: &LaterWorld) -> BTreeMap<(u16, u32), u32> {
    let mut m: BTreeMap<(u16, u32), u32> = l.st.datavers.keys().map(|k| (*k, u32::from(l.all))).collect();
    for k in &l.notify {
        *m.entry((k.0, k.1)).or_insert(0) += 1;
    }
    m
}

fn resolve_future_filters(case: &C14Case, w: &mut World) {
    let (Some(lc), Some(l)) = (case.later.as_ref(), w.later.as_ref()) else { return };
    if case.kind != Kind::Report || lc.future_filters.is_empty() {
        return;
    }
    let bumps = later_bumps(l);
    let touched: Vec<(u16, u32)> = bumps.iter().filter(|(_, n)| **n > 0).map(|(k, _)| *k).collect();
    let all: Vec<(u16, u32)> = bumps.keys().copied().collect();
    let cands = if touched.is_empty() { &all } else { &touched };
    if cands.is_empty() {
        return;
    }
    for (sel, off) in &lc.future_filters {
        let (ep, cl) = cands[pick(*sel, cands.len())];
        let v = w.st.datavers[&(ep, cl)].wrapping_add(bumps[&(ep, cl)]).wrapping_add(*off as i32 as u32);
        // one filter per cluster instance
        w.dv_filters.retain(|(e, c, _)| !(*e == ep && *c == cl));
        w.future_exact.remove(&(ep, cl));
        w.dv_filters.push((ep, cl, v));
        if *off == 0 && bumps[&(ep, cl)] > 0 {
            w.future_exact.insert((ep, cl));
        }
        w.notes.push(format!("future data-version filter ({ep}, {cl:#x}, {v}): the cluster is bumped {} time(s) by the later changes (offset {off})", bumps[&(ep, cl)]));
    }
}

/// Sub-check `oversize`: make the selected values larger than what fits an empty chunk of a read
/// answer (the roomiest kind of chunk), by the given number of octets.
fn apply_over(case: &C14Case, w: &mut World) {
    let Some(o) = &case.over else { return };
    apply_over_inner(case, o, w);
    // what is oversize from the start stays oversize (and is reported as such) after the later changes
    let World { st, later, over_main, over_later, .. } = w;
    if let (Some(l), false) = (later.as_mut(), over_main.is_empty()) {
        for k in over_main.scalars.iter().chain(over_main.elems.keys()) {
            l.st.values.insert(*k, st.values[k].clone());
        }
        over_later.scalars.extend(over_main.scalars.iter().copied());
        over_later.elems.extend(over_main.elems.iter().map(|(k, v)| (*k, *v)));
        l.set = l.st.values.iter().filter(|(k, v)| st.values.get(*k) != Some(*v)).map(|(k, v)| (*k, v.clone())).collect();
    }
}

fn apply_over_inner(case: &C14Case, o: &Over, w: &mut World) {
    let World { st, emits, later, notes, over_main, over_later, .. } = w;
    let base_values = st.values.clone();
    let in_later = o.later && case.kind == Kind::Report && later.is_some();
    let (st, emits, info, idx0, first_no, gen, dv_plus): (&mut State, &mut Vec<EmitDef>, &mut OverInfo, usize, u64, u32, u32) = match later.as_mut() {
        Some(l) if in_later => {
            let n = emits.len();
            (&mut l.st, &mut l.emits, over_later, n, n as u64 + 1, 1, 1)
        }
        _ => (st, emits, over_main, 0, 1, 0, 0),
    };
    let selected: Vec<Key> = st.keys().into_iter().filter(|k| case.attrs.as_ref().is_some_and(|ps| ps.iter().any(|p| p.matches(k.0, k.1, k.2)))).collect();
    let scalars: Vec<Key> = selected.iter().copied().filter(|k| matches!(st.values.get(k), Some(Value::Scalar(_)))).collect();
    let lists: Vec<Key> = selected.iter().copied().filter(|k| matches!(st.values.get(k), Some(Value::List(_)))).collect();
    let evs: Vec<usize> = (0..emits.len()).filter(|i| case.events.as_ref().is_some_and(|ps| ps.iter().any(|p| p.matches(emits[*i].ep, emits[*i].cl, emits[*i].ev)))).collect();
    let fits = |size: usize| 3 + size <= boundary();
    let mut kind = o.kind;
    if (kind == OverKind::Element && lists.is_empty()) || (kind == OverKind::Event && evs.is_empty()) {
        if std::env::var("C14_OVER_KIND").is_ok() {
            // debugging aid (one kind forced): no fall-back, nothing is oversize in this case
            return;
        }
        kind = OverKind::Scalar;
    }
    match kind {
        OverKind::Scalar => {
            for (sel, extra) in &o.items {
                if scalars.is_empty() {
                    break;
                }
                let k = scalars[pick(*sel, scalars.len())];
                let dv = st.datavers[&(k.0, k.1)].wrapping_add(dv_plus);
                let fit = (0..=boundary()).take_while(|v| fits(scalar_report_size(dv, k, *v))).last().unwrap_or(0);
                let n = fit + (*extra).max(1) as usize;
                st.values.insert(k, Value::Scalar(pat(k.0, k.1, k.2, 0, gen, n)));
                info.scalars.insert(k);
                notes.push(format!("oversize scalar {k:?}: {n} octets (the largest that fits an empty chunk is {fit})"));
            }
        }
        OverKind::Element => {
            if let Some((sel, extra)) = o.items.first() {
                let k = lists[pick(*sel, lists.len())];
                let dv = st.datavers[&(k.0, k.1)].wrapping_add(dv_plus);
                let fit = (0..=boundary()).take_while(|v| fits(item_report_size(dv, k, *v))).last().unwrap_or(0);
                let n = fit + (*extra).max(1) as usize;
                if let Some(Value::List(items)) = st.values.get_mut(&k) {
                    if items.is_empty() {
                        items.push(vec![]);
                    }
                    let idx = pick(sel.rotate_left(5), items.len());
                    items[idx] = pat(k.0, k.1, k.2, idx as u32 + 1, gen, n);
                    info.elems.insert(k, idx);
                    notes.push(format!("oversize element {idx} of list {k:?} ({} elements): {n} octets (the largest that fits an empty chunk is {fit})", items.len()));
                }
            }
        }
        OverKind::Event => {
            if let Some((sel, extra)) = o.items.first() {
                let i = evs[pick(*sel, evs.len())];
                let number = first_no + i as u64;
                let fit = (0..=boundary()).take_while(|v| fits(event_report_size(&EmitDef { size: *v as u16, ..emits[i].clone() }, number))).last().unwrap_or(0);
                // the event must still fit the event ring of the device
                let n = (fit + (*extra).max(1) as usize).min(RIG_EVENTS_BUF - 80);
                emits[i].size = n as u16;
                info.events.insert(idx0 + i);
                info.event_paths.insert(Path::concrete(emits[i].ep, emits[i].cl, emits[i].ev));
                notes.push(format!("oversize event {i}: payload of {n} octets (the largest that fits an empty chunk is {fit})"));
            }
        }
    }
    if in_later {
        if let Some(l) = later.as_mut() {
            for k in info.scalars.iter().chain(info.elems.keys()) {
                if !l.notify.contains(k) {
                    l.notify.push(*k);
                }
                l.changed.insert(*k);
            }
            l.set = l.st.values.iter().filter(|(k, v)| base_values.get(*k) != Some(*v)).map(|(k, v)| (*k, v.clone())).collect();
        }
    }
}

/// Remove the oversize items from the expectations: the units of the packing simulation cover the
/// OTHER content only, an oversize scalar must not be reported as data, an oversize event not at
/// all. Returns the oversize attributes that must be answered somehow (those that are selected
/// and not hidden by a matching data-version filter).
fn adjust_for_over(ax: &mut Option<AttrExpect>, ex: &mut Option<EventExpect>, info: &OverInfo, over_numbers: &BTreeSet<u64>) -> BTreeSet<Key> {
    let mut required = BTreeSet::new();
    if let Some(a) = ax.as_mut() {
        a.units.retain(|u| !matches!(&u.kind, UnitKind::Scalar(k) if info.scalars.contains(k)));
        for u in a.units.iter_mut() {
            if let UnitKind::List(k) = &u.kind {
                if let Some(idx) = info.elems.get(k) {
                    u.items.truncate(*idx);
                    u.whole = 1 << 30;
                }
            }
        }
        for k in info.scalars.iter().chain(info.elems.keys()) {
            if let Some(c) = a.counts.get_mut(k) {
                a.over_max.insert(*k, c.1);
                if c.0 > 0 {
                    required.insert(*k);
                }
                // should the device manage to deliver the value after all, that is fine too
                c.0 = 0;
            }
        }
    }
    if let Some(e) = ex.as_mut() {
        e.optional = over_numbers.clone();
        e.units.retain(|u| !matches!(&u.kind, UnitKind::Event(i) if info.events.contains(i)));
    }
    required
}

fn node_spec(node: &[EpDef]) -> NodeSpec {
    NodeSpec {
        endpoints: node
            .iter()
            .map(|e| EndpointSpec {
                id: e.id,
                device_types: vec![],
                clusters: e
                    .clusters
                    .iter()
                    .map(|c| ClusterSpec {
                        id: c.id,
                        dataver: c.dataver,
                        attributes: c.attrs.iter().map(|a| AttrSpec { id: a.id, access: ACCESS_RV, is_list: matches!(a.kind, AttrKind::List(_)), size: 0, items: 0 }).collect(),
                        commands: vec![],
                        events: c.events.iter().map(|e| EventSpec { id: *e, access: ACCESS_RV }).collect(),
                    })
                    .collect(),
            })
            .collect(),
    }
}

fn read_req(case: &C14Case, w: &World) -> ReadReq {
    ReadReq { attrs: case.attrs.clone(), events: case.events.clone(), fabric_filtered: case.fabric_filtered, dataver_filters: w.dv_filters.clone(), event_min: case.event_min }
}

// ---------------------------------------------------------------------------------------------
// Running one case
// ---------------------------------------------------------------------------------------------

struct Obs {
    main: ReadOutcome,
    reports: Vec<ReadOutcome>,
    /// event numbers the device stored when the request / after the later changes were made
    stored_main: BTreeSet<u64>,
    stored_later: BTreeSet<u64>,
    /// data version of every cluster instance after the later changes were notified
    datavers_later: BTreeMap<(u16, u32), u32>,
    emitted: Vec<Result<u64, String>>,
    /// (largest datagram the device sent, number of datagrams of the device)
    max_datagram: usize,
    abandoned: Option<String>,
}

thread_local! {
    /// last "exchange abandoned" error of the device's responder in this thread (= case)
    static ABANDONED: RefCell<Option<String>> = const { RefCell::new(None) };
}

fn note_device_error(msg: &str) {
    ABANDONED.with(|a| {
        let mut a = a.borrow_mut();
        match a.as_mut() {
            None => *a = Some(msg.to_string()),
            Some(s) if s.len() < 400 => {
                s.push_str(" | ");
                s.push_str(msg);
            }
            _ => {}
        }
    });
}

fn run_case(case: &C14Case, w: &World) -> Result<Obs, Case> {
    vh::sim::reset_universe();
    ABANDONED.with(|a| *a.borrow_mut() = None);
    set_chunk_cap(chunk_cap(case, w));
    let spec = node_spec(&case.node);
    let node = SynthNode::new(&spec);
    for (k, v) in &w.st.values {
        node.set_value(k.0, k.1, k.2, v.clone());
    }
    let rig = ImRig::new(case.seed);
    let who = match case.who {
        Who::Pase => Requester::Pase { fab_idx: 0 },
        Who::Case => {
            let r: Result<(), rs_matter::error::Error> = rig.dev.with_state(|state| {
                state.fabrics.reset();
                let idx = state.fabrics.add_with_post_init(|_| Ok(()))?.fab_idx();
                let fabric = state.fabrics.fabric_mut(idx)?;
                let mut e = AclEntry::new(None, Privilege::ADMIN, AuthMode::Case);
                e.add_subject(CTRL_NODE_ID)?;
                fabric.acl_add(e)?;
                if idx != NonZeroU8::MIN {
                    return Err(rs_matter::error::ErrorCode::Invalid.into());
                }
                Ok(())
            });
            if let Err(e) = r {
                return Err(Case::inconclusive(format!("fabric install: {:?}", e.code())));
            }
            Requester::Case { fab_idx: 1, node_id: CTRL_NODE_ID, cats: [0; 3] }
        }
    };
    let sid = match rig.plant(&who) {
        Ok(s) => s,
        Err(e) => return Err(Case::inconclusive(format!("plant: {:?}", e.code()))),
    };
    for (n, e) in w.emits.iter().enumerate() {
        rig.emit_event(e.ep, e.cl, e.ev, e.prio, event_payload(e.size as usize, e.ep, e.ev, n));
    }
    let req = read_req(case, w);
    let result: RefCell<Option<(ReadOutcome, Vec<ReadOutcome>, BTreeSet<u64>, BTreeSet<u64>)>> = RefCell::new(None);
    let datavers_later: RefCell<BTreeMap<(u16, u32), u32>> = RefCell::new(BTreeMap::new());
    let sched = match case.sched {
        None => Sched::Fifo,
        Some(s) => Sched::Seeded(s),
    };
    let (stop, done) = rig.run(&node, sched, 2, 600, async {
        rig.flush().await;
        let mut nop = |_: usize, _: &ReadOutcome| {};
        let stored_main: BTreeSet<u64> = rig.stored_event_numbers().into_iter().collect();
        let mut stored_later = BTreeSet::new();
        let main = {
            let Ok(mut ex) = rig.exchange(sid) else { return };
            match case.kind {
                Kind::Read => read(&mut ex, &req, &mut nop).await,
                _ => subscribe(&mut ex, &SubscribeReq { read: req.clone(), keep_subscriptions: true, min_interval_s: 0, max_interval_s: 300 }, &mut nop).await,
            }
        };
        let mut reports = Vec::new();
        if let (Some(l), true) = (&w.later, main.error.is_none() && main.subscribed.is_some()) {
            for (k, v) in &l.set {
                node.set_value(k.0, k.1, k.2, v.clone());
            }
            for (n, e) in l.emits.iter().enumerate() {
                rig.emit_event(e.ep, e.cl, e.ev, e.prio, event_payload(e.size as usize, e.ep, e.ev, w.emits.len() + n));
            }
            if let Some(ep) = l.hidden {
                node.set_hidden(&[ep]);
            }
            if l.all {
                rig.notify_all_changed();
            }
            for k in &l.notify {
                rig.notify_attr_changed(k.0, k.1, k.2);
            }
            rig.flush().await;
            stored_later = rig.stored_event_numbers().into_iter().collect();
            *datavers_later.borrow_mut() = w.st.datavers.keys().filter_map(|k| node.dataver(k.0, k.1).map(|v| (*k, v))).collect();
            // the first report must come promptly (min interval 0); further ones are collected for
            // a while in case the device splits the changes over several reports
            for i in 0..4 {
                let wait = if i == 0 { 20 } else { 3 };
                match select(rig.accept(), Timer::after(Duration::from_secs(wait))).await {
                    Either::First(Ok(mut ex)) => reports.push(report(&mut ex, &mut nop).await),
                    Either::First(Err(e)) => {
                        reports.push(ReadOutcome { error: Some(format!("accept: {:?}", e.code())), ..Default::default() });
                        break;
                    }
                    Either::Second(_) => break,
                }
                if reports.last().is_some_and(|r| r.error.is_some()) {
                    break;
                }
            }
        }
        *result.borrow_mut() = Some((main, reports, stored_main, stored_later));
    });
    if stop == Stop::PollLimit {
        return Err(Case::inconclusive("poll watchdog"));
    }
    let Some((main, reports, stored_main, stored_later)) = result.into_inner() else {
        return Err(Case::inconclusive(format!("the controller did not finish (stop={stop:?}, done={done})")));
    };
    let max_datagram = rig.net.with_tap(|t| t.sent.iter().filter(|s| s.src == 0).map(|s| s.bytes.len()).max().unwrap_or(0));
    let emitted = rig.emitted.borrow().clone();
    Ok(Obs { main, reports, stored_main, stored_later, datavers_later: datavers_later.into_inner(), emitted, max_datagram, abandoned: ABANDONED.with(|a| a.borrow().clone()) })
}

// ---------------------------------------------------------------------------------------------
// Oracles
// ---------------------------------------------------------------------------------------------

type Fail = (String, String);

#[derive(Default)]
struct Stats {
    labels: BTreeSet<String>,
    chunks: usize,
    near_boundary: bool,
    list_split: bool,
    /// sub-check `oversize`: the device ended the interaction with a (non-success) StatusResponse
    terminated: bool,
}

impl Stats {
    fn label(&mut self, l: impl Into<String>) {
        self.labels.insert(l.into());
    }
}

fn brief(v: &Val) -> String {
    match v {
        Val::Bytes(b) => format!("octets[{}]", b.len()),
        Val::Array(a) => format!("list[{}]", a.len()),
        other => {
            let s = format!("{other:?}");
            if s.len() > 60 {
                format!("{}..", &s[..60])
            } else {
                s
            }
        }
    }
}

/// What one phase (read / priming / later reports) must deliver.
struct Phase<'a> {
    name: &'static str,
    subscription: bool,
    /// `Some(id)` = every message must carry this SubscriptionId
    expect_sub_id: Option<u64>,
    st: &'a State,
    ax: Option<AttrExpect>,
    ex: Option<EventExpect>,
    sim: Sim,
    /// sub-check `oversize`: what cannot be delivered in this phase, and which of it must be
    /// answered with a status (or by terminating the interaction)
    over: OverInfo,
    over_required: BTreeSet<Key>,
}

/// Oracles (1) and (3) on the messages of one answer; returns the layouts.
fn check_messages(ph: &Phase<'_>, out: &ReadOutcome, obs: &Obs, stats: &mut Stats) -> Result<Vec<Layout>, Fail> {
    let what = ph.name;
    // (1) every message on its own
    let mut layouts = Vec::new();
    for (i, raw) in out.raw.iter().enumerate() {
        let l = layout(raw).map_err(|e| (format!("wellformed:{what}:message-is-not-a-complete-structure"), format!("ReportData message {i} ({} octets): {e}; octets: {}", raw.len(), vh::util::hex(&raw[..raw.len().min(64)]))))?;
        let (na, ne) = public_decode(raw).map_err(|e| (format!("wellformed:{what}:not-decodable-by-ReportDataResp"), format!("ReportData message {i}: {e}")))?;
        if na != l.attr_items.len() || ne != l.event_items.len() {
            return Err((format!("wellformed:{what}:decoders-disagree"), format!("message {i}: ReportDataResp sees {na} attribute / {ne} event reports, the independent decoder {} / {}", l.attr_items.len(), l.event_items.len())));
        }
        if DEBUG.load(std::sync::atomic::Ordering::Relaxed) {
            eprintln!("[debug] {what} message {i} ({} octets): attr reports {:?} event reports {:?} more={} suppress={} reports end at {}", raw.len(), l.attr_items, l.event_items, l.more, l.suppress, l.reports_end);
            eprintln!("[debug]   octets after the last report: {}", vh::util::hex(&raw[l.reports_end.min(raw.len())..]));
        }
        layouts.push(l);
    }
    // flow
    if let Some(err) = &out.error {
        let after = out.chunks;
        if err.starts_with("answer does not end") {
            return Err((format!("flow:{what}:answer-does-not-end"), format!("{err}")));
        }
        if err.starts_with("undecodable") {
            // already covered by (1) above unless the tree decoder is stricter
            return Err((format!("wellformed:{what}:undecodable"), format!("{err} (message {after})")));
        }
        let nospace = obs.abandoned.as_deref().is_some_and(|a| a.contains("NoSpace"));
        let silent = err == "no answer" || err.starts_with("recv:") || err.starts_with("send:");
        let last_more = layouts.last().map(|l| l.more);
        // the known finding: the device gives up while closing a report array that ends exactly
        // at the boundary (predicted by the size model, confirmed by the device's own log)
        let predicted = ph.sim.abandon;
        let consistent = silent && nospace && ph.sim.ends.len() == after && last_more != Some(false);
        let detail = format!(
            "{what}: the device did not complete the answer: {err} after {after} ReportData message(s) (last MoreChunkedMessages: {last_more:?}); device-side error: {:?}; packing simulation: {:?}, report ends per chunk {:?}, boundary {}",
            obs.abandoned, predicted, ph.sim.ends, boundary()
        );
        return Err(match (consistent, predicted) {
            (true, Some(Abandon::AttrsExactFill)) => (SIG_KNOWN_EXACT_FILL.to_string(), detail),
            (true, Some(Abandon::EventsExactFill)) => (SIG_EVENTS_EXACT_FILL.to_string(), detail),
            (true, Some(Abandon::NoRoomForEventArray(_))) => (SIG_NO_ROOM_FOR_EVENTS.to_string(), detail),
            _ if last_more == Some(true) && silent => (format!("flow:{what}:more-chunks-announced-but-nothing-follows"), detail),
            _ => (format!("flow:{what}:no-answer"), detail),
        });
    }
    if let (Some(s), false) = (out.status, ph.over.is_empty()) {
        // a value that cannot be delivered at all: ending the interaction with an error status is
        // an acceptable outcome; what was delivered before is still checked
        if s == 0 {
            return Err((format!("oversize:{what}:success-status-instead-of-report"), format!("StatusResponse {s:#x} after {} ReportData message(s)", out.chunks)));
        }
        if let Some(i) = layouts.iter().position(|l| !l.more) {
            return Err((format!("flow:{what}:message-after-the-final-one"), format!("message {i} has no MoreChunkedMessages but a StatusResponse {s:#x} followed")));
        }
        stats.terminated = true;
        stats.label(format!("oversize:{what}:terminated-by-status"));
        stats.chunks = stats.chunks.max(layouts.len());
        return Ok(layouts);
    }
    if let Some(s) = out.status {
        return Err((format!("flow:{what}:status-response-instead-of-report"), format!("StatusResponse {s:#x} after {} ReportData message(s); device-side error: {:?}", out.chunks, obs.abandoned)));
    }
    if layouts.is_empty() {
        return Err((format!("flow:{what}:no-report"), "no ReportData message at all".into()));
    }
    // (3) flags
    let n = layouts.len();
    for (i, l) in layouts.iter().enumerate() {
        if i + 1 < n && !l.more {
            return Err((format!("flow:{what}:message-after-the-final-one"), format!("message {i} of {n} has no MoreChunkedMessages but further ReportData followed")));
        }
        if l.more && l.suppress {
            return Err((format!("flow:{what}:non-final-message-suppresses-response"), format!("message {i} of {n} has MoreChunkedMessages and SuppressResponse")));
        }
        if i + 1 == n && l.more {
            return Err((format!("flow:{what}:last-message-announces-more"), format!("message {i} is the last one but has MoreChunkedMessages")));
        }
        match (ph.subscription, l.sub_id, ph.expect_sub_id) {
            (false, Some(id), _) => return Err((format!("wellformed:{what}:subscription-id-in-read-answer"), format!("message {i} carries SubscriptionId {id}"))),
            (true, None, _) => return Err((format!("wellformed:{what}:subscription-id-missing"), format!("message {i} of a subscription report has no SubscriptionId"))),
            (true, Some(id), Some(want)) if id != want => return Err((format!("wellformed:{what}:wrong-subscription-id"), format!("message {i} carries SubscriptionId {id}, the subscription is {want}"))),
            _ => {}
        }
    }
    stats.chunks = stats.chunks.max(n);
    Ok(layouts)
}

/// Oracle (4).
fn check_attrs(ph: &Phase<'_>, out: &ReadOutcome, stats: &mut Stats) -> Result<(), Fail> {
    let what = ph.name;
    let empty = AttrExpect::default();
    let ax = ph.ax.as_ref().unwrap_or(&empty);
    for it in &out.attrs {
        if let Some(Some(i)) = it.list_index {
            return Err((format!("content:{what}:list-index-in-report"), format!("report for {:?} carries list index {i}", it.path)));
        }
    }
    // a list is "split" if its pieces arrive in more than one message
    let mut piece_chunks: BTreeMap<Path, BTreeSet<usize>> = BTreeMap::new();
    for it in &out.attrs {
        if it.list_index == Some(None) {
            piece_chunks.entry(it.path).or_default().insert(it.chunk);
        }
    }
    for it in &out.attrs {
        if it.list_index.is_none() {
            if let Some(s) = piece_chunks.get_mut(&it.path) {
                s.insert(it.chunk);
            }
        }
    }
    if piece_chunks.values().any(|s| s.len() > 1) {
        stats.list_split = true;
        stats.label("list-split-across-chunks");
    }
    if !piece_chunks.is_empty() {
        stats.label("list-sent-element-wise");
    }
    let folded = fold_lists(&out.attrs).map_err(|e| (format!("content:{what}:list-element-without-list"), e))?;
    let mut seen: BTreeMap<Key, usize> = BTreeMap::new();
    let mut seen_status: BTreeMap<Path, usize> = BTreeMap::new();
    let mut over_status: BTreeMap<Key, usize> = BTreeMap::new();
    let mut delivered: BTreeSet<Key> = BTreeSet::new();
    for (p, body) in &folded {
        match body {
            ReportBody::Data { value, .. } => {
                let key = match (p.endpoint, p.cluster, p.leaf) {
                    (Some(e), Some(c), Some(a)) => (e, c, a),
                    _ => return Err((format!("content:{what}:data-with-wildcard-path"), format!("{p:?}"))),
                };
                let Some(want) = ph.st.values.get(&key) else {
                    return Err((format!("content:{what}:data-for-nonexistent-attribute"), format!("{p:?} = {}", brief(value))));
                };
                if ph.over.scalars.contains(&key) || ph.over.elems.contains_key(&key) {
                    if Value::from_val(value).as_ref() == Some(want) {
                        // delivered after all (the chunk capacity is the device's business as long
                        // as the datagram limit holds): counts as answered
                        *over_status.entry(key).or_insert(0) += 0;
                        delivered.insert(key);
                        stats.label(format!("oversize:{what}:delivered-after-all"));
                    }
                }
                if let (Some(idx), Some(Value::List(got)), Value::List(want)) = (ph.over.elems.get(&key), Value::from_val(value), want) {
                    // the whole list, the list up to the oversize element, or the list without it
                    let mut without = want.clone();
                    without.remove(*idx);
                    if got != *want && got[..] != want[..*idx] && got != without {
                        return Err((format!("oversize:{what}:list-with-oversize-element-garbled"), format!("{p:?}: got {} elements {:?}, the original has {} with the oversize one at {idx}", got.len(), got.iter().map(|x| x.len()).collect::<Vec<_>>(), want.len())));
                    }
                    if !ax.counts.contains_key(&key) {
                        return Err((format!("content:{what}:data-not-selected"), format!("{p:?} is not selected by the request")));
                    }
                    *seen.entry(key).or_insert(0) += 1;
                    continue;
                }
                if !ax.counts.contains_key(&key) {
                    return Err((format!("content:{what}:data-not-selected"), format!("{p:?} = {} is not selected by the request", brief(value))));
                }
                match (Value::from_val(value), want) {
                    (Some(got), want) if got == *want => {}
                    (Some(Value::List(got)), Value::List(want)) => {
                        let first = got.iter().zip(want.iter()).position(|(a, b)| a != b).unwrap_or(got.len().min(want.len()));
                        return Err((
                            format!("content:{what}:reassembled-list-differs"),
                            format!("{p:?}: the re-assembled list has {} elements, the original {}; first difference at element {first} (got {:?} octets, original {:?} octets)", got.len(), want.len(), got.get(first).map(|x| x.len()), want.get(first).map(|x| x.len())),
                        ));
                    }
                    (got, want) => {
                        return Err((format!("content:{what}:wrong-value"), format!("{p:?}: got {}, original {}", got.map(|g| brief(&g.to_val())).unwrap_or_else(|| brief(value)), brief(&want.to_val()))));
                    }
                }
                *seen.entry(key).or_insert(0) += 1;
            }
            ReportBody::Status(s) => {
                if let (Some(e), Some(c), Some(a)) = (p.endpoint, p.cluster, p.leaf) {
                    if ph.over.scalars.contains(&(e, c, a)) || ph.over.elems.contains_key(&(e, c, a)) {
                        if *s == 0 {
                            return Err((format!("oversize:{what}:success-status-for-oversize-value"), format!("{p:?}")));
                        }
                        *over_status.entry((e, c, a)).or_insert(0) += 1;
                        stats.label(format!("oversize:{what}:status-{s:#x}-for-the-path"));
                        continue;
                    }
                }
                if !ax.statuses.contains_key(p) {
                    return Err((format!("content:{what}:unexpected-status"), format!("status {s:#x} for {p:?}")));
                }
                if !REFUSAL_FAMILY.contains(s) {
                    return Err((format!("content:{what}:wrong-status"), format!("status {s:#x} for the non-existent {p:?}")));
                }
                *seen_status.entry(*p).or_insert(0) += 1;
            }
        }
    }
    for (k, (min, max)) in &ax.counts {
        let n = seen.get(k).copied().unwrap_or(0);
        if n < *min && !stats.terminated {
            return Err((format!("content:{what}:attribute-missing"), format!("{k:?} ({}) is selected {min} time(s) but reported {n} time(s); {} chunk(s)", brief(&ph.st.values[k].to_val()), out.chunks)));
        }
        if n > *max {
            return Err((format!("content:{what}:attribute-duplicated"), format!("{k:?} ({}) is selected {max} time(s) but reported {n} time(s); {} chunk(s)", brief(&ph.st.values[k].to_val()), out.chunks)));
        }
    }
    if !stats.terminated {
        for k in &ph.over_required {
            if over_status.get(k).copied().unwrap_or(0) == 0 && !delivered.contains(k) {
                return Err((format!("oversize:{what}:oversize-value-silently-omitted"), format!("{k:?} ({}) cannot fit a message; the answer completed without a status for it", brief(&ph.st.values[k].to_val()))));
            }
        }
    }
    for (k, n) in &over_status {
        let max = ax.over_max.get(k).copied().unwrap_or(0);
        if *n > max {
            return Err((format!("oversize:{what}:status-duplicated"), format!("{k:?}: {n} status reports, selected {max} time(s)")));
        }
    }
    for (p, want) in &ax.statuses {
        let n = seen_status.get(p).copied().unwrap_or(0);
        if stats.terminated && n <= *want {
            continue;
        }
        if n != *want {
            return Err((format!("content:{what}:status-count"), format!("{p:?} does not exist and is requested {want} time(s) but {n} status report(s) arrived")));
        }
    }
    Ok(())
}

/// Oracle (5).
fn check_events(ph: &Phase<'_>, out: &ReadOutcome, stats: &mut Stats) -> Result<BTreeSet<u64>, Fail> {
    let what = ph.name;
    let empty = EventExpect::default();
    let ex = ph.ex.as_ref().unwrap_or(&empty);
    let mut last: Option<u64> = None;
    let mut got = BTreeSet::new();
    let mut seen_status: BTreeMap<Path, usize> = BTreeMap::new();
    let mut over_status = 0usize;
    for e in &out.events {
        match &e.body {
            EventBody::Data { number, priority, value } => {
                if let Some(l) = last {
                    if *number == l || got.contains(number) {
                        return Err((format!("events:{what}:event-duplicated"), format!("event number {number} is reported twice (second time in message {})", e.chunk)));
                    }
                    if *number < l {
                        return Err((format!("events:{what}:not-ascending"), format!("event number {number} follows {l} (message {})", e.chunk)));
                    }
                }
                if got.contains(number) {
                    return Err((format!("events:{what}:event-duplicated"), format!("event number {number} is reported twice")));
                }
                last = Some(*number);
                got.insert(*number);
                let Some((p, payload, prio)) = ex.by_number.get(number) else {
                    return Err((format!("events:{what}:event-not-selected"), format!("event number {number} ({:?}) is not selected by the request", e.path)));
                };
                if *p != e.path || payload != value || prio != priority {
                    return Err((format!("events:{what}:wrong-event-content"), format!("event number {number}: got {:?} priority {priority} {}, emitted {p:?} priority {prio} {}", e.path, brief(value), brief(payload))));
                }
            }
            EventBody::Status(s) if ph.over.event_paths.contains(&e.path) && !ex.statuses.contains_key(&e.path) => {
                // an event that cannot fit a message may be answered with an error status
                if *s == 0 {
                    return Err((format!("oversize:{what}:success-status-for-oversize-event"), format!("{:?}", e.path)));
                }
                over_status += 1;
                if over_status > ph.over.events.len() {
                    return Err((format!("oversize:{what}:event-status-duplicated"), format!("{over_status} status reports for {:?}", e.path)));
                }
                stats.label(format!("oversize:{what}:status-{s:#x}-for-the-event"));
            }
            EventBody::Status(s) => {
                if !(ex.statuses.contains_key(&e.path) || ex.optional_statuses.contains(&e.path)) {
                    return Err((format!("events:{what}:unexpected-status"), format!("status {s:#x} for {:?}", e.path)));
                }
                if !REFUSAL_FAMILY.contains(s) {
                    return Err((format!("events:{what}:wrong-status"), format!("status {s:#x} for {:?}", e.path)));
                }
                *seen_status.entry(e.path).or_insert(0) += 1;
            }
        }
    }
    if stats.terminated {
        return Ok(got);
    }
    for (p, want) in &ex.statuses {
        if seen_status.get(p).copied().unwrap_or(0) != *want {
            return Err((format!("events:{what}:status-count"), format!("{p:?} does not exist, requested {want} time(s), {} status report(s)", seen_status.get(p).copied().unwrap_or(0))));
        }
    }
    if stats.terminated {
        return Ok(got);
    }
    if let Some(n) = ex.by_number.keys().find(|n| !got.contains(n) && !ex.optional.contains(n)) {
        return Err((format!("events:{what}:event-missing"), format!("event number {n} {:?} is selected and stored but not reported; reported: {got:?}; {} chunk(s)", ex.by_number[n].0, out.chunks)));
    }
    if !ex.by_number.is_empty() {
        stats.label("events:reported");
    }
    Ok(got)
}

/// Non-trivial rule, from the observed octets: a report ends within 8 octets below the boundary,
/// or the first report of the next message would have ended within 8 octets above it.
fn boundary_stats(ph: &Phase<'_>, out: &ReadOutcome, layouts: &[Layout], stats: &mut Stats) {
    let b = boundary() as i64;
    let mut ends = Vec::new();
    for (i, l) in layouts.iter().enumerate() {
        let end = l.reports_end as i64;
        ends.push(l.reports_end);
        let room = b - end;
        if (0..=8).contains(&room) {
            stats.near_boundary = true;
            stats.label(format!("boundary:report-ends-{room}-below"));
        }
        if let Some(next) = layouts.get(i + 1) {
            let first = next.attr_items.first().or(next.event_items.first());
            if let Some((_, len)) = first {
                let over = end + *len as i64 - b;
                if (1..=8).contains(&over) {
                    stats.near_boundary = true;
                    stats.label(format!("boundary:next-report-would-end-{over}-above"));
                }
                if next.attr_items.is_empty() && out.events.iter().find(|e| e.chunk == i + 1).is_some_and(|e| matches!(e.body, EventBody::Status(_))) && end + 3 + *len as i64 > b {
                    // an event status did not fit behind the reports of this message
                    stats.label("boundary:event-status-moved-to-next-message");
                }
                if over <= 0 {
                    // the next report would have fitted below the boundary: either room was needed
                    // for closing / opening arrays or the device packs differently
                    stats.label("boundary:flushed-although-next-report-fits-below-boundary");
                }
            }
        }
        let _ = out;
    }
    if DEBUG.load(std::sync::atomic::Ordering::Relaxed) {
        eprintln!("[debug] {}: observed report ends {:?} (message sizes {:?}); simulated {:?} abandon {:?}", ph.name, ends, out.raw.iter().map(|r| r.len()).collect::<Vec<_>>(), ph.sim.ends, ph.sim.abandon);
        for (i, l) in layouts.iter().enumerate() {
            eprintln!("[debug]   message {i}: attr reports {:?} event reports {:?} more={} suppress={}", l.attr_items, l.event_items, l.more, l.suppress);
        }
    }
    if ph.sim.abandon.is_some() {
        stats.label(format!("sim-predicted-{:?}-but-answered", ph.sim.abandon.unwrap()));
    } else if ends == ph.sim.ends {
        stats.label("sim:agrees-with-observed-packing");
    } else {
        stats.label("sim:differs-from-observed-packing");
    }
}

fn check_phase(ph: &Phase<'_>, out: &ReadOutcome, obs: &Obs, stats: &mut Stats) -> Result<BTreeSet<u64>, Fail> {
    let layouts = check_messages(ph, out, obs, stats)?;
    check_attrs(ph, out, stats)?;
    let got = check_events(ph, out, stats)?;
    boundary_stats(ph, out, &layouts, stats);
    Ok(got)
}

/// Sub-check `oversize`: how many messages the OTHER content needs by the packing simulation.
fn predicted_messages(sim: &Sim) -> usize {
    sim.ends.len() + usize::from(sim.abandon.is_some())
}

/// Sub-check `oversize`: the answer is bounded (4 + 2 per occurrence of an oversize item + what
/// the other content needs) and never repeats an empty message.
fn check_bound(ph: &Phase<'_>, out: &ReadOutcome) -> Result<(), Fail> {
    if ph.over.is_empty() {
        return Ok(());
    }
    let what = ph.name;
    // every occurrence of an oversize item (an attribute selected by k paths occurs k times) may
    // cost a message of its own
    let occurrences = ph.ax.as_ref().map(|a| a.over_max.values().sum::<usize>()).unwrap_or(0) + ph.over.events.len();
    let bound = predicted_messages(&ph.sim) + 4 + 2 * occurrences.max(ph.over.count());
    if out.raw.len() > bound {
        return Err((format!("oversize:{what}:too-many-messages"), format!("{} ReportData messages; the content that fits needs {} by the packing simulation (bound {bound})", out.raw.len(), predicted_messages(&ph.sim))));
    }
    let empty: Vec<bool> = out.raw.iter().map(|r| layout(r).map(|l| l.attr_items.is_empty() && l.event_items.is_empty()).unwrap_or(false)).collect();
    if let Some(i) = empty.windows(2).position(|w| w[0] && w[1]) {
        return Err((format!("oversize:{what}:empty-message-repeated"), format!("messages {i} and {} carry no report at all", i + 1)));
    }
    Ok(())
}

/// Sub-check `oversize`: after how many ReportData messages the controller gives an answer up
/// (generous: everything, including the oversize items at their real size, one item per message).
fn chunk_cap(case: &C14Case, w: &World) -> usize {
    if w.over_main.is_empty() && w.over_later.is_empty() {
        return MAX_CHUNKS;
    }
    let paths = case.attrs.as_ref().map(|p| p.len()).unwrap_or(0).max(1);
    let octets = |st: &State| -> usize {
        st.values
            .values()
            .map(|v| match v {
                Value::Scalar(b) => b.len() + 40,
                Value::List(l) => l.iter().map(|i| i.len() + 40).sum::<usize>() + 80,
            })
            .sum::<usize>()
    };
    let attrs = octets(&w.st).max(w.later.as_ref().map(|l| octets(&l.st)).unwrap_or(0)) * paths;
    let events = w.emits.iter().chain(w.later.iter().flat_map(|l| l.emits.iter())).map(|e| e.size as usize + 64).sum::<usize>();
    ((attrs + events) / 400 + 16).min(MAX_CHUNKS)
}

fn describe(case: &C14Case, w: &World) -> String {
    let mut sizes = Vec::new();
    for (k, v) in &w.st.values {
        sizes.push(match v {
            Value::Scalar(b) => format!("{}/{:#x}/{:#x}:{}", k.0, k.1, k.2, b.len()),
            Value::List(l) => format!("{}/{:#x}/{:#x}:list{:?}", k.0, k.1, k.2, l.iter().map(|i| i.len()).collect::<Vec<_>>()),
        });
    }
    let mut s = format!("{:?} by {:?}; attribute paths {:?}; event paths {:?}; data-version filters {:?}; event-min {:?}; value sizes [{}]; events {:?}; {}", case.kind, case.who, case.attrs, case.events, w.dv_filters, case.event_min, sizes.join(", "), w.emits.iter().map(|e| e.size).collect::<Vec<_>>(), w.notes.join("; "));
    if s.len() > 2500 {
        s.truncate(2500);
        s.push_str("...");
    }
    s
}

fn check(case: &C14Case) -> Case {
    let w = materialize(case);
    let obs = match run_case(case, &w) {
        Ok(o) => o,
        Err(c) => return c,
    };
    let mut stats = Stats::default();
    let fail = |(sig, detail): Fail| Case::fail(sig, format!("{detail}; CASE: {}", describe(case, &w)));
    // (2)
    if obs.max_datagram > MAX_TX_PACKET_SIZE {
        return fail(("size:datagram-exceeds-MAX_TX_PACKET_SIZE".into(), format!("the device sent a datagram of {} octets, the maximum is {MAX_TX_PACKET_SIZE}", obs.max_datagram)));
    }
    if obs.max_datagram + 40 >= MAX_TX_PACKET_SIZE {
        stats.label("datagram-within-40-of-maximum");
    }
    // events: the numbers really assigned
    let mut numbered_main = Vec::new();
    for (i, d) in w.emits.iter().enumerate() {
        match obs.emitted.get(i) {
            Some(Ok(n)) => numbered_main.push((d.clone(), *n, i)),
            other => return Case::inconclusive(format!("event {i} could not be emitted: {other:?}")),
        }
    }
    let subscription = case.kind != Kind::Read;
    let ax = case.attrs.as_ref().map(|p| expect_attrs(&w.st, p, &w.dv_filters, None, 0));
    let ex = case.events.as_ref().map(|p| expect_events(&w.st.node, p, case.event_min, &numbered_main, Some(&obs.stored_main)));
    if obs.stored_main.len() < w.emits.len() {
        stats.label("events:some-evicted-before-the-request");
    }
    let (mut ax, mut ex) = (ax, ex);
    let over_numbers: BTreeSet<u64> = numbered_main.iter().filter(|(_, _, i)| w.over_main.events.contains(i)).map(|(_, n, _)| *n).collect();
    let over_required = adjust_for_over(&mut ax, &mut ex, &w.over_main, &over_numbers);
    let sim = simulate(ax.as_ref().map(|a| a.units.as_slice()), ex.as_ref().map(|e| e.units.as_slice()), subscription);
    let main = Phase { name: if subscription { "priming" } else { "read" }, subscription, expect_sub_id: None, st: &w.st, ax, ex, sim, over: w.over_main.clone(), over_required };
    if let Err(f) = check_phase(&main, &obs.main, &obs, &mut stats) {
        return fail(f);
    }
    if let Err(f) = check_bound(&main, &obs.main) {
        return fail(f);
    }
    if !w.over_main.is_empty() {
        stats.label(if stats.terminated { "oversize:main:interaction-terminated" } else { "oversize:main:answer-completed" });
    }
    if subscription && stats.terminated {
        // the subscription was refused: nothing follows
        if obs.main.subscribed.is_some() {
            return fail(("oversize:priming:subscribe-response-after-error-status".into(), "a StatusResponse ended the priming but a SubscribeResponse followed".into()));
        }
    } else if subscription {
        let Some((id, _)) = obs.main.subscribed else {
            return fail(("flow:priming:no-subscribe-response".into(), "the priming report ended but no SubscribeResponse followed".into()));
        };
        if let Some(l) = layouts_sub_id(&obs.main) {
            if l != id as u64 {
                return fail(("wellformed:priming:wrong-subscription-id".into(), format!("the priming report carries SubscriptionId {l}, the SubscribeResponse {id}")));
            }
        }
        // later report(s)
        if let Some(lw) = &w.later {
            let mut numbered_later = Vec::new();
            for (j, d) in lw.emits.iter().enumerate() {
                match obs.emitted.get(w.emits.len() + j) {
                    Some(Ok(n)) => numbered_later.push((d.clone(), *n, w.emits.len() + j)),
                    other => return Case::inconclusive(format!("later event {j} could not be emitted: {other:?}")),
                }
            }
            let ax = case.attrs.as_ref().map(|p| expect_attrs(&lw.st, p, &w.dv_filters, Some(&lw.changed), 1));
            let ex = case.events.as_ref().map(|p| {
                // concrete event paths fail in a later report only if their endpoint has disappeared
                let e = expect_events(&lw.st.node, p, case.event_min, &numbered_later, Some(&obs.stored_later));
                if !e.statuses.is_empty() {
                    stats.label("report:failing-event-paths(endpoint-disappeared)");
                }
                e
            });
            // clusters with a changed, selected attribute whose data-version filter (of the subscribe
            // request) names exactly the version the cluster has when the later report is assembled
            let reached: Vec<(u16, u32)> = w
                .dv_filters
                .iter()
                .filter(|(e, c, v)| obs.datavers_later.get(&(*e, *c)) == Some(v) && w.st.datavers.get(&(*e, *c)) != Some(v))
                .filter(|(e, c, _)| ax.as_ref().is_some_and(|a| a.counts.iter().any(|(k, (min, _))| k.0 == *e && k.1 == *c && *min > 0)))
                .map(|(e, c, _)| (*e, *c))
                .collect();
            if !reached.is_empty() {
                stats.label("dvfilter:version-reached-by-a-later-change");
                if w.dv_filters.iter().any(|(e, c, v)| w.st.datavers.get(&(*e, *c)) == Some(v)) {
                    stats.label("dvfilter:version-reached-by-a-later-change+another-matching-at-priming");
                }
            }
            if w.future_exact.iter().any(|k| !reached.contains(k)) && !w.future_exact.is_empty() {
                stats.label("dvfilter:future-filter-aimed-but-cluster-has-no-changed-selected-attribute-or-prediction-off");
            }
            let (mut ax, mut ex) = (ax, ex);
            let over_numbers: BTreeSet<u64> = numbered_later.iter().filter(|(_, _, i)| w.over_later.events.contains(i)).map(|(_, n, _)| *n).collect();
            let over_required = adjust_for_over(&mut ax, &mut ex, &w.over_later, &over_numbers);
            let expects_something = ax.as_ref().is_some_and(|a| a.counts.values().any(|(min, _)| *min > 0)) || ex.as_ref().is_some_and(|e| !e.by_number.is_empty()) || !over_required.is_empty();
            let sim = simulate(ax.as_ref().map(|a| a.units.as_slice()), ex.as_ref().map(|e| e.units.as_slice()), true);
            if obs.reports.is_empty() {
                if expects_something {
                    let nospace = obs.abandoned.as_deref().is_some_and(|a| a.contains("NoSpace"));
                    let detail = format!("no report arrived within 20 s after the changes (min interval 0); device-side error: {:?}; packing simulation: {:?}", obs.abandoned, sim.abandon);
                    return fail(match (nospace && sim.ends.is_empty(), sim.abandon) {
                        (true, Some(Abandon::AttrsExactFill)) => (SIG_KNOWN_EXACT_FILL.to_string(), detail),
                        (true, Some(Abandon::EventsExactFill)) => (SIG_EVENTS_EXACT_FILL.to_string(), detail),
                        (true, Some(Abandon::NoRoomForEventArray(_))) => (SIG_NO_ROOM_FOR_EVENTS.to_string(), detail),
                        _ => ("flow:report:no-report-after-change".to_string(), detail),
                    });
                }
                stats.label("report:nothing-to-report");
            } else {
                // union of the reports (a device may split the changes over several reports)
                let mut union = ReadOutcome::default();
                for (ri, r) in obs.reports.iter().enumerate() {
                    let ph = Phase { name: "report", subscription: true, expect_sub_id: Some(id as u64), st: &lw.st, ax: None, ex: None, sim: if ri == 0 { sim.clone() } else { Sim::default() }, over: OverInfo::default(), over_required: BTreeSet::new() };
                    let mut scratch = Stats::default();
                    let layouts = match check_messages(&ph, r, &obs, &mut scratch) {
                        Ok(l) => l,
                        Err(f) => return fail(f),
                    };
                    stats.chunks = stats.chunks.max(layouts.len());
                    if ri == 0 {
                        let ph = Phase { name: "report", subscription: true, expect_sub_id: Some(id as u64), st: &lw.st, ax: ax.clone(), ex: None, sim: sim.clone(), over: w.over_later.clone(), over_required: BTreeSet::new() };
                        if let Err(f) = check_bound(&ph, r) {
                            return fail(f);
                        }
                        boundary_stats(&ph, r, &layouts, &mut stats);
                    }
                    let base = union.chunks;
                    union.attrs.extend(r.attrs.iter().cloned().map(|mut a| {
                        a.chunk += base;
                        a
                    }));
                    union.events.extend(r.events.iter().cloned().map(|mut a| {
                        a.chunk += base;
                        a
                    }));
                    union.chunks += r.chunks;
                }
                if obs.reports.len() > 1 {
                    stats.label("report:several-reports");
                }
                let ph = Phase { name: "report", subscription: true, expect_sub_id: Some(id as u64), st: &lw.st, ax, ex, sim, over: w.over_later.clone(), over_required };
                if !w.over_later.is_empty() {
                    stats.label("oversize:report:answer-completed");
                }
                if let Err(f) = check_attrs(&ph, &union, &mut stats) {
                    return fail(f);
                }
                if let Err(f) = check_events(&ph, &union, &mut stats) {
                    return fail(f);
                }
                stats.label("report:checked");
            }
        }
    }
    stats.label(format!("chunks:{}", match stats.chunks { 0 => "0", 1 => "1", 2 => "2", 3..=5 => "3-5", 6..=20 => "6-20", _ => ">20" }));
    if !w.dv_filters.is_empty() {
        stats.label("with-dataver-filter");
    }
    if case.event_min.is_some() {
        stats.label("with-event-min");
    }
    if case.events.is_some() && !w.emits.is_empty() {
        stats.label("with-events");
    }
    let mut nontrivial = (stats.chunks >= 2 && stats.near_boundary) || stats.list_split;
    if case.over.is_some() {
        // sub-check `oversize`: non-trivial = an oversize item was really selected by the request
        let n = w.over_main.count() + w.over_later.count();
        nontrivial = n > 0;
        if !w.over_main.scalars.is_empty() || !w.over_later.scalars.is_empty() {
            stats.label(format!("oversize:scalars:{}", w.over_main.scalars.len().max(w.over_later.scalars.len())));
        }
        if !w.over_main.elems.is_empty() || !w.over_later.elems.is_empty() {
            stats.label("oversize:list-element");
        }
        if !w.over_main.events.is_empty() || !w.over_later.events.is_empty() {
            stats.label("oversize:event");
        }
        if n == 0 {
            stats.label("oversize:nothing-applicable");
        }
        stats.label(if !w.over_later.is_empty() && w.over_main.is_empty() { "oversize:in-later-report-only" } else { "oversize:from-the-start" });
    }
    Case::pass(nontrivial).labels(stats.labels)
}

fn layouts_sub_id(out: &ReadOutcome) -> Option<u64> {
    out.raw.first().and_then(|r| layout(r).ok()).and_then(|l| l.sub_id)
}

// ---------------------------------------------------------------------------------------------
// Generators
// ---------------------------------------------------------------------------------------------

const EP_IDS: [u16; 4] = [0, 1, 7, 0x1234];
const CL_IDS: [u32; 4] = [0x06, 0x0300, 0xFFF1_FC01, 0x50];
const AT_IDS: [u32; 10] = [0, 1, 2, 3, 0x10, 0x4000, 0x4001, 0xFFF1_0001, 5, 6];
const EV_IDS: [u32; 3] = [0, 1, 0x80];
/// data versions away from the width boundaries (a bump never changes the encoded width)
const DATAVERS: [u32; 4] = [5, 300, 70_000, 0x8000_0000];

fn list_sizes() -> impl Strategy<Value = Vec<u8>> {
    prop_oneof![
        6 => prop::collection::vec(1u8..=200, 0..=6),
        4 => prop::collection::vec(1u8..=200, 7..=30),
        2 => prop::collection::vec(prop_oneof![1u8..=8, 1u8..=200], 31..=120),
        1 => prop::collection::vec(prop_oneof![1u8..=40, 1u8..=200], 121..=300),
    ]
}

fn attr_kind() -> impl Strategy<Value = AttrKind> {
    let max = max_scalar() as u16;
    prop_oneof![
        10 => (0u16..=40).prop_map(AttrKind::Scalar),
        4 => (41u16..=300).prop_map(AttrKind::Scalar),
        2 => (301u16..=max).prop_map(AttrKind::Scalar),
        1 => ((max - 3)..=max).prop_map(AttrKind::Scalar),
        4 => list_sizes().prop_map(AttrKind::List),
    ]
}

fn node() -> impl Strategy<Value = Vec<EpDef>> {
    let cluster = (prop::sample::select(DATAVERS.to_vec()), prop::collection::vec(attr_kind(), 1..=8), 0usize..=2);
    prop::collection::vec(prop::collection::vec(cluster, 1..=3), 1..=3).prop_map(|eps| {
        eps.into_iter()
            .enumerate()
            .map(|(ei, cls)| EpDef {
                id: EP_IDS[ei],
                clusters: cls
                    .into_iter()
                    .enumerate()
                    .map(|(ci, (dataver, kinds, nev))| ClDef {
                        id: CL_IDS[ci],
                        dataver,
                        attrs: kinds.into_iter().enumerate().map(|(ai, kind)| AttrDef { id: AT_IDS[ai], kind }).collect(),
                        events: EV_IDS[..nev].to_vec(),
                    })
                    .collect(),
            })
            .collect()
    })
}

/// (shape, endpoint selector, cluster selector, leaf selector)
type RawPath = (u8, u16, u16, u16);

fn raw_paths(n: std::ops::RangeInclusive<usize>) -> impl Strategy<Value = Vec<RawPath>> {
    prop::collection::vec((0u8..16, any::<u16>(), any::<u16>(), any::<u16>()), n)
}

/// Resolve a raw path against the node. Shapes: full wildcard, (ep,*,*), (ep,cl,*), (*,cl,*),
/// (*,cl,leaf), concrete existing, concrete absent (only if `absent_ok`).
fn resolve(node: &[EpDef], raw: &RawPath, events: bool, absent_ok: bool) -> Path {
    let (shape, a, b, c) = *raw;
    let ep = &node[pick(a, node.len())];
    let cl = &ep.clusters[pick(b, ep.clusters.len())];
    let leaves: Vec<u32> = if events { cl.events.clone() } else { cl.attrs.iter().map(|x| x.id).collect() };
    let leaf = if leaves.is_empty() { None } else { Some(leaves[pick(c, leaves.len())]) };
    match shape {
        0..=4 => Path::new(None, None, None),
        5 | 6 => Path::new(Some(ep.id), None, None),
        7 | 8 => Path::new(Some(ep.id), Some(cl.id), None),
        9 => Path::new(None, Some(cl.id), None),
        10 => Path::new(None, Some(cl.id), leaf),
        11..=13 => match leaf {
            Some(l) => Path::concrete(ep.id, cl.id, l),
            None => Path::new(Some(ep.id), Some(cl.id), None),
        },
        _ if absent_ok => match c % 3 {
            0 => Path::concrete(0x4321, cl.id, leaf.unwrap_or(0)),
            1 => Path::concrete(ep.id, 0x0909, leaf.unwrap_or(0)),
            _ => Path::concrete(ep.id, cl.id, 0x3333),
        },
        _ => Path::new(None, None, None),
    }
}

fn emit_defs(node: &[EpDef], raw: &[(u16, u16, u8, u16)]) -> Vec<EmitDef> {
    let mut sources: Vec<(u16, u32, u32)> = Vec::new();
    for e in node {
        for c in &e.clusters {
            for ev in &c.events {
                sources.push((e.id, c.id, *ev));
            }
        }
    }
    if sources.is_empty() {
        return vec![];
    }
    raw.iter()
        .map(|(a, _, prio, size)| {
            let (ep, cl, ev) = sources[pick(*a, sources.len())];
            EmitDef { ep, cl, ev, prio: *prio % 3, size: *size }
        })
        .collect()
}

fn event_size() -> impl Strategy<Value = u16> {
    prop_oneof![6 => 0u16..=60, 3 => 61u16..=300, 1 => 301u16..=1000]
}

fn raw_emits(n: std::ops::RangeInclusive<usize>) -> impl Strategy<Value = Vec<(u16, u16, u8, u16)>> {
    prop::collection::vec((any::<u16>(), any::<u16>(), 0u8..3, event_size()), n)
}

fn pivot() -> impl Strategy<Value = Option<Pivot>> {
    let delta = prop_oneof![5 => -3i16..=3, 2 => -12i16..=12, 3 => -40i16..=40];
    prop_oneof![
        1 => Just(None),
        6 => (any::<u16>(), delta.clone()).prop_map(|(sel, delta)| Some(Pivot { sel, delta })),
        // the last resizable unit: the end of the answer / of the attribute reports
        3 => delta.prop_map(|delta| Some(Pivot { sel: 0xffff, delta })),
    ]
}

#[derive(Debug, Clone)]
struct RawReq {
    attr_paths: Option<Vec<RawPath>>,
    event_paths: Option<Vec<RawPath>>,
    dv: Vec<(u16, u16, bool)>,
    event_min: Option<u16>,
    fabric_filtered: bool,
    emits: Vec<(u16, u16, u8, u16)>,
    /// failing concrete event paths (reads only): (kind, endpoint sel, cluster sel, position)
    bad_events: Vec<(u8, u16, u16, u16)>,
}

fn raw_req() -> impl Strategy<Value = RawReq> {
    (
        prop_oneof![8 => raw_paths(1..=4).prop_map(Some), 1 => Just(None)],
        prop_oneof![5 => Just(None), 4 => raw_paths(1..=3).prop_map(Some)],
        prop::collection::vec((any::<u16>(), any::<u16>(), any::<bool>()), 0..=2),
        prop_oneof![3 => Just(None), 1 => (0u16..=12).prop_map(Some)],
        any::<bool>(),
        prop_oneof![3 => raw_emits(0..=6), 2 => raw_emits(7..=24)],
        prop_oneof![3 => Just(vec![]), 2 => prop::collection::vec((0u8..4, any::<u16>(), any::<u16>(), any::<u16>()), 1..=6)],
    )
        .prop_map(|(attr_paths, event_paths, dv, event_min, fabric_filtered, emits, bad_events)| RawReq { attr_paths, event_paths, dv, event_min, fabric_filtered, emits, bad_events })
}

fn build(node: Vec<EpDef>, r: RawReq, who: Who, kind: Kind, pivot: Option<Pivot>, later: Option<Later>, sched: Option<u64>, seed: u32) -> C14Case {
    let absent_ok = kind == Kind::Read;
    let mut attrs = r.attr_paths.map(|ps| ps.iter().map(|p| resolve(&node, p, false, absent_ok)).collect::<Vec<_>>());
    let events = r.event_paths.map(|ps| ps.iter().map(|p| resolve(&node, p, true, absent_ok)).collect::<Vec<_>>());
    let mut events = events;
    if kind == Kind::Read && !r.bad_events.is_empty() {
        // failing concrete event paths, mixed kinds, anywhere among the other event paths
        let list = events.get_or_insert_with(Vec::new);
        for (k, a, b, pos) in &r.bad_events {
            let ep = &node[pick(*a, node.len())];
            let cl = &ep.clusters[pick(*b, ep.clusters.len())];
            let p = match k {
                0 => Path::concrete(0x4321, cl.id, cl.events.first().copied().unwrap_or(0)),
                1 => Path::concrete(ep.id, 0x0909, 1),
                2 => Path::concrete(0x4322 + (*a % 3), 0xFFF1_0909, 0x80),
                // unknown event id on an existing cluster (a status is optional)
                _ => Path::concrete(ep.id, cl.id, 0x3333),
            };
            let at = pick(*pos, list.len() + 1);
            list.insert(at, p);
        }
    }
    if attrs.is_none() && events.is_none() {
        attrs = Some(vec![Path::new(None, None, None)]);
    }
    // at most one data-version filter per cluster instance (the meaning of two is undefined)
    let mut dv_filters: Vec<(u16, u32, u32)> = Vec::new();
    for (a, b, matching) in &r.dv {
        let ep = &node[pick(*a, node.len())];
        let cl = &ep.clusters[pick(*b, ep.clusters.len())];
        if !dv_filters.iter().any(|(e, c, _)| *e == ep.id && *c == cl.id) {
            dv_filters.push((ep.id, cl.id, if *matching { cl.dataver } else { cl.dataver.wrapping_add(17) }));
        }
    }
    let emits = if events.is_some() { emit_defs(&node, &r.emits) } else { emit_defs(&node, &r.emits[..r.emits.len().min(2)]) };
    C14Case { node, who, kind, attrs, events, dv_filters, event_min: r.event_min.map(|m| m as u64), fabric_filtered: r.fabric_filtered, emits, pivot, later, sched, seed, over: None }
}

fn sched() -> impl Strategy<Value = Option<u64>> {
    prop_oneof![2 => Just(None), 1 => any::<u64>().prop_map(Some)]
}

fn read_case() -> impl Strategy<Value = C14Case> {
    (node(), raw_req(), prop_oneof![Just(Who::Case), Just(Who::Pase)], pivot(), sched(), any::<u32>()).prop_map(|(node, r, who, pivot, sched, seed)| build(node, r, who, Kind::Read, pivot, None, sched, seed))
}

fn subscribe_case() -> impl Strategy<Value = C14Case> {
    (node(), raw_req(), pivot(), sched(), any::<u32>()).prop_map(|(node, r, pivot, sched, seed)| build(node, r, Who::Case, Kind::Subscribe, pivot, None, sched, seed))
}

fn report_case() -> impl Strategy<Value = C14Case> {
    let later = (
        prop::bool::weighted(0.5),
        prop::collection::vec((any::<u16>(), prop_oneof![1 => Just(None), 2 => attr_kind().prop_map(Some)]), 0..=6),
        raw_emits(0..=8),
        pivot(),
        prop_oneof![2 => Just(None), 1 => (any::<u16>(), 1usize..=5).prop_map(Some)],
        prop_oneof![2 => Just(vec![]), 3 => prop::collection::vec((any::<u16>(), prop_oneof![4 => Just(0i8), 1 => Just(-1i8), 1 => Just(1i8)]), 1..=3)],
    );
    (node(), raw_req(), later, pivot(), sched(), any::<u32>()).prop_map(|(node, r, (all, changes, raw_later, lpivot, hide, future_filters), pivot, sched, seed)| {
        let emits = emit_defs(&node, &raw_later);
        let later = Later { all, changes, emits, pivot: lpivot, hide: hide.map(|h| h.0), future_filters };
        let mut c = build(node, r, Who::Case, Kind::Report, pivot, Some(later), sched, seed);
        if let Some((sel, k)) = hide {
            // subscribe to k existing concrete events of the endpoint that will disappear
            let ep = &c.node[pick(sel, c.node.len())];
            let evs: Vec<Path> = ep.clusters.iter().flat_map(|cl| cl.events.iter().map(move |e| Path::concrete(ep.id, cl.id, *e))).collect();
            if !evs.is_empty() && c.node.len() >= 2 {
                let list = c.events.get_or_insert_with(|| vec![Path::new(None, None, None)]);
                for i in 0..k {
                    let at = (i * 2).min(list.len());
                    list.insert(at, evs[i % evs.len()]);
                }
            }
        }
        c
    })
}

/// Sub-check `oversize`: an ordinary case in which one to three scalar values, one list element
/// or one event payload exceed what fits an empty chunk by 1..=400 octets.
fn oversize_case() -> impl Strategy<Value = C14Case> {
    let extra = prop_oneof![3 => 1u16..=3, 2 => 4u16..=40, 2 => 41u16..=400];
    let over = (
        prop_oneof![3 => Just(OverKind::Scalar), 2 => Just(OverKind::Element), 2 => Just(OverKind::Event)],
        prop::collection::vec((any::<u16>(), extra), 1..=3),
        any::<bool>(),
    );
    let base = prop_oneof![2 => read_case(), 1 => subscribe_case(), 2 => report_case()];
    (base, over).prop_map(|(mut c, (kind, mut items, later))| {
        // debugging aid: force one kind
        let kind = match std::env::var("C14_OVER_KIND").as_deref() {
            Ok("scalar") => OverKind::Scalar,
            Ok("element") => OverKind::Element,
            Ok("event") => OverKind::Event,
            _ => kind,
        };
        let all = Path::new(None, None, None);
        if kind != OverKind::Scalar {
            items.truncate(1);
        }
        match kind {
            OverKind::Event => {
                if c.events.is_none() {
                    c.events = Some(vec![all]);
                }
            }
            _ => {
                if c.attrs.is_none() {
                    c.attrs = Some(vec![all]);
                }
            }
        }
        c.over = Some(Over { kind, items, later });
        c
    })
}

// ---------------------------------------------------------------------------------------------
// Enumerated boundary sweep: 7 request shapes x every delta in -40..=40
// ---------------------------------------------------------------------------------------------

fn sweep_node() -> Vec<EpDef> {
    let sc = |id: u32, n: u16| AttrDef { id, kind: AttrKind::Scalar(n) };
    vec![
        EpDef {
            id: 0,
            clusters: vec![
                ClDef { id: 0x06, dataver: 300, attrs: vec![sc(0, 10), sc(1, 300), sc(2, 0), sc(3, 500), sc(0x4000, 33)], events: vec![0, 1] },
                ClDef { id: 0x0300, dataver: 70_000, attrs: vec![sc(0, 200), AttrDef { id: 1, kind: AttrKind::List(vec![50, 60, 70, 80, 90, 100, 110, 120, 130, 140, 150, 160, 170, 180, 190, 200, 1, 2, 3]) }, sc(2, 100)], events: vec![] },
            ],
        },
        EpDef { id: 1, clusters: vec![ClDef { id: 0x06, dataver: 5, attrs: vec![sc(0, 400), sc(1, 20), sc(2, 20), sc(3, 600), sc(0xFFF1_0001, 250)], events: vec![0] }] },
    ]
}

fn sweep_cases(thorough: bool) -> Vec<C14Case> {
    let node = sweep_node();
    let all = Path::new(None, None, None);
    let ev = |size: u16, prio: u8| EmitDef { ep: 0, cl: 0x06, ev: 0, prio, size };
    let emits: Vec<EmitDef> = vec![ev(100, 0), ev(200, 1), ev(300, 2), ev(50, 1), ev(400, 2), ev(10, 0)];
    let base = |kind: Kind, who: Who, attrs: Option<Vec<Path>>, events: Option<Vec<Path>>, emits: Vec<EmitDef>, pivot: Option<Pivot>, later: Option<Later>| C14Case {
        node: node.clone(),
        who,
        kind,
        attrs,
        events,
        dv_filters: vec![],
        event_min: None,
        fabric_filtered: false,
        emits,
        pivot,
        later,
        sched: None,
        seed: 1,
        over: None,
    };
    let mut out = Vec::new();
    let sels: &[u16] = if thorough { &[0xffff, 0x8000, 0x4000, 0xc000, 0x2000] } else { &[0xffff, 0x8000] };
    for delta in -40i16..=40 {
        for &sel in sels {
            let p = Some(Pivot { sel, delta });
            // 1: read, wildcard, commissioning session
            out.push(base(Kind::Read, Who::Pase, Some(vec![all]), None, vec![], p, None));
            // 2: read, wildcard + concrete + a stale and a matching data-version filter
            let mut c = base(Kind::Read, Who::Case, Some(vec![Path::new(Some(1), None, None), all, Path::concrete(0, 0x06, 3)]), None, vec![], p, None);
            c.dv_filters = vec![(0, 0x06, 299), (1, 0x06, 5)];
            out.push(c);
            // 3: read of concrete paths including a list (pivot may be a list element)
            out.push(base(Kind::Read, Who::Case, Some(vec![Path::concrete(0, 0x06, 3), Path::concrete(0, 0x0300, 1), Path::concrete(1, 0x06, 3), Path::concrete(0, 0x0300, 1)]), None, vec![], p, None));
            // 4: subscription priming, attributes followed by events
            out.push(base(Kind::Subscribe, Who::Case, Some(vec![all]), Some(vec![all]), emits.clone(), p, None));
            // 5: read of events only with an event-min filter
            let mut c = base(Kind::Read, Who::Pase, None, Some(vec![all]), emits.iter().cloned().chain(emits.iter().cloned()).collect(), p, None);
            c.event_min = Some(2);
            out.push(c);
            // 6: a later report of a subscription (everything changed, new events)
            let later = Later { all: true, changes: vec![(0x3000, Some(AttrKind::Scalar(77)))], emits: vec![ev(120, 1), ev(30, 2)], pivot: p, hide: None, future_filters: vec![] };
            out.push(base(Kind::Report, Who::Case, Some(vec![all]), Some(vec![all]), emits[..2].to_vec(), None, Some(later)));
            // 10: shape 6 with "future" data-version filters: two clusters are named with the version
            // they reach through the later changes, the third with its version at priming time
            if sel == 0xffff {
                let later = Later { all: true, changes: vec![(0x3000, Some(AttrKind::Scalar(77))), (0xf000, None)], emits: vec![ev(120, 1)], pivot: p, hide: None, future_filters: vec![(0x0000, 0), (0xffff, 0)] };
                let mut c = base(Kind::Report, Who::Case, Some(vec![all]), Some(vec![all]), emits[..2].to_vec(), None, Some(later));
                c.dv_filters = vec![(0, 0x0300, 70_000)];
                out.push(c);
            }
            // 7: attributes followed by an (empty) event report array
            out.push(base(Kind::Read, Who::Case, Some(vec![all]), Some(vec![all]), vec![], p, None));
            // 8: attribute reports ending delta octets from the boundary, followed by the statuses
            // of k failing concrete event paths (non-existent endpoint / cluster), k = 1, 3, 6;
            // no event is stored, so the last resizable unit is the last attribute
            if sel == 0xffff {
                let bad = [Path::concrete(0x4321, 0x06, 0), Path::concrete(0, 0x0909, 1), Path::concrete(0x4322, 0xFFF1_FC01, 0x80), Path::concrete(1, 0x0300, 0), Path::concrete(0x4321, 0x06, 0), Path::concrete(7, 0x06, 0)];
                for k in [1usize, 3, 6] {
                    let mut evp = bad[..k].to_vec();
                    if k > 1 {
                        evp.insert(1, all);
                    }
                    out.push(base(Kind::Read, Who::Case, Some(vec![all]), Some(evp.clone()), vec![], p, None));
                    out.push(base(Kind::Read, Who::Pase, Some(vec![Path::new(Some(1), None, None)]), Some(evp), vec![], p, None));
                    // 9: the same in a later subscription report: endpoint 1 disappears with the
                    // changes, the k concrete event paths pointing to it fail from then on
                    let mut evp = vec![Path::concrete(1, 0x06, 0); k];
                    evp.insert(k / 2, all);
                    let later = Later { all: true, changes: vec![], emits: vec![], pivot: p, hide: Some(0xffff), future_filters: vec![] };
                    out.push(base(Kind::Report, Who::Case, Some(vec![all]), Some(evp), vec![], None, Some(later)));
                }
            }
        }
    }
    out
}

// ---------------------------------------------------------------------------------------------

static DEBUG: std::sync::atomic::AtomicBool = std::sync::atomic::AtomicBool::new(false);
static VERBOSE: std::sync::atomic::AtomicBool = std::sync::atomic::AtomicBool::new(false);

struct StderrLog;

impl log::Log for StderrLog {
    fn enabled(&self, _: &log::Metadata) -> bool {
        true
    }
    fn log(&self, r: &log::Record) {
        if r.level() == log::Level::Error && r.target() == "rs_matter::respond" {
            let msg = format!("{}", r.args());
            if let Some(i) = msg.find("Abandoned because of error ") {
                note_device_error(msg[i + 27..].trim());
            }
        }
        if r.level() == log::Level::Warn && r.target().starts_with("rs_matter::im") {
            // the subscription reporter gives up a report (and will retry it for ever)
            let msg = format!("{}", r.args());
            if msg.contains("Error processing subscription") {
                note_device_error(&msg);
            }
        }
        if !VERBOSE.load(std::sync::atomic::Ordering::Relaxed) {
            return;
        }
        eprintln!("[{} {} t={}] {}", r.level(), r.target(), clock::now().saturating_sub(1_000_000_000), r.args());
    }
    fn flush(&self) {}
}


// ---------------------------------------------------------------------------------------------
// Real clusters across the chunk boundary (added after seeded changes C14-6 and C06-6): the
// administrative device of `sim/admin.rs` (real AccessControl, OperationalCredentials, Basic
// Information ... clusters) with two fabrics; a planted administrator of fabric 1 reads one
// list-valued attribute, alone (reference) and behind 0-90 small filler reports that push it
// across the end of a message, where the responder falls back to serving it element by element.
// Oracle (metamorphic): the answer is complete and well-formed and the reassembled value of the
// attribute does not depend on what precedes it.
pub mod real {
    use super::*;
    use vh::sim::admin::{boot, new_controller, BootCfg, FabricKit, NetKind};
    use vh::sim::fabric::install;
    use vh::sim::kv::MemKv;
    use vh::sim::net::Net;
    use vh::sim::node::mk_crypto;

    #[derive(Debug, Clone, Serialize, Deserialize)]
    pub struct RealCase {
        pub seed: u32,
        pub target: u8,
        pub fabric_filtered: bool,
        pub fillers: u8,
        pub filler_kind: u8,
        /// additional ACL entries of the OTHER fabric
        pub extra_acl: u8,
    }

    pub fn real_case() -> impl Strategy<Value = RealCase> {
        (any::<u32>(), 0u8..7, any::<bool>(), 0u8..=90, 0u8..3, 0u8..3).prop_map(|(seed, target, fabric_filtered, fillers, filler_kind, extra_acl)| RealCase {
            seed,
            target,
            fabric_filtered,
            fillers,
            filler_kind,
            extra_acl,
        })
    }

    const TARGETS: [(u16, u32, u32); 7] = [
        (0, 0x1F, 0),      // AccessControl::ACL (fabric-sensitive entries)
        (0, 0x3E, 0xFFF8), // OperationalCredentials::GeneratedCommandList (commands sharing a response)
        (0, 0x3E, 0xFFF9), // OperationalCredentials::AcceptedCommandList
        (0, 0x3E, 1),      // OperationalCredentials::Fabrics
        (0, 0x3E, 0),      // OperationalCredentials::NOCs (fabric-sensitive)
        (0, 0x1F, 0xFFFB), // AccessControl::AttributeList
        (0, 0x30, 0xFFF8), // GeneralCommissioning::GeneratedCommandList
    ];
    const FILLERS: [(u16, u32, u32); 3] = [(0, 0x28, 5), (0, 0x28, 1), (0, 0x30, 0)];

    /// The elements of `target` as the answer carries them: a whole-list report followed by
    /// append reports. `Err` = a report of the target that is neither.
    fn reassemble(out: &ReadOutcome, target: (u16, u32, u32)) -> Result<(Vec<String>, usize), String> {
        let mut elems: Vec<String> = Vec::new();
        let mut appended = 0usize;
        let mut seen_whole = false;
        for it in out.attrs.iter().filter(|it| it.path == Path::concrete(target.0, target.1, target.2)) {
            match (&it.list_index, &it.body) {
                (None, ReportBody::Data { value: Val::Array(items), .. }) => {
                    if seen_whole {
                        return Err("the list is reported whole twice".into());
                    }
                    seen_whole = true;
                    elems.extend(items.iter().map(|(_, v)| format!("{v:?}")));
                }
                (Some(None), ReportBody::Data { value, .. }) => {
                    if !seen_whole {
                        return Err("an append report precedes the list it appends to".into());
                    }
                    if matches!(value, Val::Null) {
                        return Err("an append report carries no value".into());
                    }
                    appended += 1;
                    elems.push(format!("{value:?}"));
                }
                (li, body) => return Err(format!("unexpected report shape: list index {li:?}, body {body:?}")),
            }
        }
        if !seen_whole {
            return Err("the attribute is not reported".into());
        }
        Ok((elems, appended))
    }

    /// What [`run_real`] observed: the elements of the target read alone and behind the fillers.
    pub struct RealObs {
        pub reference: Vec<String>,
        pub elems: Vec<String>,
        pub appended: usize,
        pub chunks: usize,
        pub target: (u16, u32, u32),
    }

    pub fn check_real(case: &RealCase) -> Case {
        match run_real(case) {
            Err(c) => c,
            Ok(o) => {
                if o.elems != o.reference {
                    let what = format!("{:#x}/{:#x} (fabric-filtered: {})", o.target.1, o.target.2, case.fabric_filtered);
                    return Case::fail(
                        "real:value-depends-on-position-in-the-answer",
                        format!(
                            "{what}: read alone it has {} element(s), behind {} filler reports ({} messages, {} appended element by element) it has {}; first difference at element {:?}: alone {:?}, chunked {:?}",
                            o.reference.len(),
                            case.fillers,
                            o.chunks,
                            o.appended,
                            o.elems.len(),
                            o.reference.iter().zip(o.elems.iter()).position(|(a, b)| a != b),
                            o.reference.iter().zip(o.elems.iter()).find(|(a, b)| a != b).map(|(a, _)| a),
                            o.reference.iter().zip(o.elems.iter()).find(|(a, b)| a != b).map(|(_, b)| b),
                        ),
                    );
                }
                Case::pass(o.appended > 0)
                    .label(if o.appended > 0 { "served-element-by-element" } else if o.chunks > 1 { "chunked-but-whole" } else { "one-message" })
                    .label(format!("target-{:#x}/{:#x}", o.target.1, o.target.2))
            }
        }
    }

    pub fn run_real(case: &RealCase) -> Result<RealObs, Case> {
        vh::sim::reset_universe();
        let net = Net::new(2);
        let gen = mk_crypto(case.seed ^ 0x5eed);
        let mut kits = Vec::new();
        for (i, (fid, icac, admin)) in [(0xA1u64, false, 0x1001u64), (0xB2, true, 0x1002)].iter().enumerate() {
            match FabricKit::new(&gen, *fid, *icac, *admin, 3 + i as u8) {
                Ok(k) => kits.push(k),
                Err(e) => return Err(Case::inconclusive(format!("fabric kit: {:?}", e.code()))),
            }
        }
        let kv = MemKv::new();
        let ctrls = vec![new_controller(case.seed, 0)];
        let cfg = BootCfg { seed: case.seed, net: NetKind::Eth, resume: false, open_window_secs: None, sched: Sched::Fifo };
        let target = TARGETS[case.target as usize % TARGETS.len()];
        let filler = FILLERS[case.filler_kind as usize % FILLERS.len()];
        let r = boot(&cfg, &kv, &net, &ctrls, |b| -> Result<RealObs, Case> {
            for (i, k) in kits.iter().enumerate() {
                let member = match k.device_member(&gen, 0x2000 + i as u64) {
                    Ok(m) => m,
                    Err(e) => return Err(Case::inconclusive(format!("device member: {:?}", e.code()))),
                };
                if let Err(e) = install(b.matter, &gen, &k.ca, &member, k.admin_node) {
                    return Err(Case::inconclusive(format!("install: {:?}", e.code())));
                }
            }
            let extra: Result<(), String> = b.matter.with_state(|st| {
                let f = st.fabrics.fabric_mut(NonZeroU8::new(2).unwrap()).map_err(|e| format!("{:?}", e.code()))?;
                for _ in 0..case.extra_acl {
                    f.acl_add(AclEntry::new(None, Privilege::OPERATE, AuthMode::Case)).map_err(|e| format!("acl_add: {:?}", e.code()))?;
                }
                Ok(())
            });
            if let Err(e) = extra {
                return Err(Case::inconclusive(e));
            }
            let sp = match b.plant_case(0, 1, kits[0].admin_node, 1, 0x2000) {
                Ok(sp) => sp,
                Err(e) => return Err(Case::inconclusive(e)),
            };
            let what = format!("{:#x}/{:#x} (fabric-filtered: {})", target.1, target.2, case.fabric_filtered);
            let alone = b.read(0, sp.ctrl_sid, &[target], case.fabric_filtered);
            if alone.error.is_some() || alone.status.is_some() {
                return Err(Case::inconclusive(format!("reference read of {what} failed: {:?} {:?}", alone.error, alone.status)));
            }
            let reference = match reassemble(&alone, target) {
                Ok((e, _)) => e,
                Err(e) => return Err(Case::fail("real:reference-read-malformed", format!("{what} read alone: {e}"))),
            };
            let mut paths = vec![filler; case.fillers as usize];
            paths.push(target);
            let out = b.read(0, sp.ctrl_sid, &paths, case.fabric_filtered);
            if let Some(e) = &out.error {
                return Err(Case::fail("real:answer-does-not-complete", format!("{what} behind {} reports of {:#x}/{:#x}: {e} after {} message(s)", case.fillers, filler.1, filler.2, out.chunks)));
            }
            if let Some(s) = out.status {
                return Err(Case::fail("real:status-instead-of-report", format!("{what} behind {} filler reports: StatusResponse {s:#x}", case.fillers)));
            }
            let got_fillers = out.attrs.iter().filter(|it| it.path == Path::concrete(filler.0, filler.1, filler.2)).count();
            if got_fillers != case.fillers as usize {
                return Err(Case::fail("real:filler-count", format!("{} reports requested for {:#x}/{:#x}, {got_fillers} received", case.fillers, filler.1, filler.2)));
            }
            match reassemble(&out, target) {
                Err(e) => Err(Case::fail("real:malformed-list-report", format!("{what} behind {} filler reports ({} messages): {e}", case.fillers, out.chunks))),
                Ok((elems, appended)) => Ok(RealObs { reference, elems, appended, chunks: out.chunks, target }),
            }
        });
        match r {
            Ok(c) => c,
            Err(e) => Err(Case::inconclusive(format!("boot: {e}"))),
        }
    }
}

fn main() {
    let _ = log::set_logger(&StderrLog);
    if std::env::var("VH_LOG").is_ok() {
        VERBOSE.store(true, std::sync::atomic::Ordering::Relaxed);
        log::set_max_level(log::LevelFilter::Debug);
    } else {
        // the responder's "exchange abandoned" errors and the reporter's "error processing subscription" warnings
        log::set_max_level(log::LevelFilter::Warn);
    }
    let mut run = Run::new(
        "C14",
        "exploration",
        "a real InteractionModel + default responder serves a generated synthetic node (1-3 endpoints x 1-3 clusters x 1-8 octet-string attributes of 0..max-that-fits-an-empty-chunk octets and lists of 0-300 elements of 1-200 octets, 0-2 event kinds, 0-24 stored events of 0-1000 octets) to a planted administrator (CASE) or commissioning (PASE) session; request = Read / Subscribe priming / Subscribe + changes + later report with 1-4 wildcard / concrete / non-existent attribute paths, 0-3 event paths, matching and stale data-version filters, event-min; one value (scalar, list element or event payload) is resized so that its report ends delta octets (-40..+40, concentrated on -3..+3) from the chunk boundary (MAX_EXCHANGE_TX_BUF_SIZE - 24). Non-trivial: the answer has >= 2 ReportData messages and a report ends 0..8 octets below the boundary or the first report of the next message would have ended 1..8 octets above it (measured on the received octets), or the pieces of a list arrive in more than one message; distinct = distinct serialized case",
    );
    run.assume("the requester is an administrator (planted CASE session + Administer ACL entry for its node id, or a PASE session): every existing attribute / event is readable, so the reference expansion is: per request path, every existing matching attribute (data) or one status of the unsupported-path family for a concrete non-existent path");
    run.assume("an attribute selected by k request paths is reported k times (each path is expanded on its own, as in C06); with a matching data-version filter 0..k times (statement silent); in a later subscription report a changed attribute is reported 1..k' times per selecting path exactly as in a read, an unchanged one 0..k times");
    run.assume("list re-assembly per the Matter rule: a report without list index replaces the list, reports with a null list index append one element each to the closest preceding report of the same path");
    run.assume("events: the selected events are the emitted events that match a path and the event-min filter and that the device still stores when the request is made (read-only verif hook Events::verif_stored_event_numbers: eviction is not part of this property); a concrete event path with an unknown event id on an existing cluster may or may not get a status");
    run.assume("single attribute values and events are bounded by what fits an empty chunk (Matter's bound); subscriptions never contain non-existent concrete paths (covered by C06)");
    run.assume("the transmit buffer size is a compile-time constant; smaller buffers are explored through the free space left by the preceding reports. The packing simulation (greedy, minimal-width TLV sizes) only aims the generator and names the known exact-fill finding; every other silence of the device is reported as a violation");
    let thorough = run.is_thorough();
    if std::env::var("C14_DEBUG").is_ok() {
        DEBUG.store(true, std::sync::atomic::Ordering::Relaxed);
    }
    if let Ok(i) = std::env::var("C14_DEBUG_SWEEP") {
        // debugging aid: run one case of the sweep verbosely
        DEBUG.store(true, std::sync::atomic::Ordering::Relaxed);
        let cases = sweep_cases(thorough);
        let c = &cases[i.parse::<usize>().unwrap_or(0).min(cases.len() - 1)];
        eprintln!("[debug] {}", describe(c, &materialize(c)));
        let r = check(c);
        eprintln!("[debug] verdict {:?} nontrivial {} labels {:?}", r.verdict, r.nontrivial, r.labels);
        return;
    }
    let (n_read, n_sub, n_rep) = (run.cases(24_000, 600_000), run.cases(12_000, 300_000), run.cases(8_000, 200_000));
    let n_over = run.cases(8_000, 200_000);
    run.exhaustive("sweep", sweep_cases(thorough), check);
    run.prop("read", n_read, read_case, check);
    run.prop("subscribe", n_sub, subscribe_case, check);
    run.prop("report", n_rep, report_case, check);
    run.prop("oversize", n_over, oversize_case, check);
    let n_real = run.cases(1_500, 40_000);
    run.prop("real-clusters", n_real, real::real_case, real::check_real);
    run.finish();
}
